SPECIFICATION Spec
CONSTANTS
  Universe <- MC_UniverseNotation
  MaxHist = 2
  Bug = "none"
INVARIANT SameAsDeclarative
INVARIANT NeverAnotherRow
INVARIANT MassOnlyForIsotopes
INVARIANT CacheFaithful
CHECK_DEADLOCK FALSE
