from .. import lib_growth_masking

def run(ctx):
    lib_growth_masking.run(ctx)
