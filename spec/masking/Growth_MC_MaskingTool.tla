------------------------ MODULE Growth_MC_MaskingTool ------------------------
(* Model-checking constants for Growth_MaskingTool (a cfg cannot hold records / negative numbers). *)
(* All exhaustive models have two or three grid points per axis (doubled positions 0, 2, 4).       *)
(* Pointer positions: on a point (even), between two points (odd), outside the data (-1, 2N+1).    *)
EXTENDS Growth_MaskingTool

Name(s, k) == [stem |-> s, k |-> k]
(* 2-D "geometry" model (<= 2 shapes) *)
MC_GeoX == {0, 1, 3}
MC_GeoY == {1, 2}
MC_GeoYThorough == {0, 1, 3}
MC_GeoXThorough == {-1, 0, 1, 3}
MC_GeoDrag == {-1, 2}
MC_GeoNames == {}
(* 2-D "order" model (<= 3 shapes of all kinds: document order, deletion in the middle) *)
MC_OrdX == {1, 2}
MC_OrdY == {2}
MC_OrdYThorough == {1, 2}
MC_OrdDrag == {-1, 1}
(* 1-D model (vertical spans only, <= 3 shapes, all file names) *)
MC_OneX == {0, 1, 3}
MC_OneXThorough == {-1, 0, 1, 2, 4, 5}
MC_OneDrag == {-2, -1, 1, 2}
MC_OneNames == {Name("a", 0), Name("a", 2), Name("", 1)}
MC_OneNamesThorough == {Name("a", 0), Name("a", 1), Name("a", 2), Name("", 1)}
(* simulation: a 5 x 4 grid, positions from half a step outside to half a step outside *)
MC_SimClickX == -1..9
MC_SimClickY == -1..7
MC_SimDrag == {-4, -3, -2, -1, 1, 2, 3, 4}
MC_SimNames == {Name("a", 0), Name("a", 1), Name("a", 2), Name("b", 0), Name("b", 1), Name("c", 0), Name("", 1)}
=============================================================================
