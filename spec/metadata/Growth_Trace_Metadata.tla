----------------------- MODULE Growth_Trace_Metadata -----------------------
(* code -> spec: judges recorded calls of the real metadata classes against the decision    *)
(* table of Growth_MetadataDefs.  One NDJSON line per call; every line gets a verdict       *)
(* (total); a rejected line prints <<"REJECT", line, tid, clause, fields>>.                  *)
(*                                                                                          *)
(* ev = "construct":  cls, given (field -> token), out ("built" | "rejected" = pydantic      *)
(*    ValidationError | "raised" = any other exception), bad (fields the ValidationError     *)
(*    blames), obj (field -> normal form observed on the built object), payload_ok (every    *)
(*    stored value is the supplied payload in that normal form), derived, rt_python /        *)
(*    rt_json / rt_jsonstr (model_validate(model_dump(mode)) == object, resp.                *)
(*    model_validate_json(model_dump_json())), json_plain (the JSON-mode dump holds only     *)
(*    str / bool / None), alt_equal (the object built from the respelled arguments AltTok    *)
(*    compares equal).                                                                      *)
(* ev = "pkg":  Software.from_package_metadata on a fabricated package: meta, module,        *)
(*    labels, out (result class), version_from, url_idx (index of the Project-URL entry      *)
(*    whose URL was returned, 0 = None, 99 = some other text), doi_none, name_ok.            *)
EXTENDS Growth_MetadataDefs, TLC, Json, IOUtils

Tr == ndJsonDeserialize(IOEnv.TRACE_FILE)

VARIABLES l, nbad
tvars == <<l, nbad>>

SeqSet(s) == {s[i] : i \in 1..Len(s)}

(* the second component of a verdict names the culprits: pairs <<field, token given>>,     *)
(* <<field, normal form wanted>> or <<property, value wanted>>                              *)
JudgeConstruct(e) ==
    LET want == Construct(e.cls, e.given)
        got == SeqSet(e.bad)
        toks(fs) == {<<f, e.given[f]>> : f \in fs}
    IN
    IF DOMAIN e.given # FieldsOf(e.cls) THEN <<"malformed_event", {}>>
    ELSE IF e.out = "raised" THEN <<"exception_other_than_ValidationError", toks(want.bad)>>
    ELSE IF want.verdict = "rejected" /\ e.out = "built" THEN <<"invalid_input_accepted", toks(want.bad)>>
    ELSE IF want.verdict = "built" /\ e.out = "rejected" THEN <<"valid_input_rejected", toks(got)>>
    ELSE IF want.verdict = "rejected"
         THEN IF got # want.bad
              THEN <<"wrong_fields_blamed", toks((got \ want.bad) \cup (want.bad \ got))>>
              ELSE <<"ok", {}>>
    ELSE LET diff == {f \in FieldsOf(e.cls) : e.obj[f] # want.obj[f]} IN
         IF diff # {} THEN <<"wrong_normal_form", {<<f, want.obj[f]>> : f \in diff}>>
         ELSE IF ~e.payload_ok THEN <<"payload_changed", {}>>
         ELSE IF e.derived # want.derived
              THEN <<"derived_property", {<<p, want.derived[p]>> : p \in DOMAIN want.derived}>>
         ELSE IF ~e.rt_python THEN <<"dump_validate_round_trip_python", {}>>
         ELSE IF ~e.rt_json THEN <<"dump_validate_round_trip_json", {}>>
         ELSE IF ~e.rt_jsonstr THEN <<"dump_validate_round_trip_json_text", {}>>
         ELSE IF ~e.json_plain THEN <<"json_dump_not_plain", {}>>
         ELSE IF ~e.alt_equal THEN <<"equivalent_inputs_unequal", {}>>
         ELSE <<"ok", {}>>

JudgePkg(e) ==
    LET want == PkgOutcome(e.meta, e.module, e.labels) IN
    IF e.out # want.out THEN <<"pkg_outcome", {want.out}>>
    ELSE IF want.out # "software" THEN <<"ok", {}>>
    ELSE IF e.version_from # want.version THEN <<"pkg_version_source", {want.version}>>
    ELSE IF want.url = {} /\ e.url_idx # 0 THEN <<"pkg_url_invented", {}>>
    ELSE IF want.url # {} /\ e.url_idx \notin want.url THEN <<"pkg_source_url", {}>>
    ELSE IF ~e.doi_none THEN <<"pkg_doi", {}>>
    ELSE IF ~e.name_ok THEN <<"pkg_name", {}>>
    ELSE <<"ok", {}>>

Judge(e) == IF e.ev = "construct" THEN JudgeConstruct(e)
            ELSE IF e.ev = "pkg" THEN JudgePkg(e)
            ELSE <<"unknown_event", {}>>

TInit == l = 1 /\ nbad = 0
TNext == /\ l <= Len(Tr)
         /\ l' = l + 1
         /\ LET v == Judge(Tr[l]) IN
            /\ nbad' = IF v[1] = "ok" THEN nbad ELSE nbad + 1
            /\ (v[1] = "ok" \/ PrintT(<<"REJECT", l, Tr[l].tid, v[1], v[2]>>))
TSpec == TInit /\ [][TNext]_tvars
Done == (l = Len(Tr) + 1) => PrintT(<<"DONE", l - 1, nbad>>)
=============================================================================
