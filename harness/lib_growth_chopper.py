"""Growth module (chopper / time-of-flight area): specification coverage beyond the 20 listed properties.
Deviations are reported with ctx.growth_finding (GROWTH-FINDING lines), never as violations of the host check.

Part 1 - NeXus chopper field validation and normalisation
    scippneutron.chopper.extract_chopper_from_nexus  and  DiskChopper.from_nexus
  Spec: spec/chopper/Growth_NexusChopperDefs.tla (layer a: order-free DECISION TABLE, one row per documented
  requirement with the exception classes a violation may surface as; declarative result), Growth_NexusChopperInputs
  (Hamming balls around a well-formed baseline group), Growth_NexusChopper (layer b: step-by-step state machine
  Deviate/Keep, Extract/UseAsIs, CheckType, LookupPosition, GetScalar x3, SplitEdges, CheckFrequency, CheckEdges,
  BroadcastHeight, Reimport).  TLC checks: accepted <=> no row broken, a refusal carries the class of a broken
  row; n_slits = number of edge pairs = number of separate openings on the K-tick disk; begin/end pairing and
  order preserved; scalar slit_height broadcast per slit; from_nexus(dict of an accepted chopper) reproduces it;
  post-processing is idempotent, loses nothing and never changes an acceptable group.  Four negative controls.
  spec -> code: Growth_Emit_NexusChopper writes every group of the ball with the table's verdict for both
  paths (from_nexus(extract(g)) and from_nexus(g)); each is built as real scipp objects and replayed.
  code -> spec: seeded random groups (K = 360, 0..6 slits, any number of simultaneous deviations) are replayed
  and every call is judged by Growth_Trace_NexusChopper.
  Refinement mapping: one tick = 360/K degrees (exact in binary for K = 8, 360); forms -> objects see _form();
  begin/end/height are mapped back to integers (must be within 1e-9 of one); "same" = the values handed in are
  the values found on the chopper (sc.identical).  Exception classes are compared by name.

Part 2 - derived quantities of chopper-cascade frames
    Frame.bounds, Frame.subbounds, Subframe.start_time/end_time/start_wavelength/end_wavelength (also for an
    array of distances), Subframe.propagate_by, FrameSequence.acceptance_diagram (back-propagation to the source)
  Spec: Growth_FrameBoundsDefs.tla + Growth_FrameBounds.tla, which EXTENDS the C11 state machine ChopperCascade
  (neutron layer + polygon layer in one state) by invariants: bounds = extremes over all vertices and contain
  every neutron in the beam; every such neutron is inside the box of the subframe containing it; start/end times
  are linear in the distance; propagate_by composes additively and is inverted by the negative difference;
  acceptance polygons = frame sheared back to distance 0, lie inside the source pulse rectangle, contain exactly
  the (emission time, wavelength) of the neutrons in the beam, and are nested from chopper to chopper.  Two
  negative controls.
  spec -> code: Growth_Emit_FrameBounds writes cascades with the exact quantities for EVERY frame of the
  sequence; they are replayed into FrameSequence.from_source_pulse / chop / Frame / Subframe in physical units.
  code -> spec: seeded random physical cascades (0..5 choppers, 1..4 windows, any even distance <= 100) are
  observed and judged by Growth_Trace_FrameBounds with the neutron layer only.
  Numeric steps outside TLC: times are divided by the tick tau = D0*lam0*m_n/h (exact rational), wavelengths by
  lam0; a reported number counts as the expected lattice integer if it is within 1e-9 * (largest coordinate of
  the frame) of it (float error of the code < 1e-13 relative).  Frames in which the model has a subframe with
  fewer than 3 distinct vertices (a window exactly touching the frame) are not compared vertex by vertex: whether
  the floating-point code keeps such a zero-area subframe is decided by rounding.  Membership of a grid neutron
  in acceptance polygons is computed in exact integer arithmetic on the reported floats scaled by 2^32 (grid
  neutrons are >= 0.005 ticks away from every edge).  acceptance_diagram() is called for a subset (it draws with
  matplotlib, ~0.1 s per call); for the other cases the frames are propagated to the source distance directly,
  which is what acceptance_diagram draws.

Part 3 - slit geometry of the SVG drawing  (DiskChopper.make_svg / _repr_svg_, chopper/_svg.py)
  Spec: Growth_ChopperSvgDefs.tla + Growth_ChopperSvg.tla: the path tracer as a state machine (MoveTo, EdgeIn,
  ArcToEnd, EdgeOut, ArcToNextBegin, CloseTurn over pen angle / rim-or-slit-depth); invariants: arcs at slit depth
  cover exactly the open cells of the disk, rim arcs the rest, the outline is exactly one anticlockwise turn, the
  SVG large-arc flags agree with the arc widths, one "begin<i>" / "end<i>" mark per edge of slit i.  Two negative
  controls.  spec -> code: the (slits, path, marks) TLC prints for every valid slit set of <= 2 (thorough: 3) slits
  on an 8-tick disk are compared with the parsed drawing.  code -> spec: random valid choppers (K = 360, deg/rad,
  scalar / per-slit / no slit_height, with / without radius, several image sizes), judged by Growth_Trace_ChopperSvg.
  Numeric steps outside TLC: an SVG point (x, y) is mapped to angle atan2(c - x, c - y) and radius hypot; it counts
  as tick t if the angle is within 2e-3 tick + 2e-5 rad (coordinates are printed with 3 decimals), radii within
  2e-3 px.  A disk without slits draws no outline at all (empty path); the spec gives no verdict on that case.
"""

from __future__ import annotations

import json
import os
import threading
import time
from fractions import Fraction

import numpy as np
import scipp as sc

from .core import MachineryError
from .refmap import H, MN, check_constants
from .tlc import require_ok, write_ndjson

W = max(2, min(6, int(os.environ.get('VERIF_TLC_WORKERS', '16')) // 3))

PREFIX = 'growth/chopper'
TICK_TOL = 1e-9
LATTICE_TOL = 1e-9
FIX = 1 << 32
MERGE = 1e-7


# ============================================================================ TLC runs in parallel threads
class Par:
    """Start ctx.tlc runs in threads (TLC is a subprocess, the GIL is released while it runs);
    state counts are added by the joining thread."""

    def __init__(self, ctx):
        self.ctx, self.jobs = ctx, []

    def start(self, name, module, cfg, **kw):
        job = {'name': name, 'res': None, 'exc': None, 'count': not kw.get('expect_error', False) and kw.pop('count', True)}
        kw['count'] = False

        def wrap():
            try:
                job['res'] = self.ctx.tlc(module, cfg, **kw)
            except BaseException as e:  # noqa: BLE001
                job['exc'] = e

        job['t'] = threading.Thread(target=wrap, daemon=True)
        job['t'].start()
        self.jobs.append(job)
        time.sleep(0.03)
        return job

    def join(self, job):
        job['t'].join()
        if job['exc'] is not None:
            raise job['exc']
        r = job['res']
        if job['count'] and not job.get('counted'):
            job['counted'] = True
            self.ctx.states += r.generated
            self.ctx.distinct_states += r.distinct
            self.ctx.transitions += max(r.generated - 1, 0)
        return r

    def join_all(self):
        first = None
        for j in self.jobs:
            try:
                self.join(j)
            except BaseException as e:  # noqa: BLE001
                first = first or e
        if first is not None:
            raise first


def _read_cases(path, emitted, what):
    cases = [json.loads(line) for line in open(path) if line.strip()]
    tag = emitted.tagged('EMITTED')
    if not tag or tag[0][1] != len(cases) or not cases:
        raise MachineryError(f'{what}: emitted cases incomplete: {tag} vs {len(cases)}')
    return cases


# ============================================================================ Part 1: NeXus chopper
TYPO = {'rotation_speed': 'rotation_sped', 'beam_position': 'beam_positon', 'phase': 'phaze',
        'position': 'positon', 'slit_height': 'slit_hight'}
UNIT = {'Hz': 'Hz', 'kHz': 'kHz', '1/min': '1/min', 'm/s': 'm/s', 'rad/s': 'rad/s', 'dimensionless': 'one',
        'nounit': None}
SCALARS = ('rotation_speed', 'beam_position', 'phase')
EXC_NAMES = ('NotImplementedError', 'KeyError', 'ValueError', 'TypeError', 'DimensionError', 'UnitError')
BASELINE = {'type': 'single', 'position': 'vector', 'rotation_speed': 'scalar', 'beam_position': 'scalar',
            'phase': 'scalar', 'unit': 'Hz', 'keys': ['slit_edges'], 'shape': '1d', 'height': 'absent',
            'radius': 'scalar', 'tdc': 'absent', 'extra': False}


def _times(n):
    return sc.datetimes(dims=['time'], values=list(range(1, n + 1)), unit='s')


def _form(form, v, unit, variant):
    """Refinement mapping of a FORM onto a concrete object (None = key with value None)."""
    if form == 'scalar':
        return sc.scalar(v, unit=unit)
    if form == 'array1':
        return sc.array(dims=['time'], values=[v], unit=unit)
    if form == 'arrayN':
        return sc.array(dims=['time'], values=[v, v + 1.0, v], unit=unit)
    if form == 'dataarray':
        if variant % 2:
            return sc.DataArray(sc.scalar(v, unit=unit))
        return sc.DataArray(sc.array(dims=['time'], values=[v, v], unit=unit), coords={'time': _times(2)})
    if form in ('log1', 'logN'):
        n = 1 if form == 'log1' else 3
        return sc.DataGroup({'value': sc.array(dims=['time'], values=[v] * n, unit=unit), 'time': _times(n)})
    if form in ('dlog1', 'dlogN'):       # the layout of scippneutron.data.chopper_mockup
        n = 1 if form == 'dlog1' else 3
        return sc.DataGroup({'value': sc.DataArray(sc.array(dims=['time'], values=[v] * n, unit=unit),
                                                   coords={'time': _times(n)})})
    if form == 'none':
        return None
    raise ValueError(form)


def build_group(g, variant=0):
    """The concrete NeXus group for descriptor g.  Returns (group, expected pass-through values)."""
    from scippneutron.chopper import DiskChopperType

    K = g['K']
    deg = 360.0 / K
    dim = 'slit' if variant % 3 else 'dim_0'
    out, want = {}, {}
    # type
    t = g['type']
    if t == 'single':
        out['type'] = 'Chopper type single'
    elif t == 'single_enum':
        out['type'] = DiskChopperType.single
    elif t != 'absent':
        out['type'] = t if variant % 2 else DiskChopperType(t)
    # position
    pos = sc.vector([0.0, 0.25, 6.5], unit='m')
    if g['position'] == 'vector':
        out['position'] = pos
        want['axle_position'] = pos
    elif g['position'] == 'typo':
        out[TYPO['position']] = pos
    # scalar fields
    aunit = 'deg' if variant % 2 == 0 else 'rad'
    vals = {'rotation_speed': (14.0, UNIT[g['unit']]), 'beam_position': (45.0 if aunit == 'deg' else 0.75, aunit),
            'phase': (-20.0 if aunit == 'deg' else -0.3, aunit)}
    attr = {'rotation_speed': 'frequency', 'beam_position': 'beam_position', 'phase': 'phase'}
    for f in SCALARS:
        form = g[f]
        v, u = vals[f]
        if form == 'absent':
            continue
        if form == 'typo':
            out[TYPO[f]] = sc.scalar(v, unit=u)
            continue
        obj = _form(form, v, u, variant)
        out[f] = obj
        if form == 'scalar':
            want[attr[f]] = obj
        elif form == 'log1':
            want[attr[f]] = obj['value'].squeeze()
    # slits
    tv = [float(x) * deg for x in g['vals']]
    keys = set(g['keys'])
    if 'slit_edges' in keys:
        if g['shape'] == '1d':
            e = sc.array(dims=[dim], values=tv, unit='deg', dtype='float64')
        elif g['shape'] == '0d':
            e = sc.scalar(tv[0] if tv else 0.0, unit='deg')
        else:
            a = np.asarray(tv, dtype='float64')
            a = a.reshape(2, -1) if len(tv) >= 2 and len(tv) % 2 == 0 else a.reshape(1, -1)
            e = sc.array(dims=['row', dim], values=a, unit='deg')
        out['slit_edges'] = e
    begin = sc.array(dims=[dim], values=tv[0::2], unit='deg', dtype='float64')
    end = sc.array(dims=[dim], values=tv[1::2], unit='deg', dtype='float64')
    if 'slit_begin' in keys:
        out['slit_begin'] = begin
    if 'slit_end' in keys:
        out['slit_end'] = end
    want['slit_begin'], want['slit_end'] = begin, end
    # slit_height
    h = g['height']
    hv = [float(x) for x in g['hvals']]
    if h == 'scalar':
        out['slit_height'] = sc.scalar(hv[0], unit='mm')
    elif h == 'array':
        out['slit_height'] = sc.array(dims=[dim], values=hv, unit='mm', dtype='float64')
    elif h == 'other_dim':
        out['slit_height'] = sc.array(dims=['other'], values=hv, unit='mm', dtype='float64')
    elif h == 'none':
        out['slit_height'] = None
    elif h == 'typo':
        out[TYPO['slit_height']] = sc.scalar(7.0, unit='mm')
    # radius
    if g['radius'] == 'scalar':
        out['radius'] = sc.scalar(350.0, unit='mm')
        want['radius'] = out['radius']
    elif g['radius'] == 'none':
        out['radius'] = None
    # top_dead_center
    if g['tdc'] == 'array':
        out['top_dead_center'] = _times(4)
    elif g['tdc'] == 'log_time_only':
        out['top_dead_center'] = sc.DataGroup({'time': _times(4)})
    if g['extra']:
        out['delay'] = sc.scalar(0.5, unit='ms')
        out['ratio'] = sc.scalar(1, unit=None)
        out['slits'] = len(tv) // 2
    # key order is not part of the interface
    names = list(out)
    if variant % 4 == 1:
        names.reverse()
    elif variant % 4 == 3:
        names = names[len(names) // 2:] + names[:len(names) // 2]
    out = {k: out[k] for k in names}
    if variant % 5 < 3 and all(v is not None for v in out.values()):
        out = sc.DataGroup(out)
    return out, want


def _same(a, b):
    if a is b:
        return True
    if a is None or b is None:
        return False
    try:
        if isinstance(a, (sc.Variable, sc.DataArray, sc.DataGroup)):
            return type(a) is type(b) and bool(sc.identical(a, b))
        return bool(a == b)
    except Exception:  # noqa: BLE001
        return False


def _classify(grp, key):
    if key not in grp:
        return 'typo' if TYPO.get(key) in grp else 'absent'
    x = grp[key]
    if x is None:
        return 'none'
    if isinstance(x, sc.DataGroup):
        if 'value' in x:
            d = 'd' if isinstance(x['value'], sc.DataArray) else ''
            return d + ('log1' if x['value'].shape == (1,) else 'logN')
        return 'group'
    if isinstance(x, sc.DataArray):
        return 'dataarray'
    if isinstance(x, sc.Variable):
        if x.ndim == 0:
            return 'scalar'
        if x.ndim == 1:
            return 'array1' if x.shape[0] == 1 else 'arrayN'
    return 'other'


def _seen(raw, proc):
    """Observable layout of the post-processed group, in the vocabulary of the spec."""
    from scippneutron.chopper import DiskChopperType

    seen = {f: _classify(proc, f) for f in SCALARS}
    t = proc.get('type', None) if hasattr(proc, 'get') else None
    if 'type' not in proc:
        seen['type'] = 'absent'
    else:
        seen['type'] = next((m.name for m in DiskChopperType if t == m), 'other')
    if 'top_dead_center' not in proc:
        seen['tdc'] = 'absent'
    else:
        x = proc['top_dead_center']
        seen['tdc'] = 'array' if isinstance(x, sc.Variable) else 'log_time_only' if isinstance(x, sc.DataGroup) else 'other'
    ok = set(proc.keys()) == set(raw.keys()) | {'type'}
    for k in raw.keys():
        if not ok:
            break
        if k == 'type':
            continue
        a, b = raw[k], proc[k]
        if isinstance(a, sc.DataGroup) and 'value' in a and k != 'top_dead_center':
            ok &= _same(a['value'].squeeze(), b)
        elif isinstance(a, sc.DataGroup) and k == 'top_dead_center':
            ok &= _same(a['time'], b)
        else:
            ok &= (a is None and b is None) or _same(a, b)
    seen['rest_unchanged'] = bool(ok)
    return seen


def _ticks(var, K, unit):
    x = np.atleast_1d(np.asarray(var.to(unit=unit, dtype='float64', copy=False).values, dtype='float64')).ravel()
    if unit == 'deg':
        x = x * (K / 360.0)
    r = np.rint(x)
    ok = bool(np.all(np.isfinite(x)) and np.all(np.abs(x - r) <= TICK_TOL * max(1.0, float(np.max(np.abs(r), initial=0.0)))))
    return [int(v) for v in r] if ok else [-10**6] * len(x)


NO_RES = {'n': -1, 'begin': [], 'end': [], 'height': {'present': False, 'vals': []}, 'radius': False}
NO_SEEN = {'type': '-', 'rotation_speed': '-', 'beam_position': '-', 'phase': '-', 'tdc': '-', 'rest_unchanged': True}


def observe_nexus(g, direct, variant):
    """One call of (extract_chopper_from_nexus;) DiskChopper.from_nexus on the group of descriptor g."""
    from scippneutron.chopper import DiskChopper, extract_chopper_from_nexus

    raw, want = build_group(g, variant)
    ev = {'ev': 'nexus', 'g': g, 'direct': bool(direct), 'seen': dict(NO_SEEN), 'outcome': '', 'res': dict(NO_RES),
          'same': True, 'roundtrip': True}
    detail = {'variant': variant}
    grp = raw
    if not direct:
        try:
            grp = extract_chopper_from_nexus(raw)
            ev['seen'] = _seen(raw, grp)
        except Exception as e:  # noqa: BLE001
            ev['outcome'] = 'extract_failed'
            detail['exc'] = repr(e)[:300]
            return ev, detail
    try:
        ch = DiskChopper.from_nexus(grp)
    except Exception as e:  # noqa: BLE001
        ev['outcome'] = type(e).__name__
        detail['exc'] = repr(e)[:300]
        return ev, detail
    ev['outcome'] = 'accepted'
    try:
        K = g['K']
        res = {'n': int(ch.n_slits), 'begin': _ticks(ch.slit_begin, K, 'deg'), 'end': _ticks(ch.slit_end, K, 'deg'),
               'radius': ch.radius is not None}
        if ch.slit_height is None:
            res['height'] = {'present': False, 'vals': []}
        elif not isinstance(ch.slit_height, sc.Variable) or ch.slit_height.sizes != ch.slit_begin.sizes:
            res['height'] = {'present': True, 'vals': [-1]}
        else:
            res['height'] = {'present': True, 'vals': _ticks(ch.slit_height, 1, 'mm')}
        ev['res'] = res
        same = True
        for attr, val in want.items():
            s = _same(getattr(ch, attr), val)
            if not s:
                detail.setdefault('changed', []).append(attr)
            same &= s
        ev['same'] = bool(same)
    except Exception as e:  # noqa: BLE001
        ev['res'] = dict(NO_RES, n=-3)
        detail['exc_after_accept'] = repr(e)[:300]
    # the dict of the finished chopper goes through from_nexus once more
    try:
        again = DiskChopper.from_nexus({'position': ch.axle_position, 'rotation_speed': ch.frequency,
                                        'beam_position': ch.beam_position, 'phase': ch.phase,
                                        'slit_begin': ch.slit_begin, 'slit_end': ch.slit_end,
                                        'slit_height': ch.slit_height, 'radius': ch.radius})
        ev['roundtrip'] = bool(again == ch)
    except Exception as e:  # noqa: BLE001
        ev['roundtrip'] = False
        detail['roundtrip_exc'] = repr(e)[:300]
    return ev, detail


def _features(g):
    """The fields in which g deviates from the baseline (for stable finding keys)."""
    out = []
    for k, v in BASELINE.items():
        gv = g[k]
        if k == 'keys':
            if sorted(gv) != v:
                out.append('keys=' + '+'.join(sorted(gv)))
        elif gv != v:
            out.append(f'{k}={gv}')
    return ','.join(out) or 'baseline'


def _judge_m1(ctx, rec, which, ev, detail):
    """spec -> code: compare one observed call with the verdict TLC computed from the decision table."""
    v = rec[which]
    g = rec['g']
    path = 'from_nexus(extract_chopper_from_nexus(g))' if which == 'via_extract' else 'from_nexus(g)'
    info = {'group': g, 'path': path, 'table': {k: v[k] for k in ('acceptable', 'classes', 'broken')},
            'observed': {k: ev[k] for k in ('outcome', 'res', 'same', 'roundtrip', 'seen')}, **detail}
    if which == 'via_extract':
        if ev['outcome'] == 'extract_failed':
            ctx.growth_finding(f'{PREFIX}: extract_chopper_from_nexus raised on a NeXus group [{_features(g)}]', info)
            return
        p = rec['processed']
        s = ev['seen']
        exp = {'type': 'single' if p['type'] in ('single', 'single_enum') else p['type'], 'tdc': p['tdc'],
               'rest_unchanged': True, **{f: p[f] for f in SCALARS}}
        wrong = [k for k in ('type', *SCALARS, 'tdc', 'rest_unchanged') if s[k] != exp[k]]
        if wrong:
            k = wrong[0]
            what = ('an entry other than an NXlog is changed, dropped or added' if k == 'rest_unchanged' else
                    f'{k}: {g[k] if k in g else g["tdc"]} becomes {s[k]}, specified {exp[k]}')
            ctx.growth_finding(f'{PREFIX}: extract_chopper_from_nexus output differs from the documented layout ({what})', info)
            return
    if not v['specified']:
        return
    if v['acceptable']:
        if ev['outcome'] != 'accepted':
            ctx.growth_finding(f'{PREFIX}: {path} refuses an acceptable group with {ev["outcome"]} [{_features(g)}]', info)
        elif ev['res'] != v['result']:
            what = ('n_slits' if ev['res']['n'] != v['result']['n'] else
                    'begin/end pairing' if (ev['res']['begin'], ev['res']['end']) != (v['result']['begin'], v['result']['end'])
                    else 'slit_height' if ev['res']['height'] != v['result']['height'] else 'radius')
            ctx.growth_finding(f'{PREFIX}: {path} builds a different chopper than specified ({what})', info)
        elif not ev['same']:
            ctx.growth_finding(f'{PREFIX}: {path} does not pass a field through unchanged '
                               f'({",".join(detail.get("changed", []))})', info)
        elif not ev['roundtrip']:
            ctx.growth_finding(f'{PREFIX}: from_nexus(dict of an accepted chopper) does not reproduce the chopper', info)
    elif ev['outcome'] == 'accepted':
        ctx.growth_finding(f'{PREFIX}: {path} accepts a group that breaks requirement(s) {"+".join(sorted(v["broken"]))}', info)
    elif ev['outcome'] not in v['classes']:
        ctx.growth_finding(f'{PREFIX}: {path} refuses with {ev["outcome"]}, not a class of the broken requirement(s) '
                           f'{"+".join(sorted(v["broken"]))}', info)


def replay_nexus_cases(ctx, cases, tagname):
    n = 0
    tally = {'accepted': 0, 'refused': 0, 'no_verdict': 0}
    for i, rec in enumerate(cases):
        for j, which in enumerate(('via_extract', 'as_is')):
            if j == 1 and not ctx.thorough and i % 2:
                continue              # quick tier: the unprocessed path for every second group only
            ev, detail = observe_nexus(rec['g'], which == 'as_is', i + 2 * j)
            _judge_m1(ctx, rec, which, ev, detail)
            n += 1
            tally['no_verdict' if not rec[which]['specified'] else 'accepted' if ev['outcome'] == 'accepted' else 'refused'] += 1
        v = rec['via_extract']
        ctx.case(nontrivial_id=(tagname, i) if (v['acceptable'] or len(v['broken']) >= 1) else None)
    ctx.sample({'nexus_case': cases[len(cases) // 2]['g'], 'table': cases[len(cases) // 2]['via_extract']})
    ctx.extra['growth_nexus_replay_outcomes'] = tally
    return n


def _random_slits(rng, K, n):
    pts = sorted(rng.sample(range(K), 2 * n))
    if n == 0 or rng.random() < 0.5:
        return [[pts[2 * i], pts[2 * i + 1]] for i in range(n)]
    sl = [[pts[2 * i + 1], pts[2 * i + 2]] for i in range(n - 1)]
    sl.append([pts[2 * n - 1], pts[0] + K])       # spans top-dead-centre
    return sl


def random_group(rng):
    """Input generation for the code -> spec direction (never an oracle)."""
    K = 360
    n = rng.choice([0, 1, 1, 2, 2, 3, 3, 4, 6])
    sl = _random_slits(rng, K, n)
    rng.shuffle(sl)
    r = rng.random()
    if r < 0.10 and n >= 1:                      # begin > end
        i = rng.randrange(n)
        sl[i] = [sl[i][1] % K, sl[i][0]] if sl[i][1] % K != sl[i][0] else sl[i]
        if sl[i][0] <= sl[i][1]:
            sl[i] = [sl[i][1] + 1, sl[i][0]] if sl[i][1] + 1 < K else sl[i]
    elif r < 0.22 and n >= 2:                    # overlapping
        i, j = rng.sample(range(n), 2)
        nb = (sl[i][0] + rng.randrange(0, sl[i][1] - sl[i][0] + 1)) % K
        sl[j] = [nb, nb + rng.randrange(1, 40)]
    elif r < 0.30 and n >= 2:                    # touching
        i, j = rng.sample(range(n), 2)
        if rng.random() < 0.5:
            nb = sl[i][1] % K
            sl[j] = [nb, nb + rng.randrange(1, 30)]
        else:
            w = rng.randrange(1, 30)
            ne = sl[i][0]
            nb = ne - w
            if nb < 0:
                nb, ne = nb + K, ne + K
            sl[j] = [nb, ne]
    vals = [x for s in sl for x in s]
    if rng.random() < 0.08 and vals:
        vals = vals[:-1]                          # odd number of edges
    n = len(vals) // 2
    p = 0.11
    dev = lambda: rng.random() < p                # noqa: E731
    forms = ['absent', 'typo', 'none', 'array1', 'arrayN', 'dataarray', 'log1', 'logN', 'dlog1', 'dlogN']
    g = {'K': K, 'vals': vals}
    g['type'] = rng.choice(['absent', 'single_enum', 'contra_rotating_pair', 'synchro_pair']) if dev() else 'single'
    g['position'] = rng.choice(['absent', 'typo']) if dev() else 'vector'
    for f in SCALARS:
        g[f] = rng.choice(forms) if dev() else rng.choice(['scalar', 'scalar', 'log1'])
    g['unit'] = rng.choice(['m/s', 'rad/s', 'dimensionless', 'nounit']) if dev() else rng.choice(['Hz', 'kHz', '1/min'])
    if dev():
        g['keys'] = rng.choice([[], ['slit_begin'], ['slit_end'], ['slit_edges', 'slit_begin'], ['slit_edges', 'slit_end'],
                                ['slit_edges', 'slit_begin', 'slit_end']])
    else:
        g['keys'] = rng.choice([['slit_edges'], ['slit_begin', 'slit_end']])
    g['shape'] = rng.choice(['0d', '2d']) if dev() else '1d'
    hk = rng.choice(['absent', 'none', 'typo', 'scalar', 'array', 'array', 'long', 'short', 'other_dim']) \
        if rng.random() < 0.6 else 'absent'
    if hk == 'short' and n == 0:
        hk = 'long'
    m = {'array': n, 'long': n + rng.randrange(1, 3), 'short': max(n - 1, 0), 'other_dim': n, 'scalar': 1}.get(hk, 0)
    g['height'] = 'array' if hk in ('long', 'short') else hk
    g['hvals'] = [rng.randrange(1, 90) for _ in range(m)]
    g['radius'] = rng.choice(['absent', 'none']) if dev() else 'scalar'
    g['tdc'] = rng.choice(['absent', 'array', 'log_time_only'])
    g['extra'] = rng.random() < 0.3
    return g


def _corrupt_nexus(events):
    """Three deliberately wrong events (appended to the trace: the judge must reject exactly these)."""
    import copy
    good = [e for e in events if e['outcome'] == 'accepted' and e['res']['n'] >= 2 and e['same']
            and e['res']['begin'][0] != e['res']['begin'][1]]
    refused = [e for e in events if e['outcome'] in EXC_NAMES]
    if not good or not refused:
        return []
    a, b, c = copy.deepcopy(good[0]), copy.deepcopy(good[-1]), copy.deepcopy(refused[0])
    a['res']['begin'][0], a['res']['begin'][1] = a['res']['begin'][1], a['res']['begin'][0]
    b['outcome'] = 'ValueError'
    c['outcome'] = 'accepted'
    return [a, b, c]


def nexus_start(ctx, par):
    th = ctx.thorough
    tmp = ctx.tmp
    mc = 'chopper/Growth_MC_NexusChopper.tla'
    sfx = '_thorough' if th else ''
    model = par.start('nexus-model', mc, f'Growth_MC_NexusChopper{sfx}.cfg', workers=W, timeout=1500)
    out = str(tmp / 'growth-nexus-cases.ndjson')
    emit = par.start('nexus-emit', 'chopper/Growth_MC_Emit_NexusChopper.tla', f'Growth_MC_Emit_NexusChopper{sfx}.cfg',
                     workers=2, env={'OUT_CASES': out}, timeout=900, count=False)
    bugs = ('halves', 'nowrap', 'conflict_ignored', 'height_unchecked')
    for bug in bugs if th else bugs[ctx.seed % 2::2]:
        par.start(f'neg-{bug}', mc, f'Growth_Neg_NexusChopper_{bug}.cfg', workers=2, expect_error=True, timeout=300)
    return {'model': model, 'emit': emit, 'out': out}


def nexus_random(ctx, par, jobs):
    th = ctx.thorough
    tmp = ctx.tmp
    # ---- code -> spec: random groups (while TLC runs)
    rng = ctx.rng
    events, info = [], []
    tpy = time.time()
    for t in range(12000 if th else 800):
        g = random_group(rng)
        direct = rng.random() < 0.35
        ev, detail = observe_nexus(g, direct, rng.randrange(60))
        events.append(ev)
        info.append(detail)
        ctx.case(nontrivial_id=('nexus-random', t))
    tpy = time.time() - tpy
    n_real = len(events)
    events += _corrupt_nexus(events)
    for i, e in enumerate(events):
        e['tid'] = i
    tf = tmp / 'growth-nexus-trace.ndjson'
    write_ndjson(tf, events)
    trace = par.start('trace-nexus', 'chopper/Growth_Trace_NexusChopper.tla', None, workers=1,
                      env={'TRACE_FILE': str(tf)}, timeout=900)
    jobs.update(trace=trace, events=events, info=info, n_real=n_real, tpy=tpy)


def nexus_part(ctx, par, jobs):
    model, emit, out, trace = jobs['model'], jobs['emit'], jobs['out'], jobs['trace']
    events, info, n_real, tpy = jobs['events'], jobs['info'], jobs['n_real'], jobs['tpy']
    # ---- spec -> code
    res = par.join(emit)
    require_ok(ctx, res, 'Growth_Emit_NexusChopper')
    cases = _read_cases(out, res, 'nexus')
    ctx.extra['growth_nexus_cases'] = len(cases)
    t1 = time.time()
    ctx.extra['growth_nexus_calls_replayed'] = replay_nexus_cases(ctx, cases, 'nexus')
    ctx.extra['growth_nexus_python_s'] = round(time.time() - t1 + tpy, 1)

    # ---- verdicts of the trace judge
    tr = par.join(trace)
    require_ok(ctx, tr, 'Growth_Trace_NexusChopper')
    done = tr.tagged('DONE')
    if not done or done[0][1] != len(events):
        raise MachineryError(f'nexus trace validation incomplete: {done} vs {len(events)} events')
    ctx.traces(n_real)
    ctx.extra['growth_nexus_random_events'] = n_real
    ctx.extra['growth_nexus_random_accepted'] = sum(e['outcome'] == 'accepted' for e in events[:n_real])
    rejected = set()
    for rej in tr.tagged('REJECT'):
        _, line, _tid, clause, row = rej
        rejected.add(line)
        if line > n_real:
            continue
        ev, det = events[line - 1], info[line - 1]
        if clause in ('unknown_event',):
            raise MachineryError(f'bad nexus event {ev}')
        path = 'from_nexus(g)' if ev['direct'] else 'from_nexus(extract_chopper_from_nexus(g))'
        key = f'{PREFIX}: {path}: {clause}' + (f' ({row})' if row != '-' else '')
        ctx.growth_finding(key, {'event': ev, **det})
    missing = [i for i in range(n_real + 1, len(events) + 1) if i not in rejected]
    if missing or len(events) == n_real:
        raise MachineryError(f'growth nexus trace specification is not sensitive: corrupted events {missing} were accepted '
                             f'({len(events) - n_real} corrupted events appended)')
    require_ok(ctx, par.join(model), 'Growth_NexusChopper model')


# ============================================================================ Part 2: frame bounds / acceptance
class Scale:
    """Physical meaning of the model units: distance D0 [m], wavelength lam0 [angstrom], time tau [s]."""

    def __init__(self, d0: Fraction, lam0: Fraction):
        self.d0, self.lam0 = d0, lam0
        self.tau = d0 * lam0 * Fraction(1, 10**10) * MN / H      # seconds per tick
        self.tau_f = float(self.tau)
        self.lam0_f = float(lam0)
        self.d0_f = float(d0)

    def time(self, ticks, unit='s'):
        f = {'s': 1, 'ms': 1000, 'us': 10**6}[unit]
        return sc.scalar(float(ticks * self.tau * f), unit=unit)

    def wavelength(self, w, unit='angstrom'):
        f = {'angstrom': Fraction(1), 'nm': Fraction(1, 10)}[unit]
        return sc.scalar(float(w * self.lam0 * f), unit=unit)

    def distance(self, d):
        return sc.scalar(float(d * self.d0), unit='m')

    def distances(self, ds):
        return sc.array(dims=['distance'], values=[float(d * self.d0) for d in ds], unit='m')


SCALES = [(Fraction(1), Fraction(1)), (Fraction(1, 2), Fraction(2)), (Fraction(5, 2), Fraction(1, 2)),
          (Fraction(3), Fraction(1, 10))]


def make_chopper(cc, s, d, win):
    return cc.Chopper(
        distance=s.distance(d),
        time_open=sc.array(dims=['cutout'], values=[float(o * s.tau) for o, _ in win], unit='s'),
        time_close=sc.array(dims=['cutout'], values=[float(c * s.tau) for _, c in win], unit='s'))


def source(cc, s, pulse, i=0):
    t0, t1, w0, w1 = pulse
    tu = ('s', 'ms', 'us')[i % 3]
    wu = ('angstrom', 'nm')[i % 2]
    return cc.FrameSequence.from_source_pulse(
        time_min=s.time(t0, tu), time_max=s.time(t1, tu),
        wavelength_min=s.wavelength(w0, wu), wavelength_max=s.wavelength(w1, wu))


def _tw(sub, s):
    t = np.asarray(sub.time.to(unit='s', copy=False).values, dtype='float64') / s.tau_f
    w = np.asarray(sub.wavelength.to(unit='angstrom', copy=False).values, dtype='float64') / s.lam0_f
    return t, w


def _t(var, s):
    return np.asarray(var.to(unit='s', copy=False).values, dtype='float64') / s.tau_f


def _w(var, s):
    return np.asarray(var.to(unit='angstrom', copy=False).values, dtype='float64') / s.lam0_f


def _close(x, expect, L, big):
    """x (ticks, float) equals expect / L up to the stated tolerance."""
    return bool(np.all(np.abs(np.asarray(x, dtype='float64') * L - np.asarray(expect, dtype='float64'))
                       <= LATTICE_TOL * big * L))


def _vertex_set(t, w, L):
    return {(int(a), int(b)) for a, b in zip(np.rint(t * L), np.rint(w * L))}


def _fixed_polys(verts):
    polys = []
    for t, w in verts:
        pts = []
        for a, b in zip(t, w):
            if pts and abs(a - pts[-1][2]) < MERGE and abs(b - pts[-1][3]) < MERGE:
                continue
            pts.append((int(round(a * FIX)), int(round(b * FIX)), a, b))
        while len(pts) > 1 and abs(pts[0][2] - pts[-1][2]) < MERGE and abs(pts[0][3] - pts[-1][3]) < MERGE:
            pts.pop()
        polys.append([(p[0], p[1]) for p in pts])
    return polys


def _inside(polys, te2, w2, d):
    """Grid neutron strictly inside one of the convex polygons?  exact integers (doubled coordinates)."""
    px = (te2 + d * w2) * FIX
    py = w2 * FIX
    for poly in polys:
        m = len(poly)
        if m < 3:
            continue
        pos = neg = False
        for i in range(m):
            ax, ay = poly[i]
            bx, by = poly[(i + 1) % m]
            cr = (2 * bx - 2 * ax) * (py - 2 * ay) - (2 * by - 2 * ay) * (px - 2 * ax)
            if cr > 0:
                pos = True
            elif cr < 0:
                neg = True
            else:
                pos = neg = True
                break
            if pos and neg:
                break
        if pos != neg:
            return True
    return False


def grid_neutrons(pulse):
    t0, t1, w0, w1 = pulse
    return [(a, b) for a in range(2 * t0 + 1, 2 * t1, 2) for b in range(2 * w0 + 1, 2 * w1, 2)]


def _ext(poly):
    ts = [v[0] for v in poly]
    ws = [v[1] for v in poly]
    return [min(ts), max(ts), min(ws), max(ws)]


def _diagram_polys(fs, s):
    """Vertices (ticks) of the patches acceptance_diagram() draws, in drawing order."""
    import matplotlib
    matplotlib.use('Agg', force=False)
    import matplotlib.pyplot as plt

    fig, ax = fs.acceptance_diagram()
    try:
        xl, yl = ax.get_xlabel(), ax.get_ylabel()
        out = []
        for p in ax.patches:
            xy = np.asarray(p.get_xy(), dtype='float64')
            if len(xy) > 1 and np.all(xy[0] == xy[-1]):
                xy = xy[:-1]
            # transposed drawing: x = wavelength [angstrom], y = time [ms]
            out.append((xy[:, 1] * 1e-3 / s.tau_f, xy[:, 0] / s.lam0_f))
        return out, (xl, yl)
    finally:
        plt.close(fig)


def replay_cascade(ctx, cc, rec, idx, with_diagram):
    """spec -> code for one emitted cascade: every frame of the sequence against TLC's exact quantities."""
    pulse, L = rec['pulse'], rec['L']
    chs = [(c['d'], [tuple(w) for w in c['win']]) for c in rec['choppers']]
    s = Scale(*SCALES[idx % 4])
    desc = {'pulse': pulse, 'choppers': rec['choppers'], 'distance_unit_m': str(s.d0), 'wavelength_unit_angstrom': str(s.lam0)}
    pts = grid_neutrons(pulse)

    def finding(what, extra):
        ctx.growth_finding(f'{PREFIX}: {what}', {**desc, **extra})

    try:
        real = [make_chopper(cc, s, d, win) for d, win in chs]
        order = list(range(len(real)))
        if idx % 2:
            order.reverse()
        fs = source(cc, s, pulse, idx).chop([real[i] for i in order])
    except Exception as e:  # noqa: BLE001
        finding('cascade construction raised on an admissible cascade', {'exc': repr(e)})
        return
    if len(fs) != len(rec['frames']):
        finding('FrameSequence has a different number of frames than choppers + 1', {})
        return
    all_clean = True
    for k, fr in enumerate(rec['frames']):
        frame = fs[k]
        degenerate = any(len({tuple(v) for v in p}) < 3 for p in fr['polys'])
        d = fr['d']
        where = {'frame': k, 'distance': d}
        alive = {tuple(n) for n in fr['alive']}
        try:
            # ---- acceptance: propagated back to the source (what acceptance_diagram draws)
            back = frame.propagate_to(fs[0].distance)
            averts = [_tw(sub, s) for sub in back.subframes]
            big = max([1.0] + [float(np.max(np.abs(t))) for t, _ in averts] + [float(np.max(np.abs(w))) for _, w in averts]
                      + [abs(x) / L for p in fr['polys'] for v in p for x in v])
            tol = LATTICE_TOL * big
            t0, t1, w0, w1 = pulse
            for t, w in averts:
                if np.any(t < t0 - tol) or np.any(t > t1 + tol) or np.any(w < w0 - tol) or np.any(w > w1 + tol):
                    finding('acceptance polygon (frame propagated back to the source) leaves the source pulse rectangle',
                            {**where, 'vertices_ticks': [t.tolist(), w.tolist()]})
            fixed = _fixed_polys(averts)
            wrong = [n for n in pts if _inside(fixed, n[0], n[1], 0) != (n in alive)]
            if wrong:
                finding('acceptance polygons are not the (emission time, wavelength) set of the transmitted neutrons',
                        {**where, 'neutron_te2_w2': wrong[0], 'transmitted': wrong[0] in alive})
            if degenerate:
                all_clean = False
                continue
            if len(frame.subframes) != fr['nsub']:
                finding('number of subframes differs from the model (no window touches the frame exactly)',
                        {**where, 'got': len(frame.subframes), 'expected': fr['nsub']})
                all_clean = False
                continue
            if fr['nsub'] == 0:
                continue
            for m, (t, w) in enumerate(averts):
                if _vertex_set(t, w, L) != {tuple(v) for v in fr['acc'][m]}:
                    finding('acceptance polygon differs from the model frame sheared back to distance 0',
                            {**where, 'subframe': m, 'got': sorted(_vertex_set(t, w, L)), 'expected': fr['acc'][m]})
            # ---- bounds / subbounds / Subframe properties
            b = frame.bounds()
            got = list(_t(b['time'], s)) + list(_w(b['wavelength'], s))
            if not _close(got, fr['bounds'], L, big):
                finding('Frame.bounds() is not the extremes over all vertices of all subframes',
                        {**where, 'got_ticks': got, 'expected_scaled_by_L': fr['bounds']})
            sb = frame.subbounds()
            st, sw = _t(sb['time'], s), _w(sb['wavelength'], s)
            if st.shape != (fr['nsub'], 2) or sw.shape != (fr['nsub'], 2):
                finding('Frame.subbounds() has an unexpected shape', {**where, 'shape': [list(st.shape), list(sw.shape)]})
            else:
                got = [[st[m, 0], st[m, 1], sw[m, 0], sw[m, 1]] for m in range(fr['nsub'])]
                if not _close(got, fr['subbounds'], L, big):
                    finding('Frame.subbounds() is not the per-subframe extremes', {**where, 'got_ticks': np.asarray(got).tolist(),
                                                                                   'expected_scaled_by_L': fr['subbounds']})
            for m, sub in enumerate(frame.subframes):
                got = [float(_t(sub.start_time, s)), float(_t(sub.end_time, s)),
                       float(_w(sub.start_wavelength, s)), float(_w(sub.end_wavelength, s))]
                if not _close(got, fr['subbounds'][m], L, big):
                    finding('Subframe.start_time/end_time/start_wavelength/end_wavelength are not the extremes of its vertices',
                            {**where, 'subframe': m, 'got_ticks': got, 'expected_scaled_by_L': fr['subbounds'][m]})
            # ---- array of distances: start/end time per distance
            down = rec['down']
            far = frame.propagate_to(s.distances([d + x for x in down]))
            bigf = big + max(down) * max(1.0, float(w1))
            fsb = far.subbounds()
            ft = fsb['time'].transpose(['subframe', 'distance', 'bound'])
            ftv = np.asarray(ft.to(unit='s').values) / s.tau_f
            exp = np.asarray([[[fr['starts'][m][j], fr['ends'][m][j]] for j in range(len(down))] for m in range(fr['nsub'])])
            if ftv.shape != exp.shape or not _close(ftv, exp, L, bigf):
                finding('start/end times for an array of distances differ from the model', {**where, 'deltas': down,
                        'got_ticks': ftv.tolist(), 'expected_scaled_by_L': exp.tolist()})
            fb = far.bounds()['time'].transpose(['distance', 'bound'])
            fbv = np.asarray(fb.to(unit='s').values) / s.tau_f
            expb = np.stack([exp[:, :, 0].min(axis=0), exp[:, :, 1].max(axis=0)], axis=1)
            if fbv.shape != expb.shape or not _close(fbv, expb, L, bigf):
                finding('Frame.bounds() for an array of distances differs from the model', {**where, 'deltas': down,
                        'got_ticks': fbv.tolist(), 'expected_scaled_by_L': expb.tolist()})
            # ---- propagate_by (relative, either sign)
            for j, delta in enumerate(rec['deltas']):
                for m, sub in enumerate(frame.subframes):
                    mv = sub.propagate_by(s.distance(delta))
                    t, w = _tw(mv, s)
                    if _vertex_set(t, w, L) != {tuple(v) for v in fr['moved'][j][m]}:
                        finding('Subframe.propagate_by(delta) differs from the relative shear of the model',
                                {**where, 'subframe': m, 'delta': delta, 'got': sorted(_vertex_set(t, w, L)),
                                 'expected': fr['moved'][j][m]})
        except Exception as e:  # noqa: BLE001
            finding(f'derived quantity raised {type(e).__name__} on a frame produced by the API', {**where, 'exc': repr(e)[:300]})
            all_clean = False
    # ---- the real acceptance_diagram(): drawn polygons, frame by frame
    if with_diagram and all_clean:
        try:
            drawn, labels = _diagram_polys(fs, s)
            expected = [(k, m) for k, fr in enumerate(rec['frames']) for m in range(fr['nsub'])]
            if len(drawn) != len(expected):
                finding('acceptance_diagram() draws a different number of polygons than there are subframes',
                        {'got': len(drawn), 'expected': len(expected)})
            else:
                for (k, m), (t, w) in zip(expected, drawn):
                    if _vertex_set(t, w, L) != {tuple(v) for v in rec['frames'][k]['acc'][m]}:
                        finding('acceptance_diagram() draws a polygon that is not the frame sheared back to the source',
                                {'frame': k, 'subframe': m, 'got': sorted(_vertex_set(t, w, L)),
                                 'expected': rec['frames'][k]['acc'][m], 'axis_labels': labels})
        except Exception as e:  # noqa: BLE001
            finding(f'acceptance_diagram() raised {type(e).__name__}', {'exc': repr(e)[:300]})
    nt = any(0 < len(fr['alive']) < len(pts) for fr in rec['frames'])
    ctx.case(nontrivial_id=('bounds-enum', idx) if nt else None)


def _transmitted(n, choppers):
    """Input generation only (which cascades are interesting) - never used as an oracle."""
    return all(any(2 * o < n[0] + d * n[1] < 2 * c for o, c in win) for d, win in choppers)


def random_cascade(rng):
    t0 = rng.randrange(0, 200)
    t1 = t0 + rng.choice([1, 2, 7, 40, 300, 1500, 3000])
    w0 = rng.choice([0, 0, 1, 5, 40, 200])
    w1 = w0 + rng.choice([1, 2, 9, 60, 400, 700])
    pulse = (t0, t1, w0, w1)
    samp = [(2 * rng.randrange(t0, t1) + 1, 2 * rng.randrange(w0, w1) + 1) for _ in range(60)]
    n = rng.choice([0, 1, 1, 2, 2, 3, 3, 4, 5])
    dists = sorted(2 * rng.randrange(1, 51) for _ in range(n))
    chs = []
    for d in dists:
        lo, hi = t0 + d * w0, t1 + d * w1
        arr = sorted((a + d * b) // 2 for a, b in samp) or [lo, hi]
        span = max(hi - lo, 4)
        nwin = rng.randrange(1, 5)
        kind = rng.random()
        if kind < 0.2:
            cand = [(min(arr[0], lo) - rng.randrange(0, 5), max(arr[-1], hi) + 1 + rng.randrange(0, 5))]
        elif kind < 0.27:
            cand = [(hi + 1 + rng.randrange(0, 9), hi + 10 + rng.randrange(1, 50))]
        else:
            special = [lo, hi, t0 + d * w1, t1 + d * w0] + [e for _pd, pw in chs for w in pw for e in w]
            edges = set()
            while len(edges) < 2 * nwin:
                r = rng.random()
                if r < 0.2:
                    edges.add(rng.choice(special))
                elif r < 0.8:
                    edges.add(rng.choice(arr) + rng.randrange(-2, 3))
                else:
                    edges.add(lo + rng.randrange(-span // 4 - 2, span + span // 4 + 3))
            es = sorted(edges)
            cand = [(es[2 * i], es[2 * i + 1]) for i in range(nwin)]
        chs.append((d, cand))
        samp = [p for p in samp if _transmitted(p, [(d, cand)])]
    dfin = (dists[-1] if dists else 0) + rng.choice([0, 1, 2, 7, 30, 111])
    return pulse, chs, dfin


def observe_bounds(frame, fs0dist, s, pulse, chs, dist, rng):
    """code -> spec: one event for a frame reported by the code (neutron-level statements + flags)."""
    t0, t1, w0, w1 = pulse
    verts = [_tw(sub, s) for sub in frame.subframes]
    nonempty = len(verts) > 0
    ev = {'ev': 'bounds', 'pulse': list(pulse), 'dist': dist, 'nonempty': nonempty,
          'choppers': [{'d': d, 'win': [list(x) for x in win]} for d, win in chs],
          'extremes': True, 'insource': True, 'linear': True, 'inverse': True}
    detail = {}
    big = max([1.0, float(t1 + dist * w1)] + [float(np.max(np.abs(t))) for t, _ in verts])
    tol = LATTICE_TOL * big
    # sample of grid neutrons: random ones and the neighbours of every reported vertex
    pts = {(2 * rng.randrange(t0, t1) + 1, 2 * rng.randrange(w0, w1) + 1) for _ in range(100)}
    for tt, ww in verts:
        for a, b in zip(tt, ww):
            wb = int(np.floor(b))
            for w2 in (2 * wb - 1, 2 * wb + 1, 2 * wb + 3):
                tb = int(np.floor(a - dist * (w2 / 2.0)))
                for te2 in (2 * tb - 1, 2 * tb + 1, 2 * tb + 3):
                    if 2 * t0 < te2 < 2 * t1 and 2 * w0 < w2 < 2 * w1:
                        pts.add((te2, w2))
    pts = sorted(pts)
    pts = pts[::len(pts) // 300 + 1]
    if nonempty:
        b = frame.bounds()
        bt, bw = _t(b['time'], s), _w(b['wavelength'], s)
        sb = frame.subbounds()
        st, sw = _t(sb['time'], s), _w(sb['wavelength'], s)
        # extremes: exact float comparison with the reported vertices (in the units the code stores)
        ts = [np.asarray(x.time.values).ravel() for x in frame.subframes]
        ws = [np.asarray(x.wavelength.values).ravel() for x in frame.subframes]
        ok = (b['time'].values[0] == min(x.min() for x in ts) and b['time'].values[1] == max(x.max() for x in ts)
              and b['wavelength'].values[0] == min(x.min() for x in ws) and b['wavelength'].values[1] == max(x.max() for x in ws))
        rt, rw = np.asarray(sb['time'].values), np.asarray(sb['wavelength'].values)
        ok = ok and rt.shape == (len(ts), 2) and rw.shape == (len(ws), 2)
        if ok:
            for k in range(len(ts)):
                ok = ok and (rt[k, 0] == ts[k].min() and rt[k, 1] == ts[k].max() and rw[k, 0] == ws[k].min()
                             and rw[k, 1] == ws[k].max())
        ev['extremes'] = bool(ok)
        # acceptance: back at the source
        back = frame.propagate_to(fs0dist)
        averts = [_tw(sub, s) for sub in back.subframes]
        for t, w in averts:
            if np.any(t < t0 - tol) or np.any(t > t1 + tol) or np.any(w < w0 - tol) or np.any(w > w1 + tol):
                ev['insource'] = False
                detail['acceptance_vertices_ticks'] = [t.tolist(), w.tolist()]
        fixed = _fixed_polys(averts)
        # linear: start/end time over an array of distances
        deltas = [0, 1, 3, 10]
        far = frame.propagate_to(s.distances([dist + x for x in deltas]))
        ft = np.asarray(far.subbounds()['time'].transpose(['subframe', 'distance', 'bound']).to(unit='s').values) / s.tau_f
        bigf = big + 10 * max(1.0, float(w1))
        for k in range(len(ts)):
            for j, x in enumerate(deltas):
                if abs(ft[k, j, 0] - (st[k, 0] + x * sw[k, 0])) > LATTICE_TOL * bigf or \
                        abs(ft[k, j, 1] - (st[k, 1] + x * sw[k, 1])) > LATTICE_TOL * bigf:
                    ev['linear'] = False
                    detail['nonlinear'] = {'subframe': k, 'delta': x, 'start_end_ticks': ft[k, j].tolist(),
                                           'at_delta_0': [st[k].tolist(), sw[k].tolist()]}
        # inverse: propagate_by(delta) followed by propagate_by(-delta)
        for k, sub in enumerate(frame.subframes):
            x = rng.choice([1, 2, 9, 40])
            rt_ = sub.propagate_by(s.distance(x)).propagate_by(s.distance(-x))
            t2, w2_ = _tw(rt_, s)
            if np.any(np.abs(t2 - verts[k][0]) > LATTICE_TOL * (big + x * max(1.0, float(w1)))) or np.any(w2_ != verts[k][1]):
                ev['inverse'] = False
        rows = []
        for te2, w2 in pts:
            arr, lam = te2 / 2.0 + dist * (w2 / 2.0), w2 / 2.0
            inb = bool(bt[0] < arr < bt[1] and bw[0] < lam < bw[1])
            ins = bool(np.any((st[:, 0] < arr) & (arr < st[:, 1]) & (sw[:, 0] < lam) & (lam < sw[:, 1])))
            rows.append([te2, w2, inb, ins, _inside(fixed, te2, w2, 0)])
        ev['pts'] = rows
    else:
        ev['pts'] = [[a, b, False, False, False] for a, b in pts]
    return ev, detail


def replay_random_cascade(ctx, cc, events, info, t, rng):
    pulse, chs, dfin = random_cascade(rng)
    s = Scale(rng.choice([Fraction(1, 4), Fraction(1, 2), Fraction(1)]),
              rng.choice([Fraction(1, 64), Fraction(1, 32), Fraction(1, 100)]))
    desc = {'pulse': pulse, 'choppers': [{'d': d, 'win': w} for d, w in chs], 'dfinal': dfin,
            'distance_unit_m': str(s.d0), 'wavelength_unit_angstrom': str(s.lam0)}
    try:
        order = list(range(len(chs)))
        rng.shuffle(order)
        fs = source(cc, s, pulse, rng.randrange(6)).chop([make_chopper(cc, s, *chs[i]) for i in order])
        observed = [(fs.propagate_to(s.distance(dfin))[-1], len(chs), dfin)]
        k = rng.randrange(len(chs) + 1)
        if not (0 < k < len(chs) and chs[k - 1][0] == chs[k][0]):   # equal distances: application order is unspecified
            observed.append((fs[k], k, chs[k - 1][0] if k else 0))
        for frame, k, dist in observed:
            ev, det = observe_bounds(frame, fs[0].distance, s, pulse, chs[:k], dist, rng)
            ev['tid'] = len(events)
            events.append(ev)
            info.append({**desc, 'observed_distance': dist, **det})
        nt = any(0 < sum(p[4] for p in e['pts']) < len(e['pts']) for e in events[-len(observed):])
        ctx.case(nontrivial_id=('bounds-random', t) if nt else None)
    except Exception as e:  # noqa: BLE001
        ctx.growth_finding(f'{PREFIX}: derived quantity raised {type(e).__name__} on a random cascade produced by the API',
                           {**desc, 'exc': repr(e)[:300]})


def _corrupt_bounds(events):
    import copy
    good = [e for e in events if e['nonempty'] and any(p[4] for p in e['pts']) and any(not p[4] for p in e['pts'])]
    if not good:
        return []
    a, b = copy.deepcopy(good[0]), copy.deepcopy(good[-1])
    i = next(i for i, p in enumerate(a['pts']) if p[4])
    a['pts'][i][2] = False
    j = next(i for i, p in enumerate(b['pts']) if not p[4])
    b['pts'][j][4] = True
    return [a, b]


def bounds_start(ctx, par):
    th = ctx.thorough
    tmp = ctx.tmp
    sfx = '_thorough' if th else ''
    mc = 'chopper/Growth_MC_FrameBounds.tla'
    model = par.start('bounds-model', mc, f'Growth_MC_FrameBounds{sfx}.cfg', workers=W, timeout=1500)
    out = str(tmp / 'growth-bounds-cases.ndjson')
    emit = par.start('bounds-emit', 'chopper/Growth_MC_Emit_FrameBounds.tla', f'Growth_MC_Emit_FrameBounds{sfx}.cfg',
                     workers=2, env={'OUT_CASES': out}, timeout=900, count=False)
    bugs = ('firstsub', 'accsign')
    for bug in bugs if th else bugs[ctx.seed % 2::2]:
        par.start(f'neg-{bug}', mc, f'Growth_Neg_FrameBounds_{bug}.cfg', workers=2, expect_error=True, timeout=300)
    return {'model': model, 'emit': emit, 'out': out}


def bounds_random(ctx, par, jobs):
    from scippneutron.tof import chopper_cascade as cc

    th = ctx.thorough
    tmp = ctx.tmp
    # ---- code -> spec while TLC runs
    rng = ctx.rng
    events, info = [], []
    tpy = time.time()
    for t in range(1200 if th else 40):
        replay_random_cascade(ctx, cc, events, info, t, rng)
    tpy = time.time() - tpy
    n_real = len(events)
    events += _corrupt_bounds(events)
    for i, e in enumerate(events):
        e['tid'] = i
    tf = tmp / 'growth-bounds-trace.ndjson'
    write_ndjson(tf, events)
    trace = par.start('trace-bounds', 'chopper/Growth_Trace_FrameBounds.tla', None, workers=1,
                      env={'TRACE_FILE': str(tf)}, timeout=900)
    jobs.update(trace=trace, events=events, info=info, n_real=n_real, tpy=tpy)


def bounds_part(ctx, par, jobs):
    from scippneutron.tof import chopper_cascade as cc

    th = ctx.thorough
    model, emit, out, trace = jobs['model'], jobs['emit'], jobs['out'], jobs['trace']
    events, info, n_real, tpy = jobs['events'], jobs['info'], jobs['n_real'], jobs['tpy']
    # ---- spec -> code
    res = par.join(emit)
    require_ok(ctx, res, 'Growth_Emit_FrameBounds')
    cases = _read_cases(out, res, 'frame bounds')
    ndiag = 150 if th else 20
    step = max(1, len(cases) // ndiag)
    t1 = time.time()
    for i, rec in enumerate(cases):
        replay_cascade(ctx, cc, rec, i, with_diagram=(i % step == 0))
    ctx.extra['growth_bounds_python_s'] = round(time.time() - t1 + tpy, 1)
    ctx.extra['growth_bounds_cascades_replayed'] = len(cases)
    ctx.extra['growth_bounds_frames_replayed'] = sum(len(r['frames']) for r in cases)
    ctx.sample({'bounds_case': {'pulse': cases[-1]['pulse'], 'choppers': cases[-1]['choppers'],
                                'bounds_scaled_by_L': [f['bounds'] for f in cases[-1]['frames']]}})
    # ---- verdicts
    tr = par.join(trace)
    require_ok(ctx, tr, 'Growth_Trace_FrameBounds')
    done = tr.tagged('DONE')
    if not done or done[0][1] != len(events):
        raise MachineryError(f'bounds trace validation incomplete: {done} vs {len(events)} events')
    ctx.traces(n_real)
    ctx.extra['growth_bounds_random_events'] = n_real
    rejected = set()
    for _, line, _tid, clause in tr.tagged('REJECT'):
        rejected.add(line)
        if line > n_real:
            continue
        if clause.startswith('driver_error') or clause == 'unknown_event':
            raise MachineryError(f'bad bounds event {events[line - 1]}: {clause}')
        ctx.growth_finding(f'{PREFIX}: random cascade: {clause}', {'event': events[line - 1], **info[line - 1]})
    missing = [i for i in range(n_real + 1, len(events) + 1) if i not in rejected]
    if missing or len(events) == n_real:
        raise MachineryError(f'growth bounds trace specification is not sensitive: corrupted events {missing} were accepted '
                             f'({len(events) - n_real} corrupted events appended)')
    require_ok(ctx, par.join(model), 'Growth_FrameBounds model')


# ============================================================================ Part 3: SVG slit geometry
def parse_svg(svg, image_size):
    """The drawn geometry of DiskChopper.make_svg in polar form: points as (angle [rad], radius [px])."""
    import math
    import re

    c = image_size / 2

    def polar(x, y):
        x, y = float(x), float(y)
        # svg x = c - r sin(a), svg y = c - r cos(a): angle 0 at the top, anticlockwise on the screen
        return math.atan2(c - x, c - y) % (2 * math.pi), math.hypot(c - x, c - y)

    m = re.search(r'<path d="([^"]*)" fill="#e0e0e0"', svg)
    if m is None:
        raise ValueError('no disk outline in the SVG')
    toks = m.group(1).split()
    segs = []
    i = 0
    while i < len(toks):
        t = toks[i]
        if t[0] in 'ML':
            segs.append((t[0], polar(t[1:], toks[i + 1])))
            i += 2
        elif t[0] == 'A':
            rx, ry, rot, large, sweep = float(t[1:]), float(toks[i + 1]), toks[i + 2], toks[i + 3], toks[i + 4]
            segs.append(('A', polar(toks[i + 5], toks[i + 6]), rx, ry, rot, int(large), int(sweep)))
            i += 7
        else:
            raise ValueError(f'unexpected path token {t}')
    marks = []
    for pm in re.finditer(r'<path d="M(\S+) (\S+) L(\S+) (\S+)"[^>]*/>\s*<text [^>]*>([^<]+)</text>', svg):
        x0, y0, x1, y1, label = pm.groups()
        marks.append((label.strip(), float(x0), float(y0), polar(x1, y1)))
    return segs, marks


def observe_svg(K, slits, heights, radius, bp, aunit, cw, image_size=400):
    """Event for one drawing.  heights: None | float | list (metres), radius: float | None (metres)."""
    import math
    from scippneutron.chopper import DiskChopper

    def ang(t):
        return float(t) * 360.0 / K if aunit == 'deg' else float(t) * 2 * math.pi / K

    if heights is None:
        h = None
    elif isinstance(heights, list):
        h = sc.array(dims=['slit'], values=heights, unit='m')
    else:
        h = sc.scalar(float(heights), unit='m')
    ch = DiskChopper(
        axle_position=sc.vector([0.0, 0.0, 3.0], unit='m'), frequency=sc.scalar(-14.0 if cw else 14.0, unit='Hz'),
        beam_position=sc.scalar(ang(bp), unit=aunit), phase=sc.scalar(0.0, unit=aunit),
        slit_begin=sc.array(dims=['slit'], values=[ang(b) for b, _ in slits], unit=aunit, dtype='float64'),
        slit_end=sc.array(dims=['slit'], values=[ang(e) for _, e in slits], unit=aunit, dtype='float64'),
        slit_height=h, radius=None if radius is None else sc.scalar(radius, unit='m'))
    svg = ch.make_svg(image_size)
    segs, marks = parse_svg(svg, image_size)
    R = 1.0 if radius is None else radius
    hs = [R / 2] * len(slits) if heights is None else heights if isinstance(heights, list) else [float(heights)] * len(slits)
    rim = 0.75 * 0.99 * image_size / 2
    tick = 2 * math.pi / K
    tol_a, tol_r = 2e-3 * tick + 2e-5, 2e-3        # 3 printed decimals: < 1e-3 px on radii >= 30 px

    ongrid = True

    def to_tick(a):
        nonlocal ongrid
        x = a / tick
        r = round(x)
        if abs(x - r) * tick > tol_a:
            ongrid = False
        return int(r) % K

    path, radii, sweep = [], True, True
    inner = False
    prev_r = None
    for sg in segs:
        a, r = sg[1]
        if sg[0] == 'M':
            path.append(['M', to_tick(a)])
            radii &= abs(r - rim) < tol_r
        elif sg[0] == 'L':
            inner = abs(r - rim) >= tol_r
            path.append(['L', to_tick(a), inner])
        else:
            _, _, rx, ry, _rot, large, sw = sg
            path.append(['A', to_tick(a), abs(r - rim) >= tol_r, bool(large)])
            radii &= abs(rx - r) < tol_r and abs(ry - r) < tol_r and prev_r is not None and abs(prev_r - r) < tol_r
            sweep &= sw == 0
        prev_r = r
    out_marks, tdc, beam = [], False, False
    for label, x0, y0, (a, r) in marks:
        centre = abs(x0 - image_size // 2) < 1e-9 and abs(y0 - image_size // 2) < 1e-9
        if label == 'TDC':
            tdc = centre and to_tick(a) == 0 and abs(r - rim) < tol_r
        elif label == 'beam position':
            beam = centre and to_tick(a) == bp % K and abs(r - rim) < tol_r
        elif label.startswith('begin') or label.startswith('end'):
            kind = 'begin' if label.startswith('begin') else 'end'
            idx = int(label[len(kind):])
            out_marks.append([kind, idx, to_tick(a)])
            radii &= centre and 0 <= idx < len(hs) and abs(r - (1 - hs[idx] / R) * rim) < tol_r
        else:
            radii = False
    ev = {'ev': 'svg', 'K': K, 'slits': [list(x) for x in slits], 'path': path, 'marks': out_marks,
          'ongrid': bool(ongrid), 'radii': bool(radii), 'sweep': bool(sweep), 'tdc': bool(tdc), 'beam': bool(beam)}
    return ev


def _norm_path(path, K):
    out = []
    for sg in path:
        sg = list(sg)
        sg[1] = sg[1] % K
        out.append(sg)
    return out


def svg_start(ctx, par):
    sfx = '_thorough' if ctx.thorough else ''
    mc = 'chopper/Growth_MC_ChopperSvg.tla'
    model = par.start('svg-model', mc, f'Growth_MC_ChopperSvg{sfx}.cfg', workers=1, timeout=900)
    bugs = ('unsorted', 'smallarcs')
    for bug in bugs if ctx.thorough else bugs[ctx.seed % 2::2]:
        par.start(f'neg-svg-{bug}', mc, f'Growth_Neg_ChopperSvg_{bug}.cfg', workers=2, expect_error=True, timeout=300)
    return {'model': model}


def _svg_guarded(ctx, desc, fn):
    try:
        return fn()
    except Exception as e:  # noqa: BLE001
        ctx.growth_finding(f'{PREFIX}: make_svg raised {type(e).__name__} on a valid chopper', {**desc, 'exc': repr(e)[:300]})
        return None


def svg_random(ctx, par, jobs):
    rng = ctx.rng
    K2 = 360
    events, info = [], []

    def guarded(desc, fn):
        return _svg_guarded(ctx, desc, fn)

    # ---- code -> spec: random valid choppers
    for t in range(600 if ctx.thorough else 80):
        n = rng.choice([1, 1, 2, 3, 4, 6])
        slits = _random_slits(rng, K2, n)
        rng.shuffle(slits)
        radius = rng.choice([None, 0.5, 0.35])
        R = 1.0 if radius is None else radius
        hk = rng.randrange(3)
        heights = None if hk == 0 else round(R * rng.uniform(0.1, 0.6), 3) if hk == 1 else \
            [round(R * rng.uniform(0.1, 0.6), 3) for _ in range(n)]
        desc = {'K': K2, 'slits': slits, 'heights': heights, 'radius': radius}
        args = (K2, slits, heights, radius, rng.randrange(K2), rng.choice(['deg', 'rad']), rng.random() < 0.5)
        ev = guarded(desc, lambda: observe_svg(*args, image_size=rng.choice([400, 400, 300, 640])))
        if ev is not None:
            events.append(ev)
            info.append(desc)
        ctx.case(nontrivial_id=('svg-random', t))
    n_real = len(events)
    if events:
        import copy
        a, b = copy.deepcopy(events[0]), copy.deepcopy(next((e for e in events if len(e['slits']) >= 2), events[0]))
        a['marks'][0][2] = (a['marks'][0][2] + 1) % K2
        i = next(i for i, sg in enumerate(b['path']) if sg[0] == 'A')
        b['path'][i][2] = not b['path'][i][2]
        events += [a, b]
    for i, e in enumerate(events):
        e['tid'] = i
    tf = ctx.tmp / 'growth-svg-trace.ndjson'
    write_ndjson(tf, events)
    trace = par.start('trace-svg', 'chopper/Growth_Trace_ChopperSvg.tla', None, workers=1, env={'TRACE_FILE': str(tf)},
                      timeout=900)
    jobs.update(trace=trace, events=events, info=info, n_real=n_real)


def svg_part(ctx, par, jobs):
    trace, events, info, n_real = jobs['trace'], jobs['events'], jobs['info'], jobs['n_real']

    def guarded(desc, fn):
        return _svg_guarded(ctx, desc, fn)

    # ---- spec -> code: the cases TLC printed while checking the tracer
    res = par.join(jobs['model'])
    require_ok(ctx, res, 'Growth_ChopperSvg model')
    cases = res.tagged('SVGCASE')
    if len(cases) < 100:
        raise MachineryError(f'only {len(cases)} SVG cases exported')
    K = 8
    replayed = 0
    for idx, (_, slits, path, marks) in enumerate(cases):
        if not slits:
            continue
        n = len(slits)
        heights = [None, 0.2, [0.1 + 0.05 * i for i in range(n)]][idx % 3]
        desc = {'K': K, 'slits': slits, 'heights': heights}
        ev = guarded(desc, lambda: observe_svg(K, [tuple(x) for x in slits], heights, [0.5, None][idx % 2], idx % K,
                                               'deg', bool(idx % 2)))
        if ev is None:
            continue
        replayed += 1
        want_path, got_path = _norm_path(path, K), ev['path']
        # the large-arc flag of an exact half turn is decided by rounding (both flags draw the same arc)
        def key(p, prev):
            half = p[0] == 'A' and prev is not None and (p[1] - prev) % K == K // 2
            return p[:3] if half else p
        wp = [key(p, want_path[i - 1][1] if i else None) for i, p in enumerate(want_path)]
        gp = [key(p, got_path[i - 1][1] if i else None) for i, p in enumerate(got_path)]
        flags = all(ev[k] for k in ('ongrid', 'radii', 'sweep', 'tdc', 'beam'))
        if wp != gp:
            ctx.growth_finding(f'{PREFIX}: make_svg: disk outline differs from the specified trace of the slits',
                               {**desc, 'got': got_path, 'expected': want_path})
        elif sorted(map(tuple, ev['marks'])) != sorted(tuple(m) for m in marks):
            ctx.growth_finding(f'{PREFIX}: make_svg: edge marks are not at slit_begin / slit_end of the labelled slit',
                               {**desc, 'got': ev['marks'], 'expected': marks})
        elif not flags:
            bad = [k for k in ('ongrid', 'radii', 'sweep', 'tdc', 'beam') if not ev[k]]
            ctx.growth_finding(f'{PREFIX}: make_svg: drawing geometry wrong ({",".join(bad)})', {**desc, 'event': ev})
        ctx.case(nontrivial_id=('svg-enum', idx))
    ctx.extra['growth_svg_cases_replayed'] = replayed
    # ---- verdicts
    tr = par.join(trace)
    require_ok(ctx, tr, 'Growth_Trace_ChopperSvg')
    done = tr.tagged('DONE')
    if not done or done[0][1] != len(events):
        raise MachineryError(f'svg trace validation incomplete: {done} vs {len(events)} events')
    ctx.traces(n_real)
    ctx.extra['growth_svg_random_events'] = n_real
    rejected = set()
    for _, line, _tid, clause in tr.tagged('REJECT'):
        rejected.add(line)
        if line > n_real:
            continue
        if clause.startswith('driver_error') or clause == 'unknown_event':
            raise MachineryError(f'bad svg event {events[line - 1]}: {clause}')
        ctx.growth_finding(f'{PREFIX}: make_svg (random chopper): {clause}', {'event': events[line - 1], **info[line - 1]})
    missing = [i for i in range(n_real + 1, len(events) + 1) if i not in rejected]
    if missing or len(events) == n_real:
        raise MachineryError(f'growth svg trace specification is not sensitive: corrupted events {missing} were accepted')


# ============================================================================ entry point
def run(ctx):
    check_constants()
    t0 = time.time()
    ctx.assume('growth/chopper: slit angles of the NeXus groups are given in degrees on a tick lattice (1/8 or 1/360 turn), '
               'slits of zero or full-turn width and begin angles outside the first turn get no verdict')
    ctx.assume('growth/chopper: cascade frames in which a window exactly touches the frame (zero-area subframe in the '
               'model) are compared on the neutron level only')
    par = Par(ctx)
    try:
        j1 = nexus_start(ctx, par)
        j2 = bounds_start(ctx, par)
        j3 = svg_start(ctx, par)
        # code -> spec: drive the real API with random inputs while TLC checks the models, hand the records to the judges
        nexus_random(ctx, par, j1)
        bounds_random(ctx, par, j2)
        svg_random(ctx, par, j3)
        # spec -> code: replay what TLC enumerated; then collect the verdicts
        nexus_part(ctx, par, j1)
        svg_part(ctx, par, j3)
        bounds_part(ctx, par, j2)
    finally:
        par.join_all()          # never leave a TLC process behind; negative controls must have been rejected
    ctx.extra['growth_chopper_wall_s'] = round(time.time() - t0, 1)
