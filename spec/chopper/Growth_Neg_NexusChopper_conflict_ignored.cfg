SPECIFICATION Spec
CONSTANTS
  KTicks = 8
  TableLists <- TableQ
  TableDev = 1
  GeoLists <- GeoQ
  GeoDev = 0
  Bug = "conflict_ignored"
INVARIANT Admitted
CHECK_DEADLOCK FALSE
