INIT Init
NEXT Next
CONSTANTS
  Bug = "none"
