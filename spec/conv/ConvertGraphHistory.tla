------------------------ MODULE ConvertGraphHistory ------------------------
(* conversion_graph / deduce_conversion_graph over the lifetime of a process: a sequence of  *)
(* requests against module-level state.                                                      *)
(*                                                                                          *)
(*   tables  - the module-level graph tables (anchors of C02: "kernel wiring per origin /    *)
(*             scatter mode; copied on every request")                                       *)
(*   kept    - whatever else survives a request (assembled graphs kept for reuse); empty in  *)
(*             the documented behaviour, it exists for the negative controls                 *)
(*   handed  - the dict the last caller holds; a hostile caller clears it (Clear)            *)
(*                                                                                          *)
(* Property (C02: "the conversion graph reported for the same arguments is the one that is   *)
(* used" - the arguments are origin, target, scatter, mode, nothing else): the answer to a    *)
(* request is a function of its arguments, whatever was requested or done to earlier answers. *)
(* The driver binds this by requesting the complete argument space three times in different  *)
(* orders (clearing every answer) and by replaying a sample of its convert() cases at the    *)
(* end of the run in another order; Trace_ConvertGraph judges every one of these answers.    *)
EXTENDS ConvertGraphDefs, TLC

CONSTANTS Reqs,      \* set of requests [o, t, s, mode]
          MaxLen,    \* number of requests per behaviour
          Bug        \* "none" | "kept_graph_forgets_target" | "table_handed_out"

VARIABLES tables, kept, handed, n, last
hvars == <<tables, kept, handed, n, last>>

Fresh == [ tag \in GraphTags |-> Rules(tag) ]
NoReq == [o |-> "none", t |-> "none", s |-> FALSE, mode |-> "none"]

HInit == /\ tables = Fresh /\ kept = [ k \in {} |-> "" ]
         /\ handed = [tag |-> "none", shared |-> FALSE]
         /\ n = 0 /\ last = [req |-> NoReq, rules |-> {}]

(* which table a request is answered from *)
KeyOf(r) == <<r.o, r.s, r.mode>>          \* the key of the negative control: the target is missing
TagUsed(r) ==
    IF Bug = "kept_graph_forgets_target" /\ KeyOf(r) \in DOMAIN kept THEN kept[KeyOf(r)]
    ELSE GraphTagFor(r.o, r.t, r.s, r.mode)

Request(r) ==
    /\ n < MaxLen
    /\ LET tag == TagUsed(r) IN
       /\ last' = [req |-> r, rules |-> tables[tag]]
       /\ handed' = [tag |-> tag, shared |-> (Bug = "table_handed_out")]
       /\ kept' = IF Bug = "kept_graph_forgets_target"
                  THEN [ k \in DOMAIN kept \cup {KeyOf(r)} |-> IF k = KeyOf(r) THEN tag ELSE kept[k] ]
                  ELSE kept
    /\ n' = n + 1
    /\ UNCHANGED tables

(* the caller empties the dict it was handed; harmless iff that dict is a private copy *)
Clear ==
    /\ handed.tag # "none"
    /\ tables' = IF handed.shared THEN [tables EXCEPT ![handed.tag] = {}] ELSE tables
    /\ handed' = [tag |-> "none", shared |-> FALSE]
    /\ UNCHANGED <<kept, n, last>>

HDone == n = MaxLen /\ UNCHANGED hvars

HNext == (\E r \in Reqs : Request(r)) \/ Clear \/ HDone
HSpec == HInit /\ [][HNext]_hvars

AnswerIsAFunctionOfTheArguments ==
    n > 0 => last.rules = Rules(GraphTagFor(last.req.o, last.req.t, last.req.s, last.req.mode))
TablesIntact == tables = Fresh
=============================================================================
