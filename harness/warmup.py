"""Hostile history: before a check judges anything, the library is used once in an unusual way.

Every listed property quantifies over inputs / configurations / programs - none over "what the process
did before".  A correct implementation therefore gives the same answers whatever was called earlier, so
running other calls first can never make a check alarm on code where its property holds.  It does expose
state kept between calls: converted constants, node tables or graphs cached under a key that forgets the
dtype / unit / target of the first caller, module-level tables mutated in place, memoised lookups.  The
warm-up deliberately makes the *first* use of every registered public entry point (registry of C09,
harness/lib_purity.py) a single-precision / integer / odd-unit one, repeats it, and also performs the
table lookups and graph constructions in an unusual order.  Exceptions are ignored (they are C09's
business); nothing is judged here.
"""
from __future__ import annotations

import random
import time


def hostile_history(seed: int = 0, budget_s: float = 6.0) -> dict:
    t0 = time.time()
    rng = random.Random(seed + 77)
    n_calls = n_exc = 0
    try:
        from . import lib_purity as L

        calls = L.make_calls()
        rng.shuffle(calls)
        for call in calls:
            if time.time() - t0 > budget_s:
                break
            names = list(call.slots)
            # prefer the *last* candidates of every slot first (float32 / int64 / secondary units / binned), then
            # a random one, then the first (canonical) one: the canonical variant never comes first
            picks = []
            lists = [call.slots[n] for n in names]
            picks.append([lst[-1] for lst in lists])
            picks.append([rng.choice(lst) for lst in lists])
            picks.append([lst[len(lst) // 2] for lst in lists])
            picks.append([lst[0] for lst in lists])
            for combo in picks:
                for _ in range(2):                  # the second call of the same kind reuses whatever was kept
                    try:
                        args = [c[3]() for c in combo]
                        if call.positional:
                            call.fn(*args, **call.extra)
                        else:
                            call.fn(**dict(zip(names, args, strict=True)), **call.extra)
                    except Exception:  # noqa: BLE001
                        n_exc += 1
                    n_calls += 1
        # lookups / factories in an unusual order, results mutated where the object allows it
        for p in L.make_providers():
            for k in reversed(p.keys):
                try:
                    obj = p.lookup(k)
                    for m in p.mutators.values():
                        try:
                            m(obj)
                        except Exception:  # noqa: BLE001
                            pass
                    p.lookup(k)
                except Exception:  # noqa: BLE001
                    n_exc += 1
                n_calls += 1
    except Exception:  # noqa: BLE001
        pass
    return {'calls': n_calls, 'exceptions_ignored': n_exc, 'wall_s': round(time.time() - t0, 2)}
