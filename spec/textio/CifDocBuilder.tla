--------------------------- MODULE CifDocBuilder ---------------------------
(* The high-level builder cif.CIF as a state machine: with_authors, with_reducers,       *)
(* with_beamline, with_reduced_powder_data, with_powder_calibration extend the builder  *)
(* (copy changes nothing), save assembles the document SaveDoc.  After every call the    *)
(* document that save would produce is written by the reference writer and read back:   *)
(* it must be valid CIF 1.1, equal to what was supplied, every author-role id must be    *)
(* the id of exactly one author, and no author may be lost or merged.                   *)
EXTENDS CifDocDefs

CONSTANTS MaxCalls,
          Bug        \* "none" | "dupid" (negative control: every author gets the same id)

VARIABLE calls
vars == <<calls>>

Person(n, e, a, r, corr) == [name |-> SCell(<<n>>), email |-> OptCell(e), address |-> OptCell(a), orcid |-> MCell,
                             role |-> OptCell(r), corr |-> corr]
P1 == Person(65, <<>>, <<>>, <<114, 32, 49>>, TRUE)       \* contact, role "r 1"
P2 == Person(66, <<101, 64, 120>>, <<>>, <<>>, TRUE)       \* contact, email, no role
P3 == Person(67, <<>>, <<>>, <<115>>, FALSE)               \* author, role "s"
P4 == Person(68, <<>>, <<97, 10, 98>>, <<>>, FALSE)        \* author, two-line address, no role
AuthorCalls == { <<P1>>, <<P2>>, <<P3>>, <<P4>>, <<P1, P3>>, <<P3, P1>>, <<P2, P4>>, <<P3, P3>>, <<P4, P1>>, <<P1, P2>> }

NCell(s) == [t |-> "n", s |-> s, ok |-> TRUE]
One == <<49>>   Half == <<48, 46, 53>>
Calls ==
    { [op |-> "authors", people |-> p] : p \in AuthorCalls }
    \cup { [op |-> "reducers", items |-> r] : r \in { <<SCell(<<112, 32, 49>>)>>, <<SCell(<<112>>), SCell(<<113, 10, 59>>)>> } }
    \cup { [op |-> "beamline", name |-> SCell(<<98>>), facility |-> SCell(<<70, 32, 73>>), hasfac |-> h, source |-> s] :
             h \in BOOLEAN, s \in {"none", "synchrotron"} }
    \cup { [op |-> "data", coord |-> "tof", yname |-> "intensity_norm", cvar |-> FALSE, yvar |-> yv, n |-> 2,
            cells |-> IF yv THEN <<NCell(One), NCell(Half), NCell(Half), NCell(One), NCell(One), NCell(Half)>>
                      ELSE <<NCell(One), NCell(Half), NCell(Half), NCell(One)>>] : yv \in BOOLEAN }
    \cup { [op |-> "calib", hasvar |-> FALSE, cells |-> <<XCell, NCell(One), NCell(Half)>>] }
    \cup { [op |-> "copy"] }
    \cup { [op |-> "rename", name |-> <<111>>] }

Init == calls = <<>>
Call(c) == /\ Len(calls) < MaxCalls
           /\ calls' = Append(calls, c)
Next == \E c \in Calls : Call(c)
Spec == Init /\ [][Next]_vars

-----------------------------------------------------------------------------
Name == <<110>>
Expected == SaveDoc(Name, calls)

(* the block carries the name given last (constructor or name setter) *)
LastName == LET rn == SelectSeq(calls, LAMBDA c : c.op = "rename") IN IF rn = <<>> THEN Name ELSE rn[Len(rn)].name
NameIsLastGiven == Expected[1].name = LastName

(* a concrete document with the supplied content: ids i<k>, dates "x", missing ''       *)
Concrete(cell) ==
    CASE cell.t = "i" -> <<105>> \o Digits(IF Bug = "dupid" THEN 1 ELSE cell.s[1])
      [] cell.t = "x" -> <<120>>
      [] cell.t = "m" -> <<>>
      [] OTHER -> cell.s
ConcreteDoc(blocks) ==
    [b \in 1..Len(blocks) |->
       [name |-> blocks[b].name,
        items |-> [j \in 1..Len(blocks[b].items) |->
                     [k |-> blocks[b].items[j].k, tags |-> blocks[b].items[j].tags,
                      vals |-> [c \in 1..Len(blocks[b].items[j].vals) |-> Concrete(blocks[b].items[j].vals[c])]]]]]

SavedReadsBack ==
    LET exp == Expected IN
    HasUnrepresentable(exp) \/ DocVerdict(exp, Read(WriteDoc(ConcreteDoc(exp)))) = <<"ok", 0, 0, 0>>

(* structural facts about the assembled document itself *)
Cells(doc) == FlattenSeq([j \in 1..Len(doc[1].items) |-> doc[1].items[j].vals])
NameTags == {Tg.contact_name, Tg.author_name}
IdTags == {Tg.contact_id, Tg.author_id}
ColumnCells(doc, tagset) ==
    FlattenSeq([j \in 1..Len(doc[1].items) |->
        LET it == doc[1].items[j]  nt == Len(it.tags)
            ps == { q \in 1..nt : it.tags[q] \in tagset }
        IN IF ps = {} THEN <<>>
           ELSE LET q == MinOf(ps) IN [r \in 1..(Len(it.vals) \div nt) |-> it.vals[(r - 1) * nt + q]]])

AllCalls(op) == SelectSeq(calls, LAMBDA c : c.op = op)
NAuthors == LET a == AllCalls("authors") IN Len(FlattenSeq([i \in 1..Len(a) |-> a[i].people]))

NoAuthorLostOrMerged == Len(ColumnCells(Expected, NameTags)) = NAuthors

EveryRoleHasOneAuthor ==
    LET ids == ColumnCells(Expected, IdTags)
        roles == ColumnCells(Expected, {Tg.role_id})
    IN /\ \A r \in 1..Len(roles) : Cardinality({ i \in 1..Len(ids) : ids[i].s = roles[r].s }) = 1
       /\ \A i, j \in 1..Len(ids) : i # j => ids[i].s # ids[j].s

(* added content keeps the order of the calls and comes last *)
ContentInCallOrder ==
    LET content == SelectSeq(calls, LAMBDA c : c.op \in {"data", "calib"})
        loops == SelectSeq(Expected[1].items, LAMBDA it : it.k = "loop" /\ it.tags[1] \in {Tg.point_id, Tg.calib_id})
    IN /\ Len(content) = Len(loops)
       /\ \A i \in 1..Len(loops) : (content[i].op = "data") <=> (loops[i].tags[1] = Tg.point_id)

TypeOK == Len(calls) <= MaxCalls
=============================================================================
