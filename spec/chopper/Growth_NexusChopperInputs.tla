--------------------- MODULE Growth_NexusChopperInputs ---------------------
(* The bounded input space of the NeXus-chopper model: every group that differs from a      *)
(* well-formed baseline group in at most k fields (a Hamming ball around the baseline), for   *)
(* every list of slit angles of a family.  All single deviations are the rows of the decision *)
(* table, pairs and triples exercise the interplay of the rows.  Two families:                *)
(*   TABLE     few representative angle lists, any field may deviate, radius TableDev          *)
(*   GEOMETRY  many angle lists (all short sequences of slits), only the slit-related fields  *)
(*             (keys, shape, height) deviate, radius GeoDev                                   *)
EXTENDS Growth_NexusChopperDefs

CONSTANTS KTicks,      \* ticks per turn
          TableLists,  \* set of interleaved angle lists (Seq(Int))
          TableDev,    \* radius of the ball around each of them
          GeoLists, GeoDev

Baseline(vals) ==
    [ type |-> "single", position |-> "vector", rotation_speed |-> "scalar", beam_position |-> "scalar",
      phase |-> "scalar", unit |-> "Hz", keys |-> {"slit_edges"}, shape |-> "1d", vals |-> vals,
      height |-> "absent", hvals |-> <<>>, radius |-> "scalar", tdc |-> "absent", extra |-> FALSE,
      K |-> KTicks ]

HeightAlternatives(n) ==
    LET H(m) == [ i \in 1..m |-> 10 + i ]
    IN { <<"typo", <<>> >>, <<"none", <<>> >>, <<"scalar", <<7>> >>, <<"array", H(n)>>, <<"array", H(n + 1)>>,
         <<"other_dim", H(n)>> }
       \cup (IF n >= 1 THEN { <<"array", H(n - 1)>> } ELSE {})
SlitCounts == { Len(vals) \div 2 : vals \in TableLists \cup GeoLists }

Alternatives(f) ==
    CASE f = "type"     -> Types \ {"single"}
      [] f = "position" -> {"absent", "typo"}
      [] f \in ScalarFields -> Forms \ {"scalar"}
      [] f = "unit"     -> (FreqUnits \cup OtherUnits) \ {"Hz"}
      [] f = "keys"     -> (SUBSET SlitKeys) \ {{"slit_edges"}}
      [] f = "shape"    -> {"0d", "2d"}
      [] f = "height"   -> UNION { HeightAlternatives(n) : n \in SlitCounts }
      [] f = "radius"   -> {"absent", "none"}
      [] f = "tdc"      -> {"array", "log_time_only"}
      [] f = "extra"    -> {TRUE}

AllFields == {"type", "position", "unit", "keys", "shape", "height", "radius", "tdc", "extra"} \cup ScalarFields
GeoFields == {"keys", "shape", "height"}

ApplyDev(g, f, v) == IF f = "height" THEN [g EXCEPT !.height = v[1], !.hvals = v[2]]
                     ELSE [g EXCEPT ![f] = v]

DevPairs(fields) == UNION { { <<f, v>> : v \in Alternatives(f) } : f \in fields }
Fits(g, p) == p[1] = "height" => p[2] \in HeightAlternatives(Len(g.vals) \div 2)

(* <<group, touched fields>> for all groups within k deviations of a baseline                 *)
(* (written without UNION over many sets, which TLC merges in quadratic time)                 *)
RECURSIVE Ball(_, _, _)
Ball(k, lists, fields) ==
    IF k = 0 THEN { << Baseline(vals), {} >> : vals \in lists }
    ELSE LET B == Ball(k - 1, lists, fields)
             rim == { c \in B : Cardinality(c[2]) = k - 1 }
         IN B \cup { << ApplyDev(q[1][1], q[2][1], q[2][2]), q[1][2] \cup {q[2][1]} >> :
                       q \in { x \in rim \X DevPairs(fields) : x[2][1] \notin x[1][2] /\ Fits(x[1][1], x[2]) } }

TableInputs == { c[1] : c \in Ball(TableDev, TableLists, AllFields) }
GeoInputs   == { c[1] : c \in Ball(GeoDev, GeoLists, GeoFields) }
Inputs      == TableInputs \cup GeoInputs

(* ---- families of angle lists for K = 8 (ticks of 45 degrees)                               *)
RECURSIVE SeqsOver(_, _)
SeqsOver(S, n) == IF n = 0 THEN { <<>> }
                  ELSE LET P == SeqsOver(S, n - 1)
                       IN P \cup { s \o a : s \in { x \in P : Len(x) = 2 * (n - 1) }, a \in S }
(* slits that are disjoint, touch, overlap, overlap across top-dead-centre, or are reversed   *)
SlitsSmall == { <<0, 2>>, <<2, 6>>, <<3, 6>>, <<6, 9>>, <<0, 6>>, <<6, 2>> }
SlitsLarge == SlitsSmall \cup { <<4, 5>>, <<7, 9>> }
OddLists   == { <<0, 2, 3>>, <<5>>, <<0, 1, 2, 3, 4, 5, 6>> }
Unspecified == { <<0, 0>>, <<0, 8>>, <<9, 10>> }     \* zero width, full turn, begin beyond the first turn
=============================================================================
