SPECIFICATION ESpec
CONSTANTS
  Pulses <- MC_Pulses
  Choppers <- MC_Choppers
  MaxChops = 3
  L = 12
  Stride = 997
  Deltas <- MC_Deltas
