"""C16 — peak and background models satisfy their analytic definitions.

Spec: spec/peaks/PeakModelsDefs.tla (names, routing, polynomial, Lorentzian, units), PeakModels.tla (state
machines names / horner / lorentz / units with negative controls), Gen_PeakModels.tla (enumeration of the
cases replayed), Trace_PeakModels.tla (judge of the recorded observations).

Decided by TLC on the model (exhaustive within the bounds): the parameter-name algebra for every model
expression over all prefix strings of a 3-letter alphabet (including the empty prefix and prefixes that are
prefixes of / equal to parameter names): names are prefix + base, injective; a composite's parameters are the
disjoint union of its parts', overlapping parts are refused and leave the expression unchanged; a call is
accepted iff the keys are exactly the names (missing / unknown / otherwise-prefixed / unprefixed refused);
stripping the prefix by length routes every supplied value to exactly the leaf parameter it is declared
for; a prefix is a pure renaming.  Horner evaluation = sum a_i x^i over the integers.  The Lorentzian as
an exact rational multiple of 1/pi: symmetric, half of the peak value exactly at loc +/- FWHM/2 with
FWHM = 2*scale, strictly decreasing (so that this is the full width), sign of the amplitude; the Gaussian
part in units of its half width is 2^(-t^2).  Unit algebra: canonical parameter units give the data unit,
one parameter in another unit is refused or changes the result unit.

Decided numerically only (DESIGN §6): point values, symmetry, half maximum and normalisation of
Gaussian / Lorentzian / pseudo-Voigt.  The closed forms of harness/lib_peaks.py (written from the model
docstrings) are evaluated by mpmath (60 digits) at the TLC-enumerated parameter grid (amplitudes of both
signs, scales 1e-6..1e6, locations, fractions 0..1) and compared with the floats the real models return;
the integral is a 24-point Gauss-Legendre quadrature of the *implementation's* values over
loc +/- 2^20 scale on geometrically growing panels plus the analytic Lorentzian tail.  Tolerances:
point values 1e-13 relative (plus (4q+16) eps for Gaussian exponents q, the conditioning of exp); symmetry
4 eps at exactly representable mirror points; half maximum 1e-13 + conditioning of the rounding of
loc +/- FWHM/2; integral 1e-8 |amplitude| (plus the same conditioning term).  The boolean outcomes go
into `flags` events.  The pseudo-Voigt's FWHM is exact by construction (the Gaussian part is rescaled to
the Lorentzian's FWHM, docstring), so the half-maximum claim is checked at full strength for it too.

Conformance: spec -> code: every enumerated model expression (sampled in the quick tier) is built in the
real library along two routes (left + right then with_prefix, or CompositeModel(prefix=...)), its
param_names, the acceptance of the probe key sets, guess() / param_bounds keys are recorded; composites are
compared bitwise with left + right and numerically with the declared routing, prefixed models bitwise with
the unprefixed ones; integer polynomials of degree 1..6 are evaluated with int64 and float64 data and
compared exactly; the canonical unit cases and random perturbations are evaluated.  code -> spec: random
deeper expressions (up to 5 leaves, arbitrary prefix strings incl. non-ASCII).  TLC (Trace_PeakModels)
judges every event.  Any exception counts as refusal (the property names no class).
"""

from __future__ import annotations

import json
import math
import os
from fractions import Fraction

import mpmath
import numpy as np
import scipp as sc

from .. import lib_peaks as lp
from ..core import MachineryError
from ..tlc import require_ok, write_ndjson

RULE = ('model expressions: leaves x prefixes over {a,0,_} up to length 2, composites of two leaves (enumerated by '
        'TLC) and random expressions up to 5 leaves with arbitrary prefixes; non-trivial = composite or non-empty '
        'prefix. numeric grid: amplitudes {-3,-1,2,7} x scales 10^-6..10^6 x locations {-5,0,3,1000} x fractions k/4; '
        'every grid point is non-trivial. polynomials: integer coefficients/points, degree 1..6')
WORKERS = int(os.environ.get('VERIF_WORKERS', '16'))
EPS = 2.0 ** -52
KIND_CLASS = {'poly': 'PolynomialModel', 'gauss': 'GaussianModel', 'lorentz': 'LorentzianModel',
              'pvoigt': 'PseudoVoigtModel'}
KIND_LP = {'gauss': 'gaussian', 'lorentz': 'lorentzian', 'pvoigt': 'pseudo_voigt'}
BASE = {'gauss': ('amplitude', 'loc', 'scale'), 'lorentz': ('amplitude', 'loc', 'scale'),
        'pvoigt': ('amplitude', 'loc', 'scale', 'fraction')}


# --------------------------------------------------------------------------------- letters <-> strings
def tok(ch: str) -> str:
    return ch if (33 <= ord(ch) < 127 and ch not in '"\\') else f'U+{ord(ch):X}'


def toks(s: str):
    return [tok(c) for c in s]


def untok(seq) -> str:
    return ''.join(chr(int(t[2:], 16)) if t.startswith('U+') and len(t) > 2 else t for t in seq)


# --------------------------------------------------------------------------------- expressions
def leaf_base(e):
    if e['kind'] == 'poly':
        return [f'a{i}' for i in range(e['deg'] + 1)]
    return list(BASE[e['kind']])


def names_of(e):
    """Input construction only (the verdict about names comes from Trace_PeakModels)."""
    p = untok(e['prefix'])
    if e['kind'] == 'comp':
        return [p + n for n in names_of(e['left']) + names_of(e['right'])]
    return [p + n for n in leaf_base(e)]


def leaves_of(e, path=''):
    """[(leaf expr, full prefix)] left to right: declared routing."""
    p = path + untok(e['prefix'])
    if e['kind'] == 'comp':
        return leaves_of(e['left'], p) + leaves_of(e['right'], p)
    return [(e, p)]


def build(e, route=0):
    """Real model for an expression; raises whatever the library raises."""
    from scippneutron.peaks import model as M

    p = untok(e['prefix'])
    if e['kind'] == 'comp':
        left, right = build(e['left'], route), build(e['right'], route)
        if route % 2 == 0:
            m = left + right
            return m.with_prefix(p) if (p or route % 4 == 2) else m
        return M.CompositeModel(left, right, prefix=p)
    if e['kind'] == 'poly':
        if route % 2:
            return M.PolynomialModel(degree=e['deg']).with_prefix(p)
        return M.PolynomialModel(degree=e['deg'], prefix=p)
    cls = getattr(M, KIND_CLASS[e['kind']])
    return cls().with_prefix(p) if route % 2 else cls(prefix=p)


def param_values(e, rng):
    """Distinct, well-conditioned dimensionless parameter values for every declared key."""
    vals = {}
    for leaf, pre in leaves_of(e):
        if leaf['kind'] == 'poly':
            for i in range(leaf['deg'] + 1):
                vals[pre + f'a{i}'] = rng.choice([-1, 1]) * rng.randrange(1, 64) / 8.0
        else:
            vals[pre + 'amplitude'] = rng.choice([-1, 1]) * rng.randrange(1, 64) / 4.0
            vals[pre + 'loc'] = rng.randrange(-16, 16) / 4.0
            vals[pre + 'scale'] = rng.randrange(1, 32) / 8.0
            if leaf['kind'] == 'pvoigt':
                vals[pre + 'fraction'] = rng.randrange(0, 9) / 8.0
    return vals


def declared_value(e, vals, x):
    out = np.zeros_like(x)
    for leaf, pre in leaves_of(e):
        if leaf['kind'] == 'poly':
            out = out + lp.np_poly(x, [vals[pre + f'a{i}'] for i in range(leaf['deg'] + 1)])
        else:
            out = out + lp.np_peak(KIND_LP[leaf['kind']], x, {b: vals[pre + b] for b in BASE[leaf['kind']]})
    return out


def _scal(d):
    return {k: sc.scalar(float(v)) for k, v in d.items()}


X0 = sc.array(dims=['x'], values=np.array([-2.0, -0.75, 0.0, 0.5, 1.25, 3.0]))


# --------------------------------------------------------------------------------- name / call events
def model_events(ctx, events, e, idx, probes='all', rng=None):
    """Build the real model for expression e, record names / call / aux / equality observations."""
    rng = rng or ctx.rng
    ev = {'ev': 'names', 'tid': 0, 'model': e, 'out': 'ok', 'names': []}
    try:
        m = build(e, idx)
    except Exception as exc:  # noqa: BLE001
        ev['out'] = 'refused'
        ev['exc'] = type(exc).__name__
        events.append(ev)
        ctx.case(nontrivial_id=('n', json.dumps(e)))
        return None
    try:
        ev['names'] = [toks(n) for n in sorted(m.param_names)]
    except Exception as exc:  # noqa: BLE001
        ctx.violation(f'param_names raised {type(exc).__name__}', {'model': e})
        return None
    events.append(ev)
    ctx.case(nontrivial_id=('n', json.dumps(e)) if (e['kind'] == 'comp' or e['prefix']) else None)
    want = names_of(e)
    if len(set(want)) != len(want):
        return m          # overlapping names: the names event is judged (must have been refused); nothing else to do
    vals = param_values(e, rng)
    base = [n[len(untok(e['prefix'])):] for n in want]
    key_sets = [list(want)]
    if probes != 'exact':
        k = rng.randrange(len(want))
        key_sets.append(want[:k] + want[k + 1:])                                    # one missing
        key_sets.append(want + [rng.choice(['x', 'a', 'a7', 'loc_', 'amplitud', 'Scale'])])   # one unknown
        key_sets.append(base)                                                       # unprefixed
        key_sets.append([rng.choice(['a', '0', '_', 'a0', 'p_', 'q']) + b for b in base])   # other prefix
        key_sets.append([want[0] + 'x'] + want[1:])                                 # one renamed
        if probes == 'all':
            key_sets.append([])
            key_sets.append(want[:1])
            key_sets.append([b + untok(e['prefix']) for b in base])                 # prefix used as a suffix
    for ks in key_sets:
        if len(set(ks)) != len(ks):
            continue
        args = {k: sc.scalar(float(vals.get(k, 1.0))) for k in ks}
        cev = {'ev': 'call', 'tid': 0, 'model': e, 'keys': [toks(k) for k in ks], 'out': 'ok'}
        try:
            res = m(X0, **args)
            if ks == want:
                got = res.values
                ref = declared_value(e, vals, X0.values)
                scale = sum(abs(v) for v in vals.values()) + 1.0
                fl = [['value_is_not_the_sum_of_the_parts_with_declared_routing',
                       bool(np.all(np.abs(got - ref) <= 1e-12 * (np.abs(ref) + scale)))]]
                if e['kind'] == 'comp':
                    left, right = build(e['left'], idx), build(e['right'], idx)
                    p = untok(e['prefix'])
                    la = {n: args[p + n] for n in names_of(e['left'])}
                    ra = {n: args[p + n] for n in names_of(e['right'])}
                    parts = left(X0, **la) + right(X0, **ra)
                    fl.append(['composite_is_not_bitwise_left_plus_right', bool(np.array_equal(parts.values, got)
                                                                                and parts.unit == res.unit)])
                # prefix independence: same model under other prefixes, same values under renamed keys
                for q in ('', 'a', 'a0_', 'é '):
                    m2 = m.with_prefix(q)
                    r2 = m2(X0, **{q + b: args[w] for b, w in zip(base, want, strict=True)})
                    fl.append(['result_depends_on_prefix', bool(np.array_equal(r2.values, got) and r2.unit == res.unit)])
                    if not sorted(m2.param_names) == sorted(q + b for b in base):
                        fl.append(['with_prefix_names_differ', False])
                fl.append(['with_prefix_changed_the_original', bool(sorted(m.param_names) == sorted(want))])
                events.append({'ev': 'flags', 'tid': 0, 'what': 'routing', 'model': e, 'out': 'ok', 'flags': fl})
                ctx.case()
        except Exception as exc:  # noqa: BLE001
            cev['out'] = 'refused'
            cev['exc'] = type(exc).__name__
        events.append(cev)
        ctx.case()
    return m


def aux_event(ctx, events, e, m, data):
    """guess() and param_bounds: keys are the parameter names; values do not depend on the prefix."""
    p = untok(e['prefix'])
    ev = {'ev': 'aux', 'tid': 0, 'model': e, 'guess_keys': [], 'bounds_keys': [], 'guess_same': True,
          'bounds_same': True}
    try:
        g = m.guess(data)
        b = m.param_bounds
        m0 = m.with_prefix('')
        g0 = m0.guess(data)
        b0 = m0.param_bounds
    except Exception as exc:  # noqa: BLE001
        ctx.violation(f'guess/param_bounds raised {type(exc).__name__}', {'model': e, 'exc': repr(exc)[:200]})
        return
    ev['guess_keys'] = [toks(k) for k in sorted(g)]
    ev['bounds_keys'] = [toks(k) for k in sorted(b)]
    ev['guess_same'] = bool(set(g) == {p + k for k in g0} and all(sc.identical(g[p + k], v, equal_nan=True) for k, v in g0.items()
                                                                   if p + k in g))
    ev['bounds_same'] = bool(set(b) == {p + k for k in b0} and all(tuple(b[p + k]) == tuple(v) for k, v in b0.items()
                                                                    if p + k in b))
    events.append(ev)
    ctx.case()


# --------------------------------------------------------------------------------- polynomials
def poly_events(ctx, events):
    from scippneutron.peaks.model import PolynomialModel

    rng = ctx.rng
    vectors = []
    for deg in (1, 2):
        import itertools
        vectors += [list(c) for c in itertools.product(range(-2, 3), repeat=deg + 1)]
    for deg in range(1, 7):
        for _ in range(60 if ctx.thorough else 15):
            vectors.append([rng.randrange(-9, 10) for _ in range(deg + 1)])
        vectors.append([9] * (deg + 1))
        vectors.append([-9 if i % 2 else 9 for i in range(deg + 1)])
    xs = list(range(-8, 9))
    for k, coefs in enumerate(vectors):
        deg = len(coefs) - 1
        prefix = ('', 'a', 'bkg_', 'a0')[k % 4]
        for dtype in ('int64', 'float64'):
            ev = {'ev': 'poly', 'tid': 0, 'coefs': coefs, 'xs': xs, 'got': [], 'out': 'ok', 'dtype': dtype, 'prefix': prefix}
            try:
                m = PolynomialModel(degree=deg, prefix=prefix)
                x = sc.array(dims=['x'], values=np.array(xs, dtype=dtype), unit='m')
                params = {f'{prefix}a{i}': sc.scalar(np.array(c, dtype=dtype)[()], unit=sc.Unit('K') / sc.Unit('m') ** i)
                          for i, c in enumerate(coefs)}
                res = m(x, **params)
                vals = res.values
                if not all(float(v).is_integer() and abs(float(v)) < 2**31 for v in vals):
                    ev['out'] = 'not_integer'
                    ev['values'] = [float(v) for v in vals]
                else:
                    ev['got'] = [int(v) for v in vals]
                if res.unit != sc.Unit('K'):
                    ctx.violation('polynomial: result unit is not the unit of a0', {'coefs': coefs, 'unit': str(res.unit)})
            except Exception as exc:  # noqa: BLE001
                ev['out'] = 'refused'
                ev['exc'] = repr(exc)[:200]
            events.append(ev)
            ctx.case(nontrivial_id=('p', tuple(coefs), dtype))


# --------------------------------------------------------------------------------- units
def U(t):
    p, i, j = t
    u = sc.Unit('m') ** i * sc.Unit('s') ** j
    if p:
        u = u * sc.Unit(f'1e{p}')
    return u


def unit_to_triple(u):
    """scipp unit -> (p, i, j) by trial over the small range used here; None if not of that form."""
    for p in range(-12, 7):
        for i in range(-6, 7):
            for j in range(-6, 7):
                if u == U((p, i, j)):
                    return [p, i, j]
    return None


_UNIT_CACHE: dict = {}


def unit_triple_cached(u):
    key = repr(u)
    if key not in _UNIT_CACHE:
        _UNIT_CACHE[key] = unit_to_triple(u)
    return _UNIT_CACHE[key]


def unit_event(ctx, events, kind, pu, ux, idx):
    from scippneutron.peaks import model as M

    prefix = ('', 'u_', 'a')[idx % 3]
    if kind.startswith('poly'):
        deg = int(kind[4:])
        m = M.PolynomialModel(degree=deg, prefix=prefix)
        names = [f'a{i}' for i in range(deg + 1)]
        vals = [1.5, -0.5, 0.25, 2.0, 1.0, -1.0, 0.5][: deg + 1]
    else:
        m = getattr(M, KIND_CLASS[kind])(prefix=prefix)
        names = list(BASE[kind])
        vals = [2.0, 0.5, 1.25, 0.5][: len(names)]
    x = sc.array(dims=['x'], values=[0.0, 1.0, 2.5], unit=U(ux))
    params = {prefix + n: sc.scalar(v, unit=U(u)) for n, v, u in zip(names, vals, pu, strict=True)}
    ev = {'ev': 'unit', 'tid': 0, 'kind': kind, 'pu': [list(u) for u in pu], 'ux': list(ux), 'out': [0, 0, 0, 0]}
    try:
        res = m(x, **params)
        t = unit_triple_cached(res.unit)
        if t is None:
            ev['out'] = [1, 99, 99, 99]
            ev['unit'] = str(res.unit)
        else:
            ev['out'] = [1, *t]
    except Exception as exc:  # noqa: BLE001
        ev['exc'] = type(exc).__name__
    events.append(ev)
    return ev


def units_part(ctx, events, ucases):
    rng = ctx.rng
    if not ctx.thorough:
        ucases = rng.sample(ucases, 500)
    for k, c in enumerate(ucases):
        unit_event(ctx, events, c['kind'], [tuple(u) for u in c['pu']], tuple(c['ux']), k)
        ctx.case(nontrivial_id=('u', k))
    # perturbed and random assignments (code -> spec)
    kinds = ['poly1', 'poly2', 'poly3', 'poly4', 'poly5', 'poly6', 'gauss', 'lorentz', 'pvoigt']
    npar = {'gauss': 3, 'lorentz': 3, 'pvoigt': 4}

    def ru():
        return (rng.choice([0, 0, -3]), rng.randrange(-1, 2), rng.randrange(-1, 2))

    for k in range(4000 if ctx.thorough else 700):
        kind = rng.choice(kinds)
        n = npar.get(kind) or int(kind[4:]) + 1
        ux, uy = ru(), ru()
        # start from the canonical assignment, perturb 0..2 parameters
        if kind.startswith('poly'):
            pu = [(uy[0] - i * ux[0], uy[1] - i * ux[1], uy[2] - i * ux[2]) for i in range(n)]
        else:
            pu = [(uy[0] + ux[0], uy[1] + ux[1], uy[2] + ux[2]), ux, ux] + ([(0, 0, 0)] if n == 4 else [])
        for _ in range(rng.choice([0, 1, 1, 2])):
            pu[rng.randrange(n)] = ru()
        if any(abs(c) > 6 for u in pu for c in u[1:]) or any(abs(u[0]) > 12 for u in pu):
            continue
        unit_event(ctx, events, kind, pu, ux, k)
        ctx.case(nontrivial_id=('ur', k))
    # composite: the parts must agree
    from scippneutron.peaks import model as M

    for k in range(300 if ctx.thorough else 80):
        ux, ya, yb = ru(), ru(), ru()
        if rng.random() < 0.5:
            yb = ya
        comp = M.PolynomialModel(degree=1, prefix='b_') + M.GaussianModel(prefix='g_')
        x = sc.array(dims=['x'], values=[0.0, 1.0], unit=U(ux))
        params = {'b_a0': sc.scalar(1.0, unit=U(ya)), 'b_a1': sc.scalar(1.0, unit=U(ya) / U(ux)),
                  'g_amplitude': sc.scalar(1.0, unit=U(yb) * U(ux)), 'g_loc': sc.scalar(0.5, unit=U(ux)),
                  'g_scale': sc.scalar(1.0, unit=U(ux))}
        ev = {'ev': 'sum', 'tid': 0, 'a': [1, *ya], 'b': [1, *yb], 'out': [0, 0, 0, 0]}
        try:
            t = unit_triple_cached(comp(x, **params).unit)
            ev['out'] = [1, *(t or [99, 99, 99])]
        except Exception as exc:  # noqa: BLE001
            ev['exc'] = type(exc).__name__
        events.append(ev)
        ctx.case(nontrivial_id=('us', k))


# --------------------------------------------------------------------------------- closed forms
_GL_X, _GL_W = np.polynomial.legendre.leggauss(24)
_EDGES = np.concatenate([[0.0], 2.0 ** np.arange(-2, 21)])      # 0, 1/4, 1/2, 1, ..., 2^20  (units of scale)


def _quad_nodes():
    us, ws = [], []
    for a, b in zip(_EDGES[:-1], _EDGES[1:], strict=True):
        us.append(0.5 * (b - a) * _GL_X + 0.5 * (b + a))
        ws.append(0.5 * (b - a) * _GL_W)
    u, w = np.concatenate(us), np.concatenate(ws)
    return np.concatenate([-u[::-1], u]), np.concatenate([w[::-1], w])


_QU, _QW = _quad_nodes()


def numeric_event(ctx, events, kind, g, idx):
    from scippneutron.peaks import model as M

    mpmath.mp.dps = 60
    lpk = KIND_LP[kind]
    A, mu, s = float(g['A']), float(g['mu']), 10.0 ** g['e']
    f = g['f'] / 4.0
    prefix = ('', 'peak_', 'a', 'a0')[idx % 4]
    m = getattr(M, KIND_CLASS[kind])(prefix=prefix)
    xu, yu = ('angstrom', 'counts') if idx % 2 else ('us', 'K')
    params = {prefix + 'amplitude': sc.scalar(A, unit=sc.Unit(yu) * sc.Unit(xu)), prefix + 'loc': sc.scalar(mu, unit=xu),
              prefix + 'scale': sc.scalar(s, unit=xu)}
    if kind == 'pvoigt':
        params[prefix + 'fraction'] = sc.scalar(f)
    fr = f if kind == 'pvoigt' else None
    ev = {'ev': 'flags', 'tid': 0, 'what': 'closed_form', 'kind': kind, 'grid': g, 'out': 'ok', 'flags': []}

    def call(xv):
        return m(sc.array(dims=['x'], values=np.asarray(xv, dtype='float64'), unit=xu), **params)

    try:
        # ---- point values at the floats actually handed over
        ts = np.array([0.0, 0.25, -0.25, 0.5, -0.5, 1.0, -1.0, 2.0, -2.0, 5.0, -5.0])
        xs = mu + s * ts
        res = call(xs)
        got = res.values
        ok = res.unit == sc.Unit(yu)
        detail = []
        for xv, gv in zip(xs, got, strict=True):
            want = lp.mp_peak(lpk, xv, A, mu, s, fr)
            sg = s / math.sqrt(2 * lp.LN2) if kind == 'pvoigt' else s
            q = (xv - mu) ** 2 / (2 * sg * sg) if kind != 'lorentz' else 0.0
            tol = max(1e-13, (4 * q + 16) * EPS)
            err = float(abs((mpmath.mpf(float(gv)) - want) / want))
            if not (math.isfinite(float(gv)) and err <= tol):
                ok = False
                detail.append([float(xv), float(gv), float(want), err, tol])
        ev['flags'].append(['point_values_differ_from_closed_form', bool(ok)])
        if detail:
            ev['detail'] = detail
        # ---- symmetry at exactly representable mirror points
        ok = True
        for t in (0.3, 1.0, 2.7):
            d0 = s * t
            k2 = math.floor(math.log2(d0)) - 4
            d = math.ldexp(round(d0 / 2.0**k2), k2)
            xp, xm = mu + d, mu - d
            if Fraction(xp) != Fraction(mu) + Fraction(d) or Fraction(xm) != Fraction(mu) - Fraction(d):
                continue
            v = call([xp, xm]).values
            if not abs(v[0] - v[1]) <= 4 * EPS * abs(v[0]):
                ok = False
        ev['flags'].append(['not_symmetric_about_loc', bool(ok)])
        # ---- half maximum at loc +/- FWHM/2 with the FWHM the model reports
        fw = m.fwhm(params)
        ok = fw.unit == sc.Unit(xu)
        h = float(fw.value) / 2
        v = call([mu, mu + h, mu - h]).values
        for xv, hv in ((mu + h, v[1]), (mu - h, v[2])):
            cond = 1.39 * abs(xv) / s          # |f'/f| <= 1.39/scale at the half-maximum points
            tol = 1e-13 + 4 * EPS * cond + 20 * EPS
            if not abs(hv - v[0] / 2) <= tol * abs(v[0] / 2):
                ok = False
                ev['half_detail'] = [float(v[0]), float(hv), tol]
        # the reported FWHM against the closed form (informative part of the same clause)
        if not abs(float(fw.value) - float(lp.mp_fwhm(lpk, s))) <= 8 * EPS * float(fw.value):
            ok = False
        ev['flags'].append(['half_maximum_is_not_at_loc_plus_minus_reported_fwhm_half', bool(ok)])
        # ---- integral of the implementation's values + analytic Lorentzian tail
        vals = call(mu + s * _QU).values
        integral = float(np.sum(vals * _QW) * s)
        lor_frac = {'gauss': 0.0, 'lorentz': 1.0, 'pvoigt': f}[kind]
        tail = A * lor_frac * (2 / math.pi) * math.atan(1.0 / _EDGES[-1])
        tol = 1e-8 + 4 * EPS * 1.39 * abs(mu) / s
        okint = abs(integral + tail - A) <= tol * abs(A)
        ev['flags'].append(['integral_is_not_the_amplitude', bool(okint)])
        ev['integral_rel_err'] = abs(integral + tail - A) / abs(A)
    except Exception as exc:  # noqa: BLE001
        ev['out'] = 'refused'
        ev['exc'] = repr(exc)[:200]
    events.append(ev)
    ctx.case(nontrivial_id=('g', kind, json.dumps(g)))


# --------------------------------------------------------------------------------- random expressions
ALPHABET = ['a', '0', '_', 'p', 'peak_', 'bkg_', 'a0', 'am', 'loc', 'é', ' ', 'λ_', 'x1', 'scale', '.']


def random_expr(rng, n_leaves):
    def leaf():
        k = rng.choice(['poly', 'gauss', 'lorentz', 'pvoigt'])
        pre = ''.join(rng.choice(ALPHABET) for _ in range(rng.choice([0, 1, 1, 2])))
        return {'kind': k, 'deg': rng.randrange(1, 7) if k == 'poly' else 0, 'prefix': toks(pre)}

    if n_leaves == 1:
        return leaf()
    k = rng.randrange(1, n_leaves)
    pre = ''.join(rng.choice(ALPHABET) for _ in range(rng.choice([0, 0, 1])))
    return {'kind': 'comp', 'deg': 0, 'prefix': toks(pre), 'left': random_expr(rng, k), 'right': random_expr(rng, n_leaves - k)}


def well_formed_inner(e):
    """All proper sub-expressions are free of clashes (so that only the top composition can be refused)."""
    if e['kind'] != 'comp':
        return True
    for sub in (e['left'], e['right']):
        if not well_formed_inner(sub):
            return False
        n = names_of(sub)
        if len(set(n)) != len(n):
            return False
    return True


# --------------------------------------------------------------------------------- run
def run(ctx):
    import warnings

    warnings.simplefilter('ignore')     # numpy's RankWarning of polynomial guesses on few points is not a verdict
    ctx.rule = RULE
    ctx.assume('any exception raised by a model counts as refusal (the property names no exception class)')
    ctx.assume('normalisation, half maximum and symmetry of the transcendental closed forms are compared numerically '
               '(mpmath, 60 digits) at the enumerated grid; TLC decides the name/refusal/polynomial/Lorentzian/unit algebra')
    ctx.assume('units: powers of two base units and of ten; scipp performs no implicit conversion between m and mm')
    # ---- 1. design
    if ctx.thorough:
        res = ctx.tlc('peaks/MC_PeakModels.tla', 'MC_PeakModels_thorough.cfg', timeout=1500, workers=WORKERS)
        require_ok(ctx, res, 'PeakModels model (thorough)')
        res = ctx.tlc('peaks/MC_PeakModels.tla', 'MC_PeakModels_deep.cfg', timeout=1500, workers=WORKERS)
        require_ok(ctx, res, 'PeakModels model (3 leaves)')
    else:
        res = ctx.tlc('peaks/MC_PeakModels.tla', 'MC_PeakModels.cfg', timeout=600, workers=WORKERS)
        require_ok(ctx, res, 'PeakModels model')
    for neg in ('clash', 'subset', 'horner', 'fwhm'):
        ctx.tlc('peaks/MC_PeakModels.tla', f'Neg_PeakModels_{neg}.cfg', expect_error=True, timeout=300,
                workers=min(WORKERS, 4))
    # ---- 2. enumerated cases
    mf, gf, uf = ctx.tmp / 'models.ndjson', ctx.tmp / 'grid.ndjson', ctx.tmp / 'units.ndjson'
    gen = ctx.tlc('peaks/Gen_PeakModels.tla', workers=1, timeout=600, count=False,
                  env={'MODEL_FILE': str(mf), 'GRID_FILE': str(gf), 'UNIT_FILE': str(uf)})
    require_ok(ctx, gen, 'Gen_PeakModels')

    def load(p):
        return [json.loads(line) for line in p.read_text().splitlines() if line.strip()]

    models, grid, ucases = load(mf), load(gf), load(uf)
    g = gen.tagged('GEN')
    if not g or g[0][1:] != [len(models), len(grid), len(ucases)]:
        raise MachineryError(f'case generation incomplete: {g}')
    ctx.extra['enumerated_model_expressions'] = len(models)
    ctx.extra['enumerated_grid_points'] = len(grid)
    ctx.extra['enumerated_unit_cases'] = len(ucases)
    events: list = []
    rng = ctx.rng
    # data for guess()
    xg = np.linspace(0.0, 10.0, 61)
    yg = 2.0 + 0.3 * xg + lp.np_gaussian(xg, 12.0, 4.5, 0.8)
    gdata = sc.DataArray(sc.array(dims=['x'], values=yg, unit='counts'), coords={'x': sc.array(dims=['x'], values=xg, unit='angstrom')})
    leaves = [e for e in models if e['kind'] != 'comp']
    comps = [e for e in models if e['kind'] == 'comp']
    if not ctx.thorough:
        comps = rng.sample(comps, 1200)
    for k, e in enumerate(leaves + comps):
        m = model_events(ctx, events, e, k, probes='all' if (e['kind'] != 'comp' or not ctx.thorough) else 'some')
        if m is not None and k % (3 if ctx.thorough else 6) == 0 and len(set(names_of(e))) == len(names_of(e)):
            aux_event(ctx, events, e, m, gdata)
    # random deeper expressions
    n_rand = 2500 if ctx.thorough else 500
    made = 0
    while made < n_rand:
        e = random_expr(rng, rng.choice([1, 2, 2, 3, 3, 4, 5]))
        if not well_formed_inner(e):
            continue
        made += 1
        m = model_events(ctx, events, e, made, probes='some')
        if m is not None and made % 5 == 0 and len(set(names_of(e))) == len(names_of(e)):
            aux_event(ctx, events, e, m, gdata)
    # ---- polynomials, units, closed forms
    poly_events(ctx, events)
    units_part(ctx, events, ucases)
    if not ctx.thorough:
        # every scale and every amplitude, a third of the (loc, fraction) combinations
        grid = [g_ for i, g_ in enumerate(sorted(grid, key=lambda r: (r['e'], r['A'], r['mu'], r['f']))) if i % 3 == 0]
    for k, g_ in enumerate(grid):
        for kind in ('gauss', 'lorentz', 'pvoigt'):
            if kind != 'pvoigt' and g_['f'] not in (0, 3):
                continue
            numeric_event(ctx, events, kind, g_, k)
    for i, e in enumerate(events):
        e['tid'] = i
    kinds = {}
    for e in events:
        kinds[e['ev']] = kinds.get(e['ev'], 0) + 1
        if kinds[e['ev']] == 1:
            ctx.sample(e)
    ctx.extra['events_by_kind'] = kinds
    worst = max((e.get('integral_rel_err', 0.0) for e in events), default=0.0)
    ctx.extra['worst_integral_relative_error'] = worst
    # ---- TLC judges every event
    keep = ('ev', 'tid', 'model', 'out', 'names', 'keys', 'guess_keys', 'bounds_keys', 'guess_same', 'bounds_same',
            'coefs', 'xs', 'got', 'kind', 'pu', 'ux', 'a', 'b', 'flags')
    tf = ctx.tmp / 'c16.ndjson'
    write_ndjson(tf, [{k: v for k, v in e.items() if k in keep} for e in events])
    tr = ctx.tlc('peaks/Trace_PeakModels.tla', workers=1, env={'TRACE_FILE': str(tf)}, timeout=1500)
    require_ok(ctx, tr, 'Trace_PeakModels')
    done = tr.tagged('DONE')
    if not done or done[0][1] != len(events):
        raise MachineryError(f'trace validation incomplete: {done} vs {len(events)} events')
    ctx.traces(len(events))
    rejected_lines = {r[1] for r in tr.tagged('REJECT')}
    # the control corrupts events the judge ACCEPTED (so its outcome cannot depend on the code under test)
    _judge_control(ctx, [e for i, e in enumerate(events) if i + 1 not in rejected_lines], keep)
    for _, line, _tid, clause in tr.tagged('REJECT'):
        e = events[line - 1]
        what = e.get('kind') or (e.get('model') or {}).get('kind') or e.get('what', '')
        if e['ev'] == 'flags' and e.get('what') == 'routing':
            what = 'composite' if e['model']['kind'] == 'comp' else e['model']['kind']
        key = f'{e["ev"]}: {clause} ({what})'
        ctx.violation(key, {'event': {k: v for k, v in e.items() if k not in ('xs',)}})


def _judge_control(ctx, events, keep):
    """Negative control of the judge: corrupted copies of accepted events (one field each) must be rejected."""
    import copy

    bad = []
    ne = next((e for e in events if e['ev'] == 'names' and e['out'] == 'ok' and len(e['names']) > 1), None)
    if ne:
        b = copy.deepcopy(ne)
        b['names'] = b['names'][1:]
        bad.append(b)
    ce = next((e for e in events if e['ev'] == 'call' and e['out'] == 'refused'), None)
    if ce:
        b = copy.deepcopy(ce)
        b['out'] = 'ok'
        bad.append(b)
    pe = next((e for e in events if e['ev'] == 'poly' and e['out'] == 'ok'), None)
    if pe:
        b = copy.deepcopy(pe)
        b['got'][-1] += 1
        bad.append(b)
    ue = next((e for e in events if e['ev'] == 'unit' and e['out'][0] == 1), None)
    if ue:
        b = copy.deepcopy(ue)
        b['out'][2] += 1
        bad.append(b)
    tf = ctx.tmp / 'c16-control.ndjson'
    write_ndjson(tf, [{k: v for k, v in e.items() if k in keep} for e in bad])
    tr = ctx.tlc('peaks/Trace_PeakModels.tla', workers=1, env={'TRACE_FILE': str(tf)}, timeout=300, count=False)
    require_ok(ctx, tr, 'Trace_PeakModels (control)')
    if len(tr.tagged('REJECT')) != len(bad) or not bad:
        raise MachineryError(f'judge control: {len(bad)} corrupted events, rejected {tr.tagged("REJECT")}')
    ctx.extra['judge_control'] = f'{len(bad)} corrupted events rejected'


META = {
    'design_ref': 'DESIGN.md §5 C16',
    'technique': 'TLA+ state machines (PeakModels: names / horner / lorentz / units) model-checked by TLC with negative '
                 'controls; TLC-enumerated model expressions, unit cases and parameter grid replayed into the real '
                 'models; every observation validated by TLC (Trace_PeakModels); transcendental closed forms '
                 'compared numerically against mpmath at the enumerated grid',
    'text': 'TLC decides the parameter-name algebra (prefix, composite union/disjointness, with_prefix, acceptance iff '
            'the keys are exactly the names, routing of every value to its declared leaf parameter) for all model '
            'expressions within the bounds, Horner = sum a_i x^i over the integers, the Lorentzian as an exact rational '
            'multiple of 1/pi (symmetry, half maximum at loc +/- scale, FWHM 2 scale) and the unit algebra; the real '
            'models are built for every enumerated expression and random deeper ones and TLC judges names, '
            'acceptance/refusal, integer polynomial values (bit-exact) and result units; point values, symmetry, half '
            'maximum at the reported FWHM and normalisation of Gaussian/Lorentzian/pseudo-Voigt are compared with '
            '60-digit closed forms on the enumerated grid (scales 1e-6..1e6, both amplitude signs, fractions 0..1).',
    'note': 'The transcendental sub-claims (normalisation, half maximum, symmetry of Gaussian and pseudo-Voigt) are '
            'decided numerically on finitely many enumerated points, not by TLC (DESIGN §6). Trusted: TLC, scipp, numpy, '
            'mpmath. Any exception counts as refusal.',
}
