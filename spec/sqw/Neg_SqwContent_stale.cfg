SPECIFICATION Spec
CONSTANTS
  NPix = {0, 1, 2, 8, 9, 10, 11, 20}
  Chunks = {1, 2, 9, 10, 100}
  RunLists <- MC_RunLists
  Orders <- MC_Orders
  MaxGen = 2
  Bug = "stale"
INVARIANT AllPixelsInOrder
INVARIANT RunsEncoding
INVARIANT PrefixWhileWriting
INVARIANT PixMeta
INVARIANT RunIdsOneBased
INVARIANT SharedObject
INVARIANT RoundTrip
INVARIANT InputsUntouched
CHECK_DEADLOCK FALSE
