------------------------------ MODULE Trace_QVec ------------------------------
(* Judges recorded executions of the Q-vector / hkl kernels (C08).                          *)
(*  "q"    : beams with integer norms and a quaternion.  `want` is the harness' own          *)
(*           Euclidean evaluation (b1/|b1| - b2/|b2| with exact rationals, rotation matrix   *)
(*           from the quaternion); TLC recomputes it with QVecDefs and rejects a harness     *)
(*           that differs, then judges the measured errors.                                  *)
(*  "hkl"  : goniometer / orientation quaternions, integer B, integer hkl; `want` holds the  *)
(*           harness' integer matrices, TLC recomputes them and Cramer's solution.           *)
(*  "split": bit-exactness of splitting / reassembling vectors.                              *)
(* Error units: 2^-53 relative to 2 pi / lambda for Q; eps * cond(R UB) * |hkl| for hkl.    *)
EXTENDS QVecDefs, TLC, Json, IOUtils

Tr == ndJsonDeserialize(IOEnv.TRACE_FILE)

QTol    == 32      \* 16 eps * 2pi/lambda per component
NormTol == 48      \* 24 eps * 2pi/lambda for |Q| and the scalar route
CovTol  == 96      \* 48 eps * 2pi/lambda for R * Q(b1, b2) against Q(R b1, R b2)
HklTol(e) == (IF e.quat_operands THEN 48 ELSE 32) + e.extra   \* in units of eps * cond * |hkl|; extra: unit scale
GraphTol == 64     \* eps * (cond |hkl| + |A^-1| / lambda): the inversion is fed the kernel's own Q (driver docstring)
UbTol   == 16      \* eps * (column sum of |B|) per entry of U B

VARIABLES l, nbad
tvars == <<l, nbad>>

JudgeQ(e) ==
    LET b1 == [v |-> e.b1, n |-> e.n1]
        b2 == [v |-> e.b2, n |-> e.n2]
        r1 == RotBeam(e.quat, b1)
        r2 == RotBeam(e.quat, b2)
        o  == e.o
    IN  IF ~IsBeam(b1) \/ ~IsBeam(b2) \/ ~IsRotation(e.quat) THEN "invalid_case"
        ELSE IF e.form \notin QForms THEN "unknown_form"
        ELSE IF e.want.q # QDir(b1, b2) THEN "harness_reference_differs_from_spec"
        ELSE IF e.want.rq # QDir(r1, r2) \/ e.want.rq # RotRat(e.quat, QDirN(b1, b2), QDirD(b1, b2))
             THEN "harness_rotated_reference_differs_from_spec"
        ELSE IF e.want.four_sin2 # FourSin2(b1, b2) THEN "harness_norm_reference_differs_from_spec"
        ELSE IF ~o.returned THEN "kernel_raised"
        ELSE IF ~o.unit_ok THEN "unit_or_dtype_of_result"
        ELSE IF o.e_q > QTol THEN "Q_vector_is_not_2pi_over_lambda_times_ei_minus_ef"
        ELSE IF o.e_len > QTol THEN "Q_vector_depends_on_beam_lengths"
        ELSE IF o.e_rot > QTol \/ o.e_cov > CovTol THEN "Q_vector_does_not_rotate_with_the_beamline"
        ELSE IF o.e_norm > NormTol THEN "norm_of_Q_vector_is_not_4pi_sin_theta_over_lambda"
        ELSE IF o.e_scal > NormTol THEN "scalar_Q_differs_from_norm_of_Q_vector"
        ELSE IF ~o.bits_ok THEN "reassembled_Q_vector_differs_from_its_elements"
        ELSE IF ~o.inputs_kept THEN "operand_modified_in_place"
        ELSE "ok"

JudgeHkl(e) ==
    LET A == RUBNum(e.qr, e.qu, e.B)
        D == RUBDen(e.qr, e.qu)
        o == e.o
    IN  IF Det3(e.B) = 0 \/ ~IsRotation(e.qr) \/ ~IsRotation(e.qu) THEN "invalid_case"
        ELSE IF e.var \notin HklVars THEN "unknown_form"
        ELSE IF e.want.A # A \/ e.want.D # D \/ e.want.qlab # QLabNum(e.qr, e.qu, e.B, e.h)
                \/ e.want.ub # UBNum(e.qu, e.B)
             THEN "harness_reference_differs_from_spec"
        ELSE IF Solve(A, D, e.want.qlab, D) # RatVec(e.h, 1) THEN "cramer_solution_is_not_hkl"
        ELSE IF ~o.returned THEN "kernel_raised"
        ELSE IF ~o.unit_ok THEN "unit_or_dtype_of_result"
        ELSE IF o.e_ub > UbTol THEN "ub_matrix_is_not_U_times_B"
        ELSE IF ~o.ub_bits_ok THEN "ub_matrix_not_bit_exact_for_exactly_representable_operands"
        ELSE IF o.e_hkl > HklTol(e) THEN "hkl_does_not_solve_2pi_R_UB_hkl_eq_Q"
        ELSE IF ~o.split_ok THEN "hkl_elements_differ_from_hkl_vector"
        ELSE IF ~o.inputs_kept THEN "operand_modified_in_place"
        ELSE "ok"

(* the coordinate-graph route: TLC recomputes lambda * hkl = Solve(R UB, e_i - e_f) and e_i - e_f *)
JudgeGraph(e) ==
    LET b1 == [v |-> e.b1, n |-> e.n1]
        b2 == [v |-> e.b2, n |-> e.n2]
        o  == e.o
    IN  IF ~IsBeam(b1) \/ ~IsBeam(b2) \/ Det3(e.B) = 0 \/ ~IsRotation(e.qr) \/ ~IsRotation(e.qu) THEN "invalid_case"
        ELSE IF e.want.x # HklTimesLambda(e.qr, e.qu, e.B, b1, b2) \/ e.want.qdir # QDir(b1, b2)
             THEN "harness_reference_differs_from_spec"
        ELSE IF ~o.returned THEN "kernel_raised"
        ELSE IF ~o.unit_ok THEN "unit_or_dtype_of_result"
        ELSE IF o.e_q > QTol THEN "Q_vector_is_not_2pi_over_lambda_times_ei_minus_ef"
        ELSE IF o.e_hkl > GraphTol THEN "hkl_does_not_solve_2pi_R_UB_hkl_eq_Q"
        ELSE IF ~o.split_ok THEN "elements_differ_from_their_vector"
        ELSE "ok"

JudgeSplit(e) == IF ~e.returned THEN "kernel_raised"
                 ELSE IF ~e.bits_ok THEN "split_or_reassembly_changed_bits" ELSE "ok"

Judge(e) == CASE e.ev = "q"     -> JudgeQ(e)
              [] e.ev = "hkl"   -> JudgeHkl(e)
              [] e.ev = "graph" -> JudgeGraph(e)
              [] e.ev = "split" -> JudgeSplit(e)
              [] OTHER -> "unknown_event"

TInit == l = 1 /\ nbad = 0
TNext == /\ l <= Len(Tr)
         /\ l' = l + 1
         /\ LET v == Judge(Tr[l]) IN
            /\ nbad' = IF v = "ok" THEN nbad ELSE nbad + 1
            /\ (v = "ok" \/ PrintT(<<"REJECT", l, Tr[l].tid, v>>))
TSpec == TInit /\ [][TNext]_tvars
Done == (l = Len(Tr) + 1) => PrintT(<<"DONE", l - 1, nbad>>)
=============================================================================
