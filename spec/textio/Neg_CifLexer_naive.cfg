SPECIFICATION Spec
CONSTANTS
  Alphabet <- MC_Alphabet
  MaxLen = 3
  Bug = "naive"
INVARIANT TypeOK
INVARIANT PairRoundTrip
INVARIANT LoopRoundTrip
INVARIANT NoValueHasLfSemi
INVARIANT NotRepresentableIsLost
INVARIANT CommentsAreNotTokens
CHECK_DEADLOCK FALSE
