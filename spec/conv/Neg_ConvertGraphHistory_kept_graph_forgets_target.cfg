SPECIFICATION HSpec
CONSTANTS
  Reqs <- MC_Reqs
  MaxLen = 2
  Bug = "kept_graph_forgets_target"
INVARIANT AnswerIsAFunctionOfTheArguments
INVARIANT TablesIntact
