----------------------------- MODULE Trace_Xye -----------------------------
(* Judges recorded executions of the real save_xye / load_xye.  One NDJSON line per call  *)
(* of save_xye (followed by load_xye when a file was written):                            *)
(*   tid, cfg (as in XyeDefs; header already mapped to the symbols a # LF SP digit),       *)
(*   out "file" | "raised", lines = the written text split into lines and mapped to        *)
(*   symbols (numbers -> value-ids by exact bit equality for X and Y, <= 4 ulp of the      *)
(*   variance for E^2; unknown numbers -> 8000000), loaded = [ok, rows] of value-ids of   *)
(*   the loaded DataArray (variances <= 4 ulp).                                           *)
(* Every line gets a verdict; a rejected line prints <<"REJECT", line, tid, clause, kind>>. *)
EXTENDS XyeDefs, TLC, Json, IOUtils

Tr == ndJsonDeserialize(IOEnv.TRACE_FILE)

VARIABLES l, nbad
tvars == <<l, nbad>>

Cfg(e) == [hasvar |-> e.cfg.hasvar, ndim |-> e.cfg.ndim, masks |-> e.cfg.masks, coords |-> ToSet(e.cfg.coords),
           arg |-> e.cfg.arg, edges |-> ToSet(e.cfg.edges), nrows |-> e.cfg.nrows, header |-> e.cfg.header]

(* Which text the comment lines carry is not part of the property ("header text never    *)
(* interferes with the table"): only that every line before the table is a comment and    *)
(* that the table is exactly the data (WellFormed, DataLine, Load).                        *)
Judge(e) ==
    LET c == Cfg(e)  d == Decide(c)
        rl == ReaderLines(e.lines)      \* evaluated once per event (ReaderLines is idempotent)
    IN
    IF d # "write" THEN (IF e.out = "raised" THEN "ok" ELSE "written_instead_of_refused")
    ELSE IF e.out = "raised" THEN "representable_data_refused"
    ELSE IF ~WellFormed(rl, c.nrows) THEN "file_structure"
    ELSE IF \E i \in 1..c.nrows : rl[Len(rl) - c.nrows + i] # DataLine(Chosen(c), i) THEN "table_cells"
    ELSE IF Load(rl) # [ok |-> TRUE, rows |-> Expected(c)] THEN "table_not_readable_by_specified_reader"
    ELSE IF ~e.loaded.ok THEN "load_failed"
    ELSE IF e.loaded.rows # Expected(c) THEN "loaded_data_differs"
    ELSE "ok"

TInit == l = 1 /\ nbad = 0
TNext == /\ l <= Len(Tr)
         /\ l' = l + 1
         /\ LET v == Judge(Tr[l]) IN
            /\ nbad' = IF v = "ok" THEN nbad ELSE nbad + 1
            /\ (v = "ok" \/ PrintT(<<"REJECT", l, Tr[l].tid, v, Decide(Cfg(Tr[l]))>>))
TSpec == TInit /\ [][TNext]_tvars
Done == (l = Len(Tr) + 1) => PrintT(<<"DONE", l - 1, nbad>>)
=============================================================================
