--------------------------- MODULE MC_PeakModels ---------------------------
EXTENDS PeakModels
(* letters of the prefixes: "a" and "a0" are prefixes of (or equal to) parameter names      *)
MC_Letters3 == {"a", "0", "_"}
MC_Letters2 == {"a", "0"}
MC_Unknown == {<<"x">>, <<"a">>, <<"a", "7">>, <<"l", "o", "c", "_">>}
MC_Coefs == {-2, -1, 0, 1, 2}
MC_Xs == {-3, -2, -1, 0, 1, 2, 3}
MC_Amps == {-3, -1, 2, 5}
MC_Locs == {-2, 0, 3}
MC_UnitExps == {-1, 0, 1}
MC_TCoefs == {-2, 3}
=============================================================================
