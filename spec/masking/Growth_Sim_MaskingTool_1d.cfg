SPECIFICATION Spec
CONSTANTS
  NX = 4
  NY = 3
  NDim = 1
  Bug = "none"
  ClickX <- MC_SimClickX
  ClickY <- MC_SimClickY
  DragD <- MC_SimDrag
  MaxShapes = 6
  Names <- MC_SimNames
  Sim = TRUE
  SimLen = 40
INVARIANT AtMostOneActive
INVARIANT Coherent
CHECK_DEADLOCK FALSE
