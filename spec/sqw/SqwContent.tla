----------------------------- MODULE SqwContent -----------------------------
(* How the content reaches the file, step by step, on value-ids.                              *)
(*                                                                                          *)
(* Supply: N pixels (9 rows each, value of pixel p in every row ordered like val[p]), a list  *)
(* of 0-based run ids, a chunk size.  WriteMeta records N and the ids of the per-row minimum  *)
(* and maximum.  WriteChunk takes the next `chunk` pixels of every row, packs them pixel by   *)
(* pixel and appends them to the block.  WriteRuns writes the experiment records (1-based     *)
(* run ids) and the instrument / sample containers (index 1 for every run, one object).       *)
(* ReadBack is what a reader returns: 0-based run ids again, the table re-assembled.          *)
(* The invariants state that this equals the declarative content of SqwContentDefs.           *)
EXTENDS SqwContentDefs

CONSTANTS NPix, Chunks, RunLists, Orders, Bug
(* Orders: set of functions N -> value order, given as sequences; val[p] = rank of pixel p     *)

VARIABLES n, chunk, runs, val, phase, off, block, meta, fileruns, idx, nuniq, readruns, readtable
vars == <<n, chunk, runs, val, phase, off, block, meta, fileruns, idx, nuniq, readruns, readtable>>

Min2(a, b) == IF a < b THEN a ELSE b

Init == /\ n \in NPix /\ chunk \in Chunks /\ runs \in RunLists
        /\ val \in {o \in Orders : Len(o) = n}
        /\ phase = "meta" /\ off = 0 /\ block = <<>>
        /\ meta = [npix |-> -1, minp |-> 0, maxp |-> 0]
        /\ fileruns = <<>> /\ idx = <<>> /\ nuniq = 0 /\ readruns = <<>> /\ readtable = <<>>

(* pixels whose value is the smallest / largest among those looked at *)
ArgMin(P) == CHOOSE p \in P : \A q \in P : val[p] <= val[q]
ArgMax(P) == CHOOSE p \in P : \A q \in P : val[p] >= val[q]
Looked == IF Bug = "firstchunk" THEN 1..Min2(chunk, n) ELSE 1..n

WriteMeta == /\ phase = "meta" /\ phase' = "pix"
             /\ meta' = [npix |-> n,
                         minp |-> IF n = 0 THEN 0 ELSE ArgMin(Looked),
                         maxp |-> IF n = 0 THEN 0 ELSE ArgMax(Looked)]
             /\ UNCHANGED <<n, chunk, runs, val, off, block, fileruns, idx, nuniq, readruns, readtable>>

LoopBound == IF Bug = "rows" THEN NRows ELSE n
(* the slice of every row that goes into this chunk *)
SliceStart == IF Bug = "stale" THEN 0 ELSE off

WriteChunk ==
    /\ phase = "pix" /\ off < LoopBound
    /\ LET remaining == n - Min2(off, n)
           m == Min2(chunk, remaining)
           piece == [k \in 1..(NRows * m) |->
                        PixId(SliceStart + ((k - 1) \div NRows) + 1, ((k - 1) % NRows) + 1)]
       IN block' = block \o piece
    /\ off' = off + chunk
    /\ UNCHANGED <<n, chunk, runs, val, phase, meta, fileruns, idx, nuniq, readruns, readtable>>

PixDone == /\ phase = "pix" /\ off >= LoopBound /\ phase' = "runs"
           /\ UNCHANGED <<n, chunk, runs, val, off, block, meta, fileruns, idx, nuniq, readruns, readtable>>

WriteRuns == /\ phase = "runs" /\ phase' = "read"
             /\ fileruns' = IF Bug = "zerobased" THEN runs ELSE [i \in 1..Len(runs) |-> runs[i] + 1]
             /\ idx' = [i \in 1..Len(runs) |-> IF Bug = "zeroidx" THEN 0 ELSE 1]
             /\ nuniq' = 1
             /\ UNCHANGED <<n, chunk, runs, val, off, block, meta, readruns, readtable>>

ReadBack == /\ phase = "read" /\ phase' = "done"
            /\ readruns' = [i \in 1..Len(fileruns) |-> fileruns[i] - 1]
            /\ readtable' = [p \in 1..(Len(block) \div NRows) |-> [r \in 1..NRows |-> block[NRows * (p - 1) + r]]]
            /\ UNCHANGED <<n, chunk, runs, val, off, block, meta, fileruns, idx, nuniq>>

Next == WriteMeta \/ WriteChunk \/ PixDone \/ WriteRuns \/ ReadBack
Spec == Init /\ [][Next]_vars

-----------------------------------------------------------------------------
Written == phase \in {"runs", "read", "done"}
AllPixelsInOrder == Written => block = PixelTable(n)
RunsEncoding     == Written => IsRunsOf(ExpectedRuns(n), block)
(* never more than declared, never out of order while writing *)
PrefixWhileWriting == phase = "pix" => \A k \in 1..Len(block) : k <= NRows * n => block[k] = k
PixMeta == phase # "meta" =>
    /\ meta.npix = n
    /\ (n > 0 => /\ val[meta.minp] = MinOf(Range(val))
                 /\ val[meta.maxp] = MaxOf(Range(val)))
RunIdsOneBased == phase \in {"read", "done"} => fileruns = FileRunIds(runs)
SharedObject   == phase \in {"read", "done"} => idx = ContainerIdx(Len(runs)) /\ nuniq = 1
RoundTrip == phase = "done" =>
    /\ readruns = runs
    /\ Len(readtable) = n
    /\ \A p \in 1..n : \A r \in 1..NRows : readtable[p][r] = PixId(p, r)
=============================================================================
