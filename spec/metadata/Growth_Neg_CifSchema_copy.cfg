SPECIFICATION Spec
CONSTANTS
  Bug = "copy_shares_items"
  MaxBlocks = 2
  MaxItems = 2
  ItemDecls <- MC_ItemDecls
PROPERTY Steps
CHECK_DEADLOCK FALSE
