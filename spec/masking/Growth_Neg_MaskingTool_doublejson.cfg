SPECIFICATION Spec
CONSTANTS
  NX = 1
  NY = 1
  NDim = 1
  Bug = "doublejson"
  ClickX <- MC_OneX
  ClickY <- MC_OrdY
  DragD <- MC_OneDrag
  MaxShapes = 3
  Names <- MC_OneNames
  Sim = FALSE
  SimLen = 0
INVARIANT TypeOK
INVARIANT AtMostOneActive
INVARIANT OnlyAllowedKinds
INVARIANT PendingNeedsTool
INVARIANT Coherent
INVARIANT MaskIsClosedBox
INVARIANT CornerOrderIrrelevant
INVARIANT OnPointIsMasked
INVARIANT DocWellFormed
INVARIANT SaveEnabledIffName
INVARIANT SavedFileWellFormed
PROPERTY ToggleKeepsMasks
PROPERTY ActivationIsExclusive
PROPERTY RemoveKeepsTheRest
PROPERTY EditsAreLocal
PROPERTY MasksFollowShapes
PROPERTY GrowthOnlyBySecondClick
CHECK_DEADLOCK FALSE
