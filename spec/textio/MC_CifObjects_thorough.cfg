SPECIFICATION Spec
CONSTANTS
  MaxOps = 5
  Vals <- MC_Vals2
  Bug = "none"
INVARIANT TypeOK
INVARIANT EveryBlockReadsBack
PROPERTY AddChangesOneBlock
PROPERTY SetReachesReferrers
CHECK_DEADLOCK FALSE
