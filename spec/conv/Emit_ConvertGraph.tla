------------------------- MODULE Emit_ConvertGraph -------------------------
(* M1 (spec -> code): enumerates configurations of the property's space together with the   *)
(* exact expected abstract result (mode, graph tag, outcome class, computed set with the    *)
(* kernel that produces each node = the provenance tree) and writes one JSON record per     *)
(* configuration.  Stride = 1 enumerates the complete space; Stride > 1 a stratified        *)
(* sample: for every head (origin, target, scatter, aux) the masks of one residue class     *)
(* plus the masks in Always.                                                                 *)
EXTENDS ConvertGraphDefs, TLC, Json, IOUtils, SequencesExt

CONSTANTS Stride, Phase

(* masks every head is tried with in the sample: nothing, everything, and the minimal /    *)
(* competing derivations (positions = 7, beams = 24, L1+L2 = 96, Ltotal = 128,              *)
(* two_theta = 256, incident_energy = 512, final_energy = 1024)                             *)
Always == {0, 7, 2047, 24, 31, 96, 128, 256, 384, 7 + 24, 7 + 96, 7 + 384, 24 + 384,
           7 + 512, 7 + 1024, 7 + 1536, 96 + 512, 96 + 1024}

OIdx(o) == CASE o = "tof" -> 0 [] o = "wavelength" -> 1 [] o = "energy" -> 2 [] o = "Q" -> 3
TSeq == SetToSeq(Targets)
TIdx(t) == CHOOSE i \in 1..Len(TSeq) : TSeq[i] = t

AllHeads == { h \in [o : Origins, t : Targets, s : BOOLEAN, x : BOOLEAN] :
                IsConfig([o |-> h.o, t |-> h.t, s |-> h.s, x |-> h.x, m |-> 0]) }

Offset(h) == 5 * OIdx(h.o) + 11 * TIdx(h.t) + (IF h.s THEN 3 ELSE 0) + (IF h.x THEN 17 ELSE 0)
SelMasks(h) == IF Stride = 1 THEN 0..2047
               ELSE Always \cup { m \in 0..2047 : (m + Offset(h)) % Stride = Phase }

Expect(c) ==
    LET tag == ReportedTag(c)
        out == Outcome(c)
    IN [ o |-> c.o, t |-> c.t, s |-> c.s, m |-> c.m, x |-> c.x,
         mode |-> DeducedMode(c), tag |-> tag, outcome |-> out,
         optional |-> RefusalOptional(c),
         prov |-> IF out = "ok" THEN Prov(Rules(tag), Present(c), c.t)
                  ELSE IF RefusalOptional(c) /\ Derivable(Rules(AltTag(c)), Present(c), c.t)
                       THEN Prov(Rules(AltTag(c)), Present(c), c.t)
                  ELSE [ n \in {} |-> "" ] ]

(* (a big UNION is quadratic in TLC, a filtered record set is not: the complete space is    *)
(* taken as the filtered set Configs, only the sample is assembled head by head)            *)
Cases == IF Stride = 1 THEN Configs
         ELSE UNION { { [o |-> h.o, t |-> h.t, s |-> h.s, x |-> h.x, m |-> m] : m \in SelMasks(h) } : h \in AllHeads }

ASSUME ndJsonSerialize(IOEnv.OUT_FILE, SetToSeq({ Expect(c) : c \in Cases }))
ASSUME PrintT(<<"EMITTED", Cardinality(Cases)>>)

VARIABLE dummy
EInit == dummy = 0
ENext == UNCHANGED dummy
ESpec == EInit /\ [][ENext]_dummy
=============================================================================
