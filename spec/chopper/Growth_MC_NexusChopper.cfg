SPECIFICATION Spec
CONSTANTS
  KTicks = 8
  TableLists <- TableQ
  TableDev = 2
  GeoLists <- GeoQ
  GeoDev = 1
  Bug = "none"
INVARIANT TypeOK
INVARIANT Admitted
INVARIANT ResultIsDeclared
INVARIANT PairingInOrder
INVARIANT DiskPreserved
INVARIANT HeightPerSlit
INVARIANT RoundTrip
INVARIANT RoundTripDeclared
INVARIANT ExtractIdempotent
INVARIANT ExtractConservative
INVARIANT ExtractKeepsSlits
INVARIANT ExtractedLayout
CHECK_DEADLOCK FALSE
