"""Exact (rational) geometry of a finite solid cylinder — the Python side of spec/absorption/CylinderDefs.tla.

Everything here is the refinement mapping / oracle of C18 and is independent of scippneutron: it never
imports the package.  The operators mirror the TLA+ definitions one to one (same names) but work on
``fractions.Fraction`` of unbounded size, so that recorded executions far outside TLC's 32-bit range can
be judged numerically; whenever the integers of a case are small enough the very same case is *also*
recomputed by TLC from the TLA+ operators (Trace_Cylinder.tla) and the two must agree.

Conventions
-----------
* a rotation is given by an integer quaternion q = (a, b, c, d) != 0:  R(q) = M(q) / |q|^2 with an
  integer matrix M(q) — every rational rotation arises this way;
* a cylinder is (R, base, r, h): the columns of R are e1, e2 and the axis (so the axis is a rational unit
  vector: a Pythagorean quadruple over |q|^2, all sign patterns occur), `base` is the centre of the bottom
  cap, r the radius, h the height.  The solid is closed:
      Inside(p)  <=>  0 <= (p-base).axis <= h   and   |p-base|^2 - ((p-base).axis)^2 <= r^2
* a ray is (s, n) with n a rational unit vector; PathLength = length of {t >= 0 : Inside(s + t n)}.
* pi is carried symbolically: volumes / moments are returned as the rational factor of pi.
"""

from __future__ import annotations

from fractions import Fraction as F
from math import gcd, isqrt

import mpmath

mpmath.mp.dps = 60


# ------------------------------------------------------------------ small linear algebra on Fractions
def dot(u, v):
    return u[0] * v[0] + u[1] * v[1] + u[2] * v[2]


def cross(u, v):
    return (u[1] * v[2] - u[2] * v[1], u[2] * v[0] - u[0] * v[2], u[0] * v[1] - u[1] * v[0])


def add(u, v):
    return (u[0] + v[0], u[1] + v[1], u[2] + v[2])


def sub(u, v):
    return (u[0] - v[0], u[1] - v[1], u[2] - v[2])


def scale(k, u):
    return (k * u[0], k * u[1], k * u[2])


def matvec(R, v):
    return tuple(dot(R[i], v) for i in range(3))


def matmul(A, B):
    return tuple(tuple(sum(A[i][k] * B[k][j] for k in range(3)) for j in range(3)) for i in range(3))


def col(R, j):
    return (R[0][j], R[1][j], R[2][j])


def qmat_int(q):
    """Integer matrix M(q) and N = |q|^2 with R(q) = M/N a proper rotation (Euler–Rodrigues)."""
    a, b, c, d = q
    n = a * a + b * b + c * c + d * d
    m = (
        (a * a + b * b - c * c - d * d, 2 * (b * c - a * d), 2 * (b * d + a * c)),
        (2 * (b * c + a * d), a * a - b * b + c * c - d * d, 2 * (c * d - a * b)),
        (2 * (b * d - a * c), 2 * (c * d + a * b), a * a - b * b - c * c + d * d),
    )
    return m, n


def qrot(q):
    m, n = qmat_int(q)
    return tuple(tuple(F(x, n) for x in row) for row in m)


IDENT = ((F(1), F(0), F(0)), (F(0), F(1), F(0)), (F(0), F(0), F(1)))
FLIP = ((F(1), F(0), F(0)), (F(0), F(-1), F(0)), (F(0), F(0), F(-1)))  # rotation by pi about e1


def is_square(fr: F):
    """Exact square root of a non-negative rational if it is rational, else None (ExactSqrt)."""
    if fr < 0:
        return None
    p, q = fr.numerator, fr.denominator
    sp, sq = isqrt(p), isqrt(q)
    if sp * sp == p and sq * sq == q:
        return F(sp, sq)
    return None


def mp(fr):
    if isinstance(fr, F):
        return mpmath.mpf(fr.numerator) / mpmath.mpf(fr.denominator)
    return mpmath.mpf(fr)


# ------------------------------------------------------------------ the solid
class Cyl:
    """Closed solid cylinder with exact rational description."""

    def __init__(self, R, base, r, h):
        self.R = tuple(tuple(F(x) for x in row) for row in R)
        self.base = tuple(F(x) for x in base)
        self.r = F(r)
        self.h = F(h)

    # frame
    @property
    def axis(self):
        return col(self.R, 2)

    @property
    def e1(self):
        return col(self.R, 0)

    @property
    def e2(self):
        return col(self.R, 1)

    @property
    def center(self):
        return add(self.base, scale(self.h / 2, self.axis))

    @property
    def size(self):
        """Length scale used for absolute tolerances: the larger of diameter and height."""
        return max(2 * self.r, self.h)

    @property
    def volume_over_pi(self):
        return self.r * self.r * self.h

    def inside(self, p, slack=F(0)):
        """Inside(p) of the spec; `slack` >= 0 enlarges the solid by that distance (in radius and at
        both caps), which is how a float point is tested 'to within tolerance'."""
        v = sub(p, self.base)
        t = dot(v, self.axis)
        if t < -slack or t > self.h + slack:
            return False
        rad2 = dot(v, v) - t * t
        return rad2 <= (self.r + slack) ** 2

    # rigid motions: p -> Q p + tau
    def moved(self, Q, tau):
        return Cyl(matmul(Q, self.R), add(matvec(Q, self.base), tau), self.r, self.h)

    def other_end(self):
        """The same solid described from its other end: base + h*axis, -axis (frame kept right-handed)."""
        return Cyl(matmul(self.R, FLIP), add(self.base, scale(self.h, self.axis)), self.r, self.h)

    def local(self, p):
        """Coordinates of p in the cylinder frame centred at the centre of the solid."""
        v = sub(p, self.center)
        return (dot(v, self.e1), dot(v, self.e2), dot(v, self.axis))

    # ---------------------------------------------------------------- rays
    def chord(self, s, n):
        """Exact description of {t >= 0 : Inside(s + t n)} for a unit direction n.

        Returns a dict with
          cls     ray class (see CLASSES)
          exact   Fraction if the length is rational (discriminant a perfect square), else None
          length  mpmath value of the length (60 digits)
          margin  conditioning information: 'disc_rel' = 1 - d^2/r^2 (d = distance line–axis)
          grazing True for the measure-zero configurations where the length is discontinuous in the
                  inputs (ray inside a cap plane, ray along the lateral surface): not part of any check
        """
        a = self.axis
        w0 = sub(s, self.base)  # point on the ray relative to the base
        na = dot(n, a)
        wa = dot(w0, a)
        A = 1 - na * na  # |n x a|^2
        B = dot(w0, n) - wa * na
        C = dot(w0, w0) - wa * wa - self.r * self.r
        grazing = False
        # slab 0 <= wa + t*na <= h
        if na == 0:
            slab = None if (wa < 0 or wa > self.h) else (None, None)  # (None, None) = all t
            if wa == 0 or wa == self.h:
                grazing = True
        else:
            t0, t1 = -wa / na, (self.h - wa) / na
            slab = (min(t0, t1), max(t0, t1))
        start_inside = self.inside(s)
        info = {'A': A, 'disc': None, 'disc_rel': None}
        # infinite cylinder A t^2 + 2 B t + C <= 0
        if A == 0:
            if C == 0:
                grazing = True
            cyl = (None, None) if C <= 0 else None
            parallel = True
            disc_rel = -C / (self.r * self.r)
        else:
            parallel = False
            disc = B * B - A * C
            disc_rel = disc / (A * self.r * self.r)
            info['disc'] = disc
            if disc < 0:
                cyl = None
            else:
                sq = is_square(disc)
                root = sq if sq is not None else mpmath.sqrt(mp(disc))
                cyl = ((-B - root) / A, (-B + root) / A) if sq is not None else (
                    (mp(-B) - root) / mp(A), (mp(-B) + root) / mp(A))
        info['disc_rel'] = disc_rel
        if slab is None or cyl is None:
            length = F(0)
        else:
            lo = [x for x in (slab[0], cyl[0]) if x is not None] + [F(0)]
            hi = [x for x in (slab[1], cyl[1]) if x is not None]
            if not hi:
                length = None  # unbounded: impossible for a unit direction
            else:
                lo_ = max(lo, key=mp)
                hi_ = min(hi, key=mp)
                if mp(hi_) <= mp(lo_):
                    length = F(0)
                elif isinstance(hi_, F) and isinstance(lo_, F):
                    length = hi_ - lo_
                else:
                    length = mp(hi_) - mp(lo_)
        exact = length if isinstance(length, F) else None
        lval = mp(length) if length is not None else None
        # classification
        if parallel:
            cls = 'parallel_hit' if lval > 0 else 'parallel_miss'
        elif info['disc'] == 0:
            cls = 'tangent'
        elif info['disc'] < 0:
            cls = 'miss_line'
        elif lval > 0:
            cls = 'from_inside' if start_inside else 'from_outside'
        else:
            cls = 'miss_solid'  # the line meets the infinite cylinder but the ray misses the solid
        return {'cls': cls, 'exact': exact, 'length': lval, 'grazing': grazing,
                'disc_rel': disc_rel, 'parallel': parallel, 'start_inside': start_inside}


CLASSES = ('from_inside', 'from_outside', 'parallel_hit', 'parallel_miss', 'tangent', 'miss_line',
           'miss_solid')


# ------------------------------------------------------------------ exact moments (rational factor of pi)
def _dfact(n):
    """(n)!! for odd n >= -1."""
    r = 1
    while n > 1:
        r *= n
        n -= 2
    return r


def disk_moment_over_pi(a, b):
    """int_{x^2+y^2<=1} x^a y^b dx dy / pi  (0 unless a, b even)."""
    if a % 2 or b % 2:
        return F(0)
    i, j = a // 2, b // 2
    fact = 1
    for k in range(2, i + j + 2):
        fact *= k  # (i+j+1)!
    return F(_dfact(2 * i - 1) * _dfact(2 * j - 1), 2 ** (i + j) * fact)


def line_moment(c):
    """int_{-1}^{1} z^c dz."""
    return F(0) if c % 2 else F(2, c + 1)


def moment_over_pi(cyl: Cyl, a, b, c):
    """int_solid x^a y^b z^c dV / pi in the cylinder frame centred at the centre."""
    return (cyl.r ** (a + b + 2)) * disk_moment_over_pi(a, b) * ((cyl.h / 2) ** (c + 1)) * line_moment(c)


# Degrees of exactness, fixed from the published rules (DESIGN §5 C18) — never measured at run time:
#   cheap     : 12-point degree-7 disk rule (15-digit table) x Gauss–Legendre(k >= 5, degree >= 9)
#               => all monomials of total degree <= 7, to 1e-12
#   medium    : T17 disk rule (degree 17, 8-digit table) x normalised sin-weighted Chebyshev nodes
#   expensive : T37 disk rule (degree 37, 8-digit table) x the same line rule
#               => a + b <= 8 and c <= 1 (the line rule is exact for constants by normalisation and for
#               odd powers by symmetry only), to 1e-6 because the tables carry 8–9 digits
def monomials(kind):
    if kind == 'cheap':
        return [(a, b, c) for a in range(8) for b in range(8 - a) for c in range(8 - a - b)]
    return [(a, b, c) for a in range(9) for b in range(9 - a) for c in (0, 1)]


def moment_tol(kind):
    return 1e-12 if kind == 'cheap' else 1e-6


# The line rule of 'medium' and 'expensive' (cylinder.py, DESIGN §5 C18): the k Gauss-Chebyshev nodes
# x_i = cos((2i-1) pi / 2k) with weights proportional to sqrt(1 - x_i^2), normalised to total weight 2, and
# k = clamp(7 h/r, 7, 25) resp. clamp(11 h/r, 11, 35).  It is exact for constants and odd powers only; the
# relative error of its even moments, evaluated HERE from the formula (never from the code), is largest for
# the smallest admissible k and decreases with k (asserted below).  "Integrate low-degree polynomials
# exactly" is therefore read, for z^2 and z^4 with these two kinds, as: within three times the error the
# documented rule has at its smallest node count - much weaker than exactness, but an absolute bar that a
# degraded line rule (weights drifting, nodes dropped) cannot pass.
MIN_LINE_NODES = {'medium': 7, 'expensive': 11}
MAX_LINE_NODES = {'medium': 25, 'expensive': 35}


def line_rule_even_moment_error(k, c):
    th = [(2 * i - 1) * mpmath.pi / (2 * k) for i in range(1, k + 1)]
    w = [mpmath.sin(t) for t in th]
    approx = 2 * sum(wi * mpmath.cos(t) ** c for wi, t in zip(w, th)) / sum(w)
    exact = mpmath.mpf(2) / (c + 1)
    return abs((approx - exact) / exact)


def axial_monomials():
    """(a, b, c) with even c in {2, 4} whose exact moment is non-zero."""
    return [(0, 0, 2), (2, 0, 2), (0, 2, 2), (0, 0, 4)]


_AXIAL_TOL = {}


def axial_tol(kind, c):
    """Relative (to the exact moment) tolerance of an even axial moment for 'medium' / 'expensive'."""
    if (kind, c) not in _AXIAL_TOL:
        errs = [line_rule_even_moment_error(k, c) for k in range(MIN_LINE_NODES[kind], MAX_LINE_NODES[kind] + 1)]
        assert all(x > y for x, y in zip(errs, errs[1:])), 'error of the documented line rule must decrease with k'
        _AXIAL_TOL[(kind, c)] = float(3 * errs[0]) + 1e-6
    return _AXIAL_TOL[(kind, c)]


# ------------------------------------------------------------------ generators
def unit_vectors(maxn):
    """All rational unit vectors (x, y, z)/N with N <= maxn (Pythagorean quadruples, all signs)."""
    out = set()
    for n in range(1, maxn + 1):
        for x in range(-n, n + 1):
            for y in range(-n, n + 1):
                z2 = n * n - x * x - y * y
                if z2 < 0:
                    continue
                z = isqrt(z2)
                if z * z != z2:
                    continue
                for zz in {z, -z}:
                    g = gcd(gcd(abs(x), abs(y)), gcd(abs(zz), n))
                    out.add((x // g, y // g, zz // g, n // g))
    return sorted(out)


def random_quaternion(rng, m):
    while True:
        q = tuple(rng.randint(-m, m) for _ in range(4))
        if any(q):
            g = gcd(gcd(abs(q[0]), abs(q[1])), gcd(abs(q[2]), abs(q[3])))
            return tuple(x // g for x in q)


# ------------------------------------------------------------------ integer form shared with TLA+
def _norm_vec(fr3):
    """(x, y, z) Fractions -> [X, Y, Z, d] integers with common denominator d > 0, reduced."""
    d = 1
    for x in fr3:
        d = d * x.denominator // gcd(d, x.denominator)
    nums = [int(x * d) for x in fr3]
    g = gcd(gcd(abs(nums[0]), abs(nums[1])), gcd(abs(nums[2]), d))
    return [n // g for n in nums] + [d // g]


def cyl_ints(c: Cyl):
    """The record [m, k, b, r, h] of CylinderDefs (r, h must be integers in lattice units)."""
    k = 1
    for row in c.R:
        for x in row:
            k = k * x.denominator // gcd(k, x.denominator)
    m = [[int(x * k) for x in row] for row in c.R]
    assert c.r.denominator == 1 and c.h.denominator == 1
    return {'m': m, 'k': k, 'b': _norm_vec(c.base), 'r': int(c.r), 'h': int(c.h)}


def cyl_from_ints(d) -> Cyl:
    R = tuple(tuple(F(x, d['k']) for x in row) for row in d['m'])
    b = d['b']
    return Cyl(R, (F(b[0], b[3]), F(b[1], b[3]), F(b[2], b[3])), d['r'], d['h'])


def vec_ints(p):
    return _norm_vec(tuple(F(x) for x in p))


def vec_from_ints(v):
    return (F(v[0], v[3]), F(v[1], v[3]), F(v[2], v[3]))


LIM = 2 ** 31 - 1


def ray_fits32(c: Cyl, s, n) -> bool:
    """Conservative test that every intermediate integer of RayParts / HitIv / RayClass / Inside of
    CylinderDefs stays within TLC's 32-bit range for this case (reductions by gcd only make numbers
    smaller, so bounding the unreduced products is sufficient)."""
    ci = cyl_ints(c)
    si, ni = vec_ints(s), vec_ints(n)
    k, nd, b = ci['k'], ni[3], ci['b']
    D = si[3] * b[3]
    w = [si[i] * b[3] - b[i] * si[3] for i in range(3)]
    a = [ci['m'][i][2] for i in range(3)]
    nn = ni[:3]
    NA, WA, WN = dot(nn, a), dot(w, a), dot(w, nn)
    X = dot(cross(w, nn), a)
    An = nd * nd * k * k - NA * NA
    Bn = WN * k * k - WA * NA
    Cn = dot(w, w) * k * k - WA * WA - ci['r'] ** 2 * D * D * k * k
    dn = An * ci['r'] ** 2 * D * D - X * X
    parts = [abs(x) for x in (D, NA, WA, WN, X, X * X, An, Bn, Cn, dn, dot(w, w) * k * k, WA * WA,
                              ci['r'] ** 2 * D * D * k * k, An * ci['r'] ** 2 * D * D,
                              WN * k * k, WA * NA, ci['h'] * D * k)]
    sq = isqrt(max(dn, 0)) + 1
    num = max(nd * (abs(Bn) + k * sq), (ci['h'] * D * k + abs(WA)) * nd, 1)
    den = max(D * max(An, 1), abs(NA) * D, 1)
    parts += [2 * num * den, den * den, k * sq]
    # Inside(c, s): v = w over D, T = WA
    parts += [dot(w, w) * k * k, (ci['h'] * si[3]) * b[3] * k, (ci['r'] * si[3]) ** 2 * b[3] ** 2 * k * k]
    return max(parts) <= LIM and max(abs(x) for x in w) <= LIM


def quad_fits32(c: Cyl, pts64) -> bool:
    """Same for InsideSl(c, p, 2) on points <<x, y, z, 64>>."""
    ci = cyl_ints(c)
    k, b = ci['k'], ci['b']
    a = [ci['m'][i][2] for i in range(3)]
    worst = 0
    for p in pts64:
        v = [p[i] * b[3] - b[i] * 64 for i in range(3)]
        T = dot(v, a)
        worst = max(worst, dot(v, v) * k * k, T * T, abs(T))
    worst = max(worst, (ci['r'] * 64 + 2) ** 2 * b[3] ** 2 * k * k, (ci['h'] * 64 + 2) * b[3] * k)
    return worst <= LIM


def move_fits32(c: Cyl, q, tau) -> bool:
    ci = cyl_ints(c)
    m, n = qmat_int(q)
    big = max(abs(x) for row in m for x in row) * max(abs(x) for row in ci['m'] for x in row) * 3
    b = ci['b']
    t = vec_ints(tau)
    big = max(big, n * ci['k'], max(abs(x) for row in m for x in row) * max(abs(x) for x in b[:3]) * 3 * t[3]
              + max(abs(x) for x in t[:3]) * n * b[3], n * b[3] * t[3],
              ci['h'] * max(abs(x) for row in ci['m'] for x in row) * b[3] + max(abs(x) for x in b[:3]) * ci['k'],
              (n * ci['k']) ** 2 * 3)
    return big * 4 <= LIM
