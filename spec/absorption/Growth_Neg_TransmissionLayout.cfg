SPECIFICATION Spec
CONSTANTS
  DetOrders <- MC_DetOrders
  SizeChoices = {1, 3}
  WlDims = {"wavelength", "a"}
  WlSizes = {0, 1, 2, 3}
  Bug = "mislabelled_chunks"
INVARIANT ResultWellFormed
INVARIANT LabelsAreInputLabels
INVARIANT ExtentsAreInputExtents
INVARIANT ValuesSitAtTheirLabels
INVARIANT EveryPairOnce
INVARIANT DirectAndChunkedAgree
INVARIANT FlatMaterialSlicesEqual
INVARIANT OnlyValidInputsComputed
CHECK_DEADLOCK FALSE
