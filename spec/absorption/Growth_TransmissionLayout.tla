---------------------- MODULE Growth_TransmissionLayout ----------------------
(* Growth module (beyond property C18): state machine of the layout of a transmission map.    *)
(*                                                                                          *)
(*   Init      choose detector_position (0-d, 1-d, 2-d; extents from Extents), wavelength      *)
(*             (scalar, or 1-d along a fresh label or along a detector label, extent 0..),     *)
(*             and a material ("flat" | "absorbing")                                           *)
(*   Compute   if the inputs are in the documented domain the implementation produces the map  *)
(*             in one of the two ways a vectorised implementation may (Direct: all detectors   *)
(*             at once, wavelength by wavelength; Chunked: detector slice by detector slice)   *)
(*   Slice     the user slices the result along any label (the position is remembered)         *)
(* Invariants: whatever way was taken and however often the result was sliced, the labelled    *)
(* content of the result is the declared one - each value sits at the labels of the inputs it  *)
(* was computed from - every input pair occurs exactly once, the extents are those of the      *)
(* inputs, a flat material gives identical wavelength slices.                                  *)
EXTENDS Growth_LayoutDefs, TLC, Json, IOUtils, SequencesExt

CONSTANTS DetOrders,     \* set of label sequences for detector_position
          SizeChoices,   \* extents of detector dimensions
          WlDims,        \* labels for the wavelength dimension
          WlSizes,       \* extents of the wavelength array (0 = empty)
          Bug            \* "none" | "mislabelled_chunks"

VARIABLES phase, det, wl, mat, res, fixed
vars == <<phase, det, wl, mat, res, fixed>>

WlVals(n) == IF n <= 1 THEN {[k \in 1..n |-> 1]} ELSE {[k \in 1..n |-> k], [k \in 1..n |-> IF k = n THEN 1 ELSE k]}   \* distinct / first = last
Wavelengths ==
    {[mode |-> "scalar", dim |-> "", n |-> 1, vals |-> <<1>>]}
    \cup UNION { {[mode |-> "array", dim |-> d, n |-> n, vals |-> v] : v \in WlVals(n)} : d \in WlDims, n \in WlSizes }
Detectors ==
    UNION { {DetInput(o, s) : s \in [RangeOf(o) -> SizeChoices]} : o \in DetOrders }

NoRes == [order |-> <<>>, size |-> <<>>, buf |-> <<0>>]
Init == /\ phase = "inputs" /\ det \in Detectors /\ wl \in Wavelengths /\ mat \in {"flat", "absorbing"}
        /\ res = NoRes /\ fixed = <<>>

ComputeDirect ==
    /\ phase = "inputs" /\ Outcome(det, wl) = "map"
    /\ res' = Direct(det, wl) /\ phase' = "result" /\ UNCHANGED <<det, wl, mat, fixed>>
ComputeChunked ==
    /\ phase = "inputs" /\ Outcome(det, wl) = "map" /\ Len(det.order) >= 1
    /\ res' = (IF Bug = "mislabelled_chunks" THEN ChunkedMislabelled(det, wl) ELSE Chunked(det, wl))
    /\ phase' = "result" /\ UNCHANGED <<det, wl, mat, fixed>>
Refuse ==
    /\ phase = "inputs" /\ Outcome(det, wl) # "map"
    /\ phase' = "refused" /\ UNCHANGED <<det, wl, mat, res, fixed>>
Slice(label, i) ==
    /\ phase = "result" /\ label \in RangeOf(res.order) /\ i \in 1..res.size[label]
    /\ res' = SliceAt(res, label, i)
    /\ fixed' = Append(fixed, <<label, i>>)
    /\ UNCHANGED <<phase, det, wl, mat>>
SliceAny == \E li \in {<<label, i>> : label \in RangeOf(res.order), i \in 1..10} : Slice(li[1], li[2])
Next == ComputeDirect \/ ComputeChunked \/ Refuse \/ SliceAny
Spec == Init /\ [][Next]_vars

-----------------------------------------------------------------------------
InResult == phase = "result"
FixedLabels == {fixed[k][1] : k \in 1..Len(fixed)}
FixedAt(l) == (CHOOSE k \in 1..Len(fixed) : fixed[k][1] = l) \* label occurs once: it disappears when sliced
Full(f) == [l \in ResultLabels(det, wl) |-> IF l \in FixedLabels THEN fixed[FixedAt(l)][2] ELSE f[l]]
ExpectedAt(f) == LET g == Full(f) IN <<At(det, [l \in RangeOf(det.order) |-> g[l]]), g[wl.dim]>>

ResultWellFormed == InResult => WellFormed(res)
LabelsAreInputLabels == InResult => RangeOf(res.order) = ResultLabels(det, wl) \ FixedLabels
ExtentsAreInputExtents == InResult => \A l \in RangeOf(res.order) : res.size[l] = ResultSize(det, wl)[l]
ValuesSitAtTheirLabels ==
    InResult => \A f \in IndexSpace(RangeOf(res.order), res.size) : At(res, f) = ExpectedAt(f)
EveryPairOnce ==
    (InResult /\ fixed = <<>>) =>
        /\ Len(res.buf) = Len(det.buf) * wl.n
        /\ RangeOf(res.buf) = RangeOf(det.buf) \X (1..wl.n)
DirectAndChunkedAgree ==
    (InResult /\ fixed = <<>> /\ Len(det.order) >= 1) =>
        /\ SameLabelled(Direct(det, wl), Chunked(det, wl))
        /\ SameLabelled(res, Declared(det, wl, res.order))
FlatMaterialSlicesEqual ==
    (InResult /\ wl.dim \in RangeOf(res.order)) =>
        \A f \in IndexSpace(RangeOf(res.order), res.size) : \A k \in 1..wl.n :
            LET g == [f EXCEPT ![wl.dim] = k]
            IN (Mu(mat, wl.vals[k]) = Mu(mat, wl.vals[f[wl.dim]])) => At(res, g) \in SameValue(mat, wl, At(res, f))
OnlyValidInputsComputed == InResult => Outcome(det, wl) = "map"

-----------------------------------------------------------------------------
(* spec -> code: every input configuration of the model with the documented outcome            *)
LayoutCases ==
    { [ev |-> "layoutcase", det_dims |-> d.order, det_shape |-> Extents(d),
       wl_mode |-> w.mode, wl_dim |-> w.dim, wl_n |-> w.n, wl_vals |-> w.vals,
       outcome |-> Outcome(d, w),
       labels |-> IF Outcome(d, w) = "map" THEN SetToSeq(ResultLabels(d, w)) ELSE <<>>,
       sizes |-> IF Outcome(d, w) = "map" THEN [k \in 1..Cardinality(ResultLabels(d, w)) |->
                     ResultSize(d, w)[SetToSeq(ResultLabels(d, w))[k]]] ELSE <<>>] :
      d \in Detectors, w \in Wavelengths }
ASSUME "LAYOUT_FILE" \in DOMAIN IOEnv =>
    /\ ndJsonSerialize(IOEnv.LAYOUT_FILE, SetToSeq(LayoutCases))
    /\ PrintT(<<"LAYOUTCASES", Cardinality(LayoutCases)>>)
=============================================================================
