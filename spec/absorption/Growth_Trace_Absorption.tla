------------------------ MODULE Growth_Trace_Absorption ------------------------
(* code -> spec for the growth modules Growth_QuadratureTables and Growth_TransmissionLayout:  *)
(* judges recorded observations of the REAL bundled tables, of Cylinder.quadrature and of      *)
(* compute_transmission_map.  One NDJSON line per observation, every line gets a verdict; a     *)
(* rejected line prints <<"REJECT", line, tid, clause>>, the run ends with <<"DONE", n, nbad>>. *)
(*                                                                                            *)
(* What TLC decides (with the operators of the two Defs modules, the same ones the exhaustive  *)
(* models check):                                                                              *)
(*   table   the symmetry-orbit structure of a tabulated disk rule from the permutations the   *)
(*           generators of its group induce on the (merged) points: images exist, are          *)
(*           permutations, keep the weight class, only the centre is fixed by a rotation,      *)
(*           orbit sizes divide the group order, no listed entry is lost; group and degree     *)
(*           used by the harness are the specification's                                       *)
(*   quad    that the points Cylinder.quadrature returned are the Cartesian product of the     *)
(*           kind's disk table and k line nodes (index pairs recovered by the harness), and    *)
(*           that k is admissible for the physical aspect ratio (KSet) - also when radius and  *)
(*           height are given in different length units (`mixed`)                              *)
(*   kind    Monte-Carlo kinds return the requested number of points, unknown kinds are        *)
(*           refused                                                                           *)
(*   layout  outcome, labels, extents and the provenance of EVERY cell of a transmission map   *)
(*           (the harness decodes from which single-detector / single-wavelength evaluation    *)
(*           each number comes; TLC compares with Declared / SameValue)                        *)
(* Numeric closeness is computed by the harness from exact rationals / mpmath and only         *)
(* reported here as booleans and counts (sum_ok, n_mom_bad, nodes_ok, ...).                    *)
EXTENDS Growth_QuadratureDefs, Growth_LayoutDefs, TLC, Json, IOUtils

Tr == ndJsonDeserialize(IOEnv.TRACE_FILE)

VARIABLES l, nbad
tvars == <<l, nbad>>

-----------------------------------------------------------------------------
IsPerm(p, n) == /\ Len(p) = n /\ \A i \in 1..n : p[i] \in 1..n
                /\ \A i, j \in 1..n : p[i] = p[j] => i = j
RECURSIVE Iter(_, _, _)
Iter(p, i, k) == IF k = 0 THEN i ELSE Iter(p, p[i], k - 1)
RECURSIVE Grow(_, _)
Grow(perms, S) == LET T == S \cup {perms[g][j] : g \in 1..Len(perms), j \in S}
                  IN IF T = S THEN S ELSE Grow(perms, T)

JudgeTable(e) ==
    LET grp == TableGroup(e.name)
        n == e.n_distinct
        ng == Len(e.gens)
    IN  IF e.name \notin TableNames THEN "oracle_unknown_table"
        ELSE IF e.group # grp \/ RangeOf(e.gens) # Generators(grp) \/ Len(e.perms) # ng THEN "oracle_wrong_group"
        ELSE IF e.degree # PublishedDegree(e.name) THEN "oracle_wrong_degree"
        ELSE IF Len(e.wclass) # n \/ Len(e.origin) # n \/ Len(e.mult) # n THEN "oracle_malformed_event"
        ELSE IF ~e.inside_ok THEN "point_outside_unit_disk"
        ELSE IF ~e.pos_ok THEN "weight_not_positive"
        ELSE IF SumSeq(e.mult) # e.n_listed THEN "listed_entries_lost"
        ELSE IF \E g \in 1..ng : \E i \in 1..n : e.perms[g][i] = 0 THEN "image_of_point_missing"
        ELSE IF \E g \in 1..ng : ~IsPerm(e.perms[g], n) THEN "symmetry_is_not_a_permutation"
        ELSE IF \E g \in 1..ng : \E i \in 1..n : e.wclass[e.perms[g][i]] # e.wclass[i] THEN "weights_differ_within_orbit"
        ELSE IF \E g \in 1..ng : \E i \in 1..n : Iter(e.perms[g], i, MatOrder(e.gens[g])) # i THEN "group_relation_broken"
        ELSE IF \E g \in 1..ng : \E i \in 1..n :
                  Det(e.gens[g]) = 1 /\ e.perms[g][i] = i /\ ~e.origin[i] THEN "rotation_fixes_non_centre_point"
        ELSE IF \E i \in 1..n : ExpectedOrder(grp) % Cardinality(Grow(e.perms, {i})) # 0 THEN "orbit_size_does_not_divide_group_order"
        ELSE IF ~e.sum_ok THEN "weights_do_not_sum_to_pi"
        ELSE IF e.n_mom_bad > 0 THEN "moments_up_to_published_degree_wrong"
        ELSE "ok"

JudgeQuad(e) ==
    IF e.kind \notin {"cheap", "medium", "expensive"} THEN "oracle_unknown_kind"
    ELSE IF e.table # TableOfKind(e.kind) \/ e.family # LineFamily(e.kind) THEN "oracle_wrong_table_or_family"
    ELSE IF e.raised THEN "quadrature_raised"
    ELSE IF e.D = 0 \/ e.N % e.D # 0 \/ e.N = 0 THEN "point_count_not_a_multiple_of_the_disk_rule"
    ELSE IF (e.N \div e.D) \notin KSet(e.kind, e.P, e.Q)
         THEN (IF e.mixed THEN "number_of_line_nodes_depends_on_units" ELSE "number_of_line_nodes")
    ELSE IF ~e.nodes_ok THEN "line_nodes_differ_from_family"
    ELSE IF e.full /\ ~IsCartesian(e.di, e.lj, e.D, e.N \div e.D) THEN "not_the_cartesian_product"
    ELSE IF ~e.lw_ok THEN "line_weights_differ_from_family"
    ELSE IF ~e.w_ok THEN "weight_is_not_the_product"
    ELSE "ok"

JudgeKind(e) ==
    IF e.kind = "unknown" THEN (IF e.raised THEN "ok" ELSE "unknown_kind_accepted")
    ELSE IF e.kind \notin {"mc", "mc_tuple1", "mc_n"} THEN "oracle_unknown_kind"
    ELSE IF e.raised THEN "monte_carlo_kind_raised"
    ELSE IF e.N # (IF e.kind = "mc_n" THEN e.n_req ELSE 5000) THEN "monte_carlo_point_count"
    ELSE IF ~e.equal_w THEN "monte_carlo_weights_not_equal"
    ELSE IF ~e.sum_ok THEN "monte_carlo_weights_do_not_sum_to_volume"
    ELSE IF ~e.inside_ok THEN "monte_carlo_point_outside"
    ELSE "ok"

-----------------------------------------------------------------------------
SizeFn(dims, shape) == [lab \in RangeOf(dims) |-> shape[CHOOSE k \in 1..Len(dims) : dims[k] = lab]]
JudgeLayout(e) ==
    LET det == DetInput(e.det_dims, SizeFn(e.det_dims, e.det_shape))
        wl == [mode |-> e.wl_mode, dim |-> e.wl_dim, n |-> e.wl_n, vals |-> e.wl_vals]
        out == Outcome(det, wl)
        rsize == SizeFn(e.res_dims, e.res_shape)
        idx(c) == [lab \in RangeOf(e.res_dims) |-> c.i[CHOOSE k \in 1..Len(e.res_dims) : e.res_dims[k] = lab]]
        want(c) == LET f == idx(c)
                   IN SameValue(e.material, wl, <<At(det, [lab \in RangeOf(det.order) |-> f[lab]]), f[wl.dim]>>)
    IN  IF ~Distinct(e.det_dims) \/ Len(e.det_shape) # Len(e.det_dims) \/ Len(e.wl_vals) # e.wl_n THEN "oracle_malformed_event"
        ELSE IF out = "refuse" THEN (IF e.raised THEN "ok" ELSE "silent_result_for_a_label_used_twice")
        ELSE IF out = "undefined" THEN "ok"        \* outside the documented domain: nothing is demanded
        ELSE IF e.raised THEN "raised_on_documented_input"
        ELSE IF ~Distinct(e.res_dims) \/ RangeOf(e.res_dims) # ResultLabels(det, wl) THEN "result_labels"
        ELSE IF rsize # ResultSize(det, wl) THEN "result_extents"
        ELSE IF ~e.unit_ok THEN "result_not_dimensionless"
        ELSE IF ~e.coords_ok THEN "coordinates_are_not_the_inputs"
        ELSE IF ~e.decoded THEN (IF e.chunk_ok THEN "ok" ELSE "chunked_evaluation_differs")   \* large maps: compared numerically only
        ELSE IF Len(e.cells) # ProdSeq(e.res_shape)
                \/ {idx(e.cells[k]) : k \in 1..Len(e.cells)} # IndexSpace(RangeOf(e.res_dims), rsize) THEN "oracle_cells_incomplete"
        ELSE IF \E k \in 1..Len(e.cells) : RangeOf(e.cells[k].m) # want(e.cells[k]) THEN "value_not_at_the_labels_of_its_inputs"
        ELSE IF ~e.chunk_ok THEN "chunked_evaluation_differs"
        ELSE "ok"

Judge(e) == IF e.ev = "table" THEN JudgeTable(e)
            ELSE IF e.ev = "quad" THEN JudgeQuad(e)
            ELSE IF e.ev = "kind" THEN JudgeKind(e)
            ELSE IF e.ev = "layout" THEN JudgeLayout(e)
            ELSE "unknown_event"

TInit == l = 1 /\ nbad = 0
TNext == /\ l <= Len(Tr)
         /\ l' = l + 1
         /\ LET v == Judge(Tr[l]) IN
            /\ nbad' = IF v = "ok" THEN nbad ELSE nbad + 1
            /\ (v = "ok" \/ PrintT(<<"REJECT", l, Tr[l].tid, v>>))
TSpec == TInit /\ [][TNext]_tvars
Done == (l = Len(Tr) + 1) => PrintT(<<"DONE", l - 1, nbad>>)
=============================================================================
