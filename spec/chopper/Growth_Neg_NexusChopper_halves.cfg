SPECIFICATION Spec
CONSTANTS
  KTicks = 8
  TableLists <- TableQ
  TableDev = 1
  GeoLists <- GeoQ
  GeoDev = 0
  Bug = "halves"
INVARIANT Admitted
INVARIANT PairingInOrder
CHECK_DEADLOCK FALSE
