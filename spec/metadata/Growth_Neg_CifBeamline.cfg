SPECIFICATION Spec
CONSTANTS
  Bug = "facility_beats_source"
  MaxBuilders = 2
INVARIANT SourceWins
CHECK_DEADLOCK FALSE
