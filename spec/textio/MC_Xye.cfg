SPECIFICATION Spec
CONSTANTS
  MaxHeader = 3
  MaxRows = 3
  Part = "all"
  Bug = "none"
INVARIANT TypeOK
INVARIANT TableTotalExclusive
INVARIANT RefusedNotLossy
INVARIANT RefusalIffUnwritable
INVARIANT FileWellFormed
INVARIANT RoundTrip
CHECK_DEADLOCK FALSE
