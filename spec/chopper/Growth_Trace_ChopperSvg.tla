------------------------ MODULE Growth_Trace_ChopperSvg ------------------------
(* Code -> spec.  Judges drawings produced by DiskChopper.make_svg (parsed by                   *)
(* harness/lib_growth_chopper.py into the vocabulary of Growth_ChopperSvgDefs: one NDJSON line  *)
(* per drawing; angles as integer ticks, booleans for what was measured on the coordinates).   *)
(*   slits   as given to DiskChopper (ticks; listing order = label index)                       *)
(*   path    the disk outline: ["M", tick] | ["L", tick, inner] | ["A", tick, inner, large]    *)
(*   marks   ["begin" | "end", idx, tick]                                                       *)
(*   ongrid  every drawn point is within tolerance of a tick direction                          *)
(*   radii   rim arcs on the rim circle, slit arcs / edge marks at radius - slit_height[idx]    *)
(*   sweep   all arcs carry sweep-flag 0 (anticlockwise on the screen)                          *)
(*   tdc, beam   the TDC mark points at tick 0, the beam mark at beam_position                  *)
EXTENDS Growth_ChopperSvgDefs, Json, IOUtils

Tr == ndJsonDeserialize(IOEnv.TRACE_FILE)

VARIABLES l, nbad
tvars == <<l, nbad>>

Judge(e) ==
    IF e.ev # "svg" THEN "unknown_event"
    ELSE IF ~ValidSlits(e.slits, e.K) \/ Len(e.slits) = 0 THEN "driver_error_slits"
    ELSE IF ~e.ongrid THEN "drawn_point_off_the_tick_directions"
    ELSE IF ~WellFormedPath(e.path) THEN "outline_is_not_move_then_arcs_and_radial_edges"
    ELSE IF ~DepthConsistent(e.path) THEN "depth_changes_without_a_radial_edge"
    ELSE IF ~e.sweep THEN "arc_not_anticlockwise"
    ELSE IF ~InnerArcsAreTheSlits(e.path, e.slits, e.K) THEN "arcs_at_slit_depth_are_not_the_slits"
    ELSE IF ~OuterArcsAreTheRest(e.path, e.slits, e.K) THEN "rim_arcs_are_not_the_closed_part_of_the_disk"
    ELSE IF ~ExactlyOneTurn(e.path, e.K) THEN "outline_is_not_exactly_one_turn"
    ELSE IF ~LargeFlagsRight(e.path, e.K) THEN "large_arc_flag_contradicts_the_arc_width"
    ELSE IF ~MarksRight(e.marks, e.slits, e.K) THEN "edge_marks_not_at_slit_begin_and_end"
    ELSE IF ~e.radii THEN "radius_of_rim_or_slit_depth_wrong"
    ELSE IF ~e.tdc THEN "tdc_mark_not_at_the_top"
    ELSE IF ~e.beam THEN "beam_mark_not_at_beam_position"
    ELSE "ok"

TInit == l = 1 /\ nbad = 0
TNext == /\ l <= Len(Tr)
         /\ l' = l + 1
         /\ LET v == Judge(Tr[l]) IN
            /\ nbad' = IF v = "ok" THEN nbad ELSE nbad + 1
            /\ (v = "ok" \/ PrintT(<<"REJECT", l, Tr[l].tid, v>>))
TSpec == TInit /\ [][TNext]_tvars
Done == (l = Len(Tr) + 1) => PrintT(<<"DONE", l - 1, nbad>>)
=============================================================================
