"""ORCID iD check character (growth item, runs as part of C14: author ids written to CIF; deviations are
reported as GROWTH-FINDING, not as violations of C14).

Spec: spec/metadata/Orcid.tla.  TLC (a) exhaustively checks, for all ids with NDigits=5 base digits,
that the accumulator is the ISO 7064 MOD 11-2 weighted sum and that every single-digit substitution
and adjacent transposition changes the check value; (b) simulates real-length (15 digit) ids and
prints each with its expected check value; those are replayed into scippneutron.metadata.ORCIDiD:
the id with the right check character is accepted and normalised to the resolver URL, every other
check character, every single-digit substitution, every adjacent transposition and every structural
damage is rejected with ValueError.
"""
from __future__ import annotations

from .core import MachineryError
from .tlc import require_ok


def _fmt(digits, check):
    s = ''.join(map(str, digits)) + ('X' if check == 10 else str(check))
    return '-'.join(s[i:i + 4] for i in range(0, 16, 4))


def run(ctx, prefix='orcid'):
    from scippneutron.metadata import ORCIDiD

    res = ctx.tlc('metadata/Orcid.tla', 'MC_Orcid.cfg', timeout=600)
    require_ok(ctx, res, 'Orcid model')
    ctx.tlc('metadata/Orcid.tla', 'Neg_Orcid.cfg', expect_error=True, timeout=300)
    n = 400 if ctx.thorough else 80
    sim = ctx.tlc('metadata/Orcid.tla', 'Sim_Orcid.cfg', workers=1, simulate=f'num={n}', depth=16,
                  extra=['-seed', str(ctx.seed + 3)], timeout=600, count=False)
    require_ok(ctx, sim, 'Orcid simulation')
    ids = sim.tagged('ID')
    if len(ids) < n // 2:
        raise MachineryError(f'only {len(ids)} ORCID ids exported')

    def accepted(text):
        try:
            return str(ORCIDiD(text))
        except ValueError:
            return None
        except Exception as e:  # noqa: BLE001
            ctx.growth_finding(f'{prefix}: ORCIDiD raised {type(e).__name__} instead of ValueError', {'text': text})
            return None

    for _, digits, check in ids:
        good = _fmt(digits, check)
        url = 'https://orcid.org/' + good
        for form in (good, url):
            got = accepted(form)
            if got != url:
                ctx.growth_finding(f'{prefix}: valid id rejected or not normalised to the resolver URL',
                              {'id': form, 'got': got})
        for c in range(11):
            if c != check and accepted(_fmt(digits, c)) is not None:
                ctx.growth_finding(f'{prefix}: id with wrong check character accepted', {'id': _fmt(digits, c)})
        for i in range(15):
            for d in range(10):
                if d != digits[i]:
                    bad = list(digits)
                    bad[i] = d
                    if accepted(_fmt(bad, check)) is not None:
                        ctx.growth_finding(f'{prefix}: single-digit substitution accepted', {'id': _fmt(bad, check)})
            if i < 14 and digits[i] != digits[i + 1]:
                bad = list(digits)
                bad[i], bad[i + 1] = bad[i + 1], bad[i]
                if accepted(_fmt(bad, check)) is not None:
                    ctx.growth_finding(f'{prefix}: adjacent transposition accepted', {'id': _fmt(bad, check)})
        for damaged in (good.replace('-', ''), good[:-1], good + '0', good.replace('-', '_', 1),
                        'http://orcid.org/' + good, 'https://orcid.org/x/' + good, good[:4] + good[5:] + '-'):
            if accepted(damaged) is not None:
                ctx.growth_finding(f'{prefix}: structurally damaged id accepted', {'id': damaged})
        ctx.case(nontrivial_id=('orcid', good))
    ctx.sample({'orcid_ids_replayed': len(ids), 'example': _fmt(ids[0][1], ids[0][2])})
    ctx.extra['orcid_ids_replayed'] = len(ids)
