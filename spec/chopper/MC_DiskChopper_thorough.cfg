SPECIFICATION Spec
CONSTANTS
  K = 12
  MaxSlits = 3
  BeamPos = {0, 5}
  Phases <- MC_Phases12
  Ratios <- MC_Ratios
  MinPulses = 1
  MaxPulses = 4
  MaxTurns = 12
  Again = FALSE
  Pick = 0
  Bug = "none"
INVARIANT TypeOK
INVARIANT RejectedIffOverlap
INVARIANT ValidationIgnoresListingOrder
INVARIANT RefusedIffOutOfPhase
INVARIANT OpenBeforeClose
INVARIANT MaximalOpen
INVARIANT OncePerRotation
INVARIANT NoneMissing
INVARIANT DurationIsWidth
INVARIANT DirectCoversPulse
PROPERTY ExpandCoversPulses
INVARIANT ExpandOnePulse
CHECK_DEADLOCK FALSE
