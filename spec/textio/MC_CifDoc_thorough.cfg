SPECIFICATION Spec
CONSTANTS
  PairVals <- MC_PairVals
  LoopVals <- MC_LoopVals
  MaxItems = 2
  MaxCols = 2
  MaxRows = 2
  Bug = "none"
INVARIANT TypeOK
INVARIANT RoundTrip
INVARIANT Ascii
CHECK_DEADLOCK FALSE
