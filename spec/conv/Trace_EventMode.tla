--------------------------- MODULE Trace_EventMode ---------------------------
(* Judges recorded event-mode conversions against EventModeDefs.  One NDJSON line per        *)
(* convert() call on a binned data array; every line is judged (total verdicts):             *)
(*     <<"REJECT", line, tid, clause>> per bad event, <<"DONE", n, nbad>> at the end.        *)
(*                                                                                           *)
(* Event: kind, R, C, N, bg, en  the layout (see EventModeDefs)                              *)
(*        out    "ok" | "unsupported" (the dense conversion refuses the same operands: the    *)
(*               quantifier only covers supported dtypes) | "raised" | "malformed" (what came  *)
(*               back is not a binned array over the same grid with a consistent buffer)      *)
(*        hist   the history of the judged call (EventMode.tla, action Recall: the property    *)
(*               holds for every call, whatever was called before or is called afterwards):    *)
(*               "first" | "after_same_call" (the same object was converted once before) |     *)
(*               "after_other_target" | "before_other_call" (another object of the same shape   *)
(*               is converted before the result is looked at) | "replay" (the case again at    *)
(*               the end of the run, in another order)                                         *)
(*        bins   per bin (row-major): r = per event the set of <<pixel, slot>> ids whose      *)
(*               dense value (implementation's dense conversion of the pixel x slot table)    *)
(*               is bit-identical to the event's converted value;  w, v, x = per event the    *)
(*               slot id recovered from weight, variance and the unrelated event coordinate   *)
(*        edges  per pixel, per edge: set of <<pixel, edge>> ids of the dense edge table      *)
(*        same   booleans from sc.identical / array_equal snapshots: masks, evmasks,          *)
(*               coords (unrelated dense coordinates), evcoord (the origin event coordinate,  *)
(*               if kept, is unchanged), input (input object and its whole event buffer unchanged)   *)
EXTENDS EventModeDefs, TLC, Json, IOUtils

Tr == ndJsonDeserialize(IOEnv.TRACE_FILE)

VARIABLES l, nbad
tvars == <<l, nbad>>

ToSet(s) == { s[i] : i \in DOMAIN s }

Hists == {"first", "after_same_call", "after_other_target", "before_other_call", "replay"}
After(v, hist) == IF v = "ok" \/ hist = "first" THEN v ELSE v \o "_" \o hist

Judge1(e) ==
    LET L == [kind |-> e.kind, R |-> e.R, C |-> e.C, N |-> e.N, bg |-> e.bg, en |-> e.en]
        B == NBins(L)
    IN
    IF ~WellFormed(L) \/ e.hist \notin Hists THEN "layout_not_well_formed"
    ELSE IF e.out = "unsupported" THEN "ok"
    ELSE IF e.out = "malformed" THEN "result_malformed"
    ELSE IF e.out # "ok" THEN "event_mode_raised_but_dense_converts"
    ELSE IF Len(e.bins) # B THEN "bin_count"
    ELSE IF \E b \in 1..B : Len(e.bins[b].x) # L.en[b] - L.bg[b] \/ Len(e.bins[b].r) # L.en[b] - L.bg[b]
        THEN "bin_membership_count"
    ELSE IF \E b \in 1..B : ToSet(e.bins[b].x) # ToSet(ExpectedIds(L, b)) THEN "bin_membership"
    ELSE IF \E b \in 1..B : e.bins[b].x # ExpectedIds(L, b) THEN "event_order"
    ELSE IF \E b \in 1..B : e.bins[b].w # ExpectedIds(L, b) THEN "weights"
    ELSE IF \E b \in 1..B : e.bins[b].v # ExpectedIds(L, b) THEN "variances"
    ELSE IF \E b \in 1..B : \E k \in 1..(L.en[b] - L.bg[b]) :
                ExpectedResult(L, b)[k] \notin ToSet(e.bins[b].r[k])
        THEN "event_value_differs_from_dense"
    ELSE IF L.kind = "pt" /\ (Len(e.edges) # L.R \/ \E p \in 1..L.R : Len(e.edges[p]) # L.C + 1)
        THEN "edge_coordinate_shape"
    ELSE IF L.kind = "pt" /\ \E p \in 1..L.R : \E j \in 1..(L.C + 1) :
                ExpectedEdge(L, p, j) \notin ToSet(e.edges[p][j])
        THEN "edge_value_differs_from_dense"
    ELSE IF ~e.same.formula THEN "integer_typed_events_not_converted_as_the_same_numbers_in_double_precision"
    ELSE IF ~e.same.evcoord THEN "origin_event_coordinate_changed"
    ELSE IF ~e.same.evother THEN "event_coordinate_unrelated_to_this_conversion_changed_or_dropped"
    ELSE IF ~e.same.masks THEN "masks_changed"
    ELSE IF ~e.same.evmasks THEN "event_masks_changed"
    ELSE IF ~e.same.coords THEN "unrelated_coordinates_changed"
    ELSE IF ~e.same.input THEN "input_modified"
    ELSE "ok"

Judge(e) == After(Judge1(e), e.hist)

TInit == l = 1 /\ nbad = 0
TNext == /\ l <= Len(Tr)
         /\ l' = l + 1
         /\ LET v == Judge(Tr[l]) IN
            /\ nbad' = IF v = "ok" THEN nbad ELSE nbad + 1
            /\ (v = "ok" \/ PrintT(<<"REJECT", l, Tr[l].tid, v>>))
TSpec == TInit /\ [][TNext]_tvars
Done == (l = Len(Tr) + 1) => PrintT(<<"DONE", l - 1, nbad>>)
=============================================================================
