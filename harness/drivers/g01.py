from .. import lib_growth_chopper

def run(ctx):
    lib_growth_chopper.run(ctx)
