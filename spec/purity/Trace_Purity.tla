---------------------------- MODULE Trace_Purity ----------------------------
(* Replays recorded histories of real providers and recorded calls of real entry points   *)
(* through the actions of Purity (Bug = "none") and compares what the implementation       *)
(* showed with what the specification allows.  One NDJSON line per history / per call.      *)
(*   history line: [kind |-> "hist", tid, ops |-> << [op, a, pristine] ... >>]              *)
(*   call line   : [kind |-> "call", tid, cfg |-> << <<u,d>> ... >>, unchanged |-> <<BOOLEAN...>>] *)
EXTENDS Purity, Json, IOUtils

Tr == ndJsonDeserialize(IOEnv.TRACE_FILE)

VARIABLES l, j, verdict, nbad
tvars == <<l, j, verdict, nbad>>

Reset == /\ heap' = <<>> /\ store' = [k \in Keys |-> 0] /\ handles' = <<>> /\ obs' = <<>> /\ nops' = 0
         /\ args' = [s \in Slots |-> 0] /\ cfg' = [s \in Slots |-> <<1, 1>>] /\ phase' = "idle"

TInit == Init /\ l = 1 /\ j = 1 /\ verdict = "ok" /\ nbad = 0

Finish(v) ==
    /\ Reset
    /\ l' = l + 1 /\ j' = 1 /\ verdict' = "ok"
    /\ nbad' = IF v = "ok" THEN nbad ELSE nbad + 1
    /\ (v = "ok" \/ PrintT(<<"REJECT", l, Tr[l].tid, v>>))

HistStep ==
    /\ l <= Len(Tr) /\ Tr[l].kind = "hist"
    /\ LET ops == Tr[l].ops IN
       IF j > Len(ops) THEN Finish(verdict)
       ELSE LET o == ops[j] IN
            /\ \/ o.op = "L" /\ Lookup(o.a)
               \/ o.op = "O" /\ Observe(o.a)
               \/ o.op = "M" /\ Mutate(o.a)
            /\ j' = j + 1 /\ l' = l /\ nbad' = nbad
            /\ verdict' =
                 IF verdict # "ok" THEN verdict
                 ELSE IF o.op = "L" /\ obs'[Len(obs')].pristine # o.pristine
                   THEN "lookup_not_fresh"
                 ELSE IF o.op = "O" /\ obs'[Len(obs')].pristine # o.pristine
                   THEN IF Mutated(o.a) THEN "mutated_handle_reads_pristine" ELSE "observation_not_stable"
                 ELSE "ok"

CallStep ==
    /\ l <= Len(Tr) /\ Tr[l].kind = "call"
    /\ LET e == Tr[l] IN
       \/ /\ phase = "idle" /\ j = 1
          /\ Call([s \in Slots |-> IF s <= Len(e.cfg) THEN <<e.cfg[s][1], e.cfg[s][2]>> ELSE <<2, 2>>])
          /\ j' = 2 /\ UNCHANGED <<l, verdict, nbad>>
       \/ /\ phase = "called" /\ Kernel
          /\ j' = 3 /\ UNCHANGED <<l, verdict, nbad>>
       \/ /\ phase = "done"
          /\ Finish(IF \A s \in 1..Len(e.unchanged) : e.unchanged[s] = (args[s] = 0)
                    THEN "ok" ELSE "argument_modified")

TNext == HistStep \/ CallStep
TSpec == TInit /\ [][TNext]_<<vars, tvars>>
Done == (l = Len(Tr) + 1) => PrintT(<<"DONE", l - 1, nbad>>)
=============================================================================
