-------------------------- MODULE Trace_Kinematics --------------------------
(* Judge of recorded executions of the real elastic kernels (C01).  One NDJSON line per     *)
(* event; every line gets a verdict; <<"REJECT", line, tid, clause>> per bad event.          *)
(*                                                                                            *)
(*  ev = "graph" : the real table elastic(origin): list of <<key, kernel name>>              *)
(*  ev = "call"  : one call of the kernel the real graph `o` wires to `target`, inside walk   *)
(*                 `tid`; discrete observations (kernel name, units, dtypes, dims) are        *)
(*                 judged here against the specification's tables; numeric closeness of the   *)
(*                 returned floats to the specification's exact value is computed by the      *)
(*                 harness (mpmath) and arrives as booleans that must be TRUE.                *)
(*                 Hardening round: the layout the operands were handed over in, whether an    *)
(*                 operand was integer-typed, whether data / result are event (binned) data and *)
(*                 whether the call belongs to the replay at the end of the run are recorded;   *)
(*                 a refusal (scipp DTypeError) is allowed for integer operands only, an event  *)
(*                 operand must give an event result, and the precision class of an integer     *)
(*                 data operand is double.                                                      *)
(*  ev = "agree" : two routes of the specification's graph evaluated by the real kernels on    *)
(*                 the same input; both must be routes of EdgeTable to the same quantity.      *)
EXTENDS KinematicsDefs, TLC, Json, IOUtils

Tr == ndJsonDeserialize(IOEnv.TRACE_FILE)

VARIABLES l, nbad
tvars == <<l, nbad>>

SeqToSet(q) == { q[i] : i \in 1..Len(q) }

JudgeGraph(e) ==
    IF e.origin \notin Origins THEN "unknown_origin"
    ELSE IF { <<p[1], p[2]>> : p \in SeqToSet(e.edges) } # AllEdges(e.origin) THEN "graph_table_differs"
    ELSE "ok"

Layouts == {"scalar", "1d", "bcast", "bcast/scalar-data", "perpixel", "perpixel/T", "perpixel/view", "perpixel/slice", "binned", "binned/gaps"}
DTypesIn == {"float64", "float32", "int64", "int32"}
IsIntDType(d) == d \in {"int64", "int32"}

JudgeCall(e, prev) ==
    IF e.o \notin Origins \/ e.target \notin DOMAIN EdgeTable[e.o] THEN "no_such_edge_in_spec"
    ELSE IF e.layout \notin Layouts \/ e.dt_in \notin DTypesIn THEN "unknown_layout_or_dtype"
    ELSE IF IsIntDType(e.dt_in) /\ ~e.has_int THEN "event_inconsistent"
    ELSE IF e.binned_in # (e.layout \in {"binned", "binned/gaps"}) THEN "event_inconsistent"
    ELSE LET ker == EdgeTable[e.o][e.target] IN
         IF e.status = "missing" THEN "edge_missing_in_real_graph"
    ELSE IF e.kernel # ker THEN "kernel_wired_to_wrong_node"
    ELSE IF KernelSig[ker].in # e.kind_in THEN "walk_takes_edge_from_wrong_coordinate"
    ELSE IF prev.tid = e.tid /\ prev.ev = "call" /\ prev.target # e.kind_in THEN "walk_not_continuous"
    ELSE IF e.status = "raised" THEN "kernel_raised"
    ELSE IF e.status = "unsupported" THEN (IF e.has_int THEN "ok" ELSE "float_operands_refused")
    ELSE IF e.status # "ok" THEN "unknown_status"
    ELSE IF SeqToSet(e.params) # KernelSig[ker].aux \cup {e.kind_in} THEN "kernel_signature"
    ELSE IF e.unit_out # OutUnit(e.target, e.unit_in) THEN "output_unit"
    ELSE IF e.dt_out # OutDType(e.dt_in) THEN "output_dtype"
    ELSE IF e.binned_out # e.binned_in THEN "result_layout"
    ELSE IF ~e.dims_ok THEN "output_dims"
    ELSE IF ~e.finite THEN "non_finite_result"
    ELSE IF ~e.close THEN "value_differs_from_definition"
    ELSE IF ~e.rt_ok THEN "round_trip"
    ELSE IF ~e.qd_ok THEN "Q_times_d_not_2pi"
    ELSE "ok"

(* a route is a sequence of <<origin graph, target>> starting from coordinate `from` *)
RECURSIVE IsRoute(_, _, _)
IsRoute(from, r, to) ==
    IF Len(r) = 0 THEN from = to
    ELSE LET o == r[1][1]  tg == r[1][2] IN
         /\ o \in Origins /\ tg \in DOMAIN EdgeTable[o]
         /\ KernelSig[EdgeTable[o][tg]].in = from
         /\ IsRoute(tg, Tail(r), to)

JudgeAgree(e) ==
    IF ~(\A i \in 1..Len(e.routes) : IsRoute(e.from, e.routes[i], e.target)) THEN "not_routes_of_the_graph"
    ELSE IF Len(e.routes) < 2 THEN "needs_two_routes"
    ELSE IF ~e.agree THEN "routes_disagree"
    ELSE "ok"

Judge(e, prev) == IF e.ev = "graph" THEN JudgeGraph(e)
                  ELSE IF e.ev = "call" THEN JudgeCall(e, prev)
                  ELSE IF e.ev = "agree" THEN JudgeAgree(e)
                  ELSE "unknown_event"

NoPrev == [tid |-> -1, ev |-> "none", target |-> "none"]

TInit == l = 1 /\ nbad = 0
TNext == /\ l <= Len(Tr)
         /\ l' = l + 1
         /\ LET v == Judge(Tr[l], IF l > 1 THEN Tr[l-1] ELSE NoPrev) IN
            /\ nbad' = IF v = "ok" THEN nbad ELSE nbad + 1
            /\ (v = "ok" \/ PrintT(<<"REJECT", l, Tr[l].tid, v>>))
TSpec == TInit /\ [][TNext]_tvars
Done == (l = Len(Tr) + 1) => PrintT(<<"DONE", l - 1, nbad>>)
=============================================================================
