------------------------ MODULE Growth_Trace_MaskingTool ------------------------
(* Code -> spec.  Judges recorded sessions with a real scippneutron.MaskingTool (driven without  *)
(* a display by harness/lib_growth_masking.py; one NDJSON line per user action) against the       *)
(* operators of Growth_MaskingToolDefs.  The judge keeps the specified tool state of the session  *)
(* and advances it with ApplyStep; every event is compared with what the specification says can  *)
(* be observed after it.  Lines:                                                                  *)
(*   [ev |-> "new",  tid, nx, ny, nd, obs]     a fresh tool on an (nx+1) x (ny+1) grid (nd = 1, 2) *)
(*   [ev |-> "step", tid, a, obs]              a: the action as in ApplyStep; positions doubled    *)
(*        "move" carries at4 (position of the grabbed vertex, quadrupled) instead of the handle   *)
(*   obs: active    pressed buttons (list)                                                         *)
(*        enabled   buttons that are not disabled (list)                                           *)
(*        visible   "yes" | "no" | "mixed": are the persisted shapes drawn                         *)
(*        save      save button enabled                                                            *)
(*        doc       get_masks() as a list of [axes, counter, kind, x, y] (bounds doubled)           *)
(*        masks     the masks of masking_node() as lists of point numbers (any order)              *)
(*        union     the union of all masks as seen on the data                                     *)
(*        shown     the union of the masks on the data the figure has drawn last                   *)
(*        intact    displayed data / coordinates are those of the input, the input is unmodified   *)
(*        out       [asked, file, doc] of a save, else the NoOut record                            *)
(* Every event gets a verdict: <<"REJECT", line, tid, clause>> per bad one, <<"DONE", n, nbad>>.   *)
EXTENDS Integers, Sequences, FiniteSets, TLC, Json, IOUtils

D(nx, ny, nd) == INSTANCE Growth_MaskingToolDefs WITH NX <- nx, NY <- ny, NDim <- nd, Bug <- "none"

DObs(c, s, o) == D(c.nx, c.ny, c.nd)!Obs(s, o)
DAllowed(c, k) == D(c.nx, c.ny, c.nd)!Allowed(k)
DApply(c, s, a) == D(c.nx, c.ny, c.nd)!ApplyStep(s, a)
DOut(c, s, a) == D(c.nx, c.ny, c.nd)!OutOf(s, a)
DInit == D(1, 1, 1)!Init0                 \* (the initial state and NoOut do not depend on the grid)
DNoOut == D(1, 1, 1)!NoOut

Tr == ndJsonDeserialize(IOEnv.TRACE_FILE)

VARIABLES l, nbad, cur     \* cur: [tid, nx, ny, nd, s] the session being followed
tvars == <<l, nbad, cur>>

ToSet(q) == { q[i] : i \in 1..Len(q) }
KindsL == {"rectangle", "vspan", "hspan"}

(* the handle a grabbed vertex stands for: a corner if a corner is at that position *)
RawHandles(k) == IF k = "rectangle" THEN ((0..2) \X (0..2)) \ {<<0, 0>>}
                 ELSE IF k = "vspan" THEN {<<1, 0>>, <<2, 0>>} ELSE {<<0, 1>>, <<0, 2>>}
HandlesAt(c, k, g, at4) ==
    { h \in RawHandles(k) :
        LET p == D(c.nx, c.ny, c.nd)!HandlePos4(g, h) IN
        /\ (k # "hspan" => p[1] = at4[1])
        /\ (k # "vspan" => p[2] = at4[2]) }
HandleFor(c, k, g, at4) ==
    LET H == HandlesAt(c, k, g, at4)
        C == { h \in H : h[1] # 0 /\ h[2] # 0 }
    IN  IF C # {} THEN CHOOSE h \in C : TRUE ELSE CHOOSE h \in H : TRUE

ValidShape(c, a) == a.k \in KindsL /\ a.i \in 1..Len(c.s.shapes[a.k])
(* is the logged action one the specification gives a verdict on (else the driver is at fault) *)
Known(c, a) ==
    CASE a.op \in {"activate", "deactivate"} -> a.k \in KindsL
      [] a.op = "click" -> TRUE
      [] a.op = "move" -> ValidShape(c, a)
      [] a.op \in {"drag", "remove"} -> ValidShape(c, a)
      [] a.op \in {"toggle", "save"} -> TRUE
      [] a.op \in {"setname", "saveas"} -> TRUE
      [] OTHER -> FALSE

WithHandle(c, a) ==
    IF a.op = "move"
    THEN [op |-> "move", k |-> a.k, i |-> a.i, x |-> a.x, y |-> a.y,
          h |-> HandleFor(c, a.k, c.s.shapes[a.k][a.i], a.at4)]
    ELSE a

Compare(c, s2, o, obs) ==
    LET want == DObs(c, s2, o)
        wdoc == want.doc
        gdoc == obs.doc
        allowed == { k \in KindsL : DAllowed(c, k) }
    IN  IF ToSet(obs.active) # want.active THEN "pressed_buttons_differ"
        ELSE IF ToSet(obs.enabled) # allowed THEN "enabled_buttons_differ"
        ELSE IF obs.save # want.save THEN "save_button_enabled_differs"
        ELSE IF obs.visible # (IF want.visible THEN "yes" ELSE "no") THEN "shapes_shown_differs"
        ELSE IF Len(gdoc) # Len(wdoc) THEN "document_length_differs"
        ELSE IF \E n \in 1..Len(wdoc) : gdoc[n].kind # wdoc[n].kind THEN "document_kinds_or_order_differ"
        ELSE IF \E n \in 1..Len(wdoc) : gdoc[n].axes # wdoc[n].axes \/ gdoc[n].counter # wdoc[n].counter
            THEN "document_names_differ"
        ELSE IF \E n \in 1..Len(wdoc) : gdoc[n].x # wdoc[n].x \/ gdoc[n].y # wdoc[n].y THEN "document_bounds_differ"
        ELSE IF Len(obs.masks) # Len(want.masks) THEN "number_of_masks_differs"
        ELSE IF { ToSet(obs.masks[n]) : n \in 1..Len(obs.masks) } # ToSet(want.masks) THEN "masks_differ"
        ELSE IF ToSet(obs.union) # want.union THEN "union_of_masks_differs"
        ELSE IF ToSet(obs.shown) # want.union THEN "figure_shows_other_masks"
        ELSE IF ~obs.intact THEN "data_or_input_changed"
        ELSE IF obs.out.asked # want.out.asked THEN "driver_error_out"
        ELSE IF obs.out.file # want.out.file THEN "saved_file_name_differs"
        ELSE IF Len(obs.out.doc) # Len(want.out.doc) THEN "saved_document_differs"
        ELSE IF \E n \in 1..Len(want.out.doc) : obs.out.doc[n] # want.out.doc[n] THEN "saved_document_differs"
        ELSE "ok"

(* verdict and the session state after the event *)
Judge(e) ==
    IF e.ev = "new" THEN
        LET c == [tid |-> e.tid, nx |-> e.nx, ny |-> e.ny, nd |-> e.nd, s |-> DInit]
        IN  <<Compare(c, c.s, DNoOut, e.obs), c>>
    ELSE IF e.ev # "step" THEN <<"unknown_event", cur>>
    ELSE IF e.tid # cur.tid THEN <<"driver_error_session", cur>>
    ELSE IF ~Known(cur, e.a) THEN <<"driver_error_action", cur>>
    ELSE IF e.a.op = "move" /\ HandlesAt(cur, e.a.k, cur.s.shapes[e.a.k][e.a.i], e.a.at4) = {}
        THEN <<"no_vertex_where_the_shape_should_have_one", cur>>
    ELSE LET a == WithHandle(cur, e.a)
             s2 == DApply(cur, cur.s, a)
             o == DOut(cur, cur.s, a)
         IN  <<Compare(cur, s2, o, e.obs), [cur EXCEPT !.s = s2]>>

NoSession == [tid |-> -1, nx |-> 1, ny |-> 1, nd |-> 1, s |-> DInit]
TInit == l = 1 /\ nbad = 0 /\ cur = NoSession
TNext == /\ l <= Len(Tr)
         /\ l' = l + 1
         /\ LET v == Judge(Tr[l]) IN
            /\ nbad' = IF v[1] = "ok" THEN nbad ELSE nbad + 1
            /\ cur' = v[2]
            /\ (v[1] = "ok" \/ PrintT(<<"REJECT", l, Tr[l].tid, v[1]>>))
TSpec == TInit /\ [][TNext]_tvars
Done == (l = Len(Tr) + 1) => PrintT(<<"DONE", l - 1, nbad>>)
=============================================================================
