-------------------- MODULE Growth_MC_TransmissionLayout --------------------
(* bounds for Growth_TransmissionLayout (tuples cannot be written in a cfg) *)
EXTENDS Growth_TransmissionLayout

MC_DetOrders == {<<>>, <<"a">>, <<"a", "b">>, <<"b", "a">>}
MC_DetOrdersThorough == MC_DetOrders \cup {<<"a", "b", "c">>, <<"c", "a", "b">>}
=============================================================================
