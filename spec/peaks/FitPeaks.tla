------------------------------ MODULE FitPeaks ------------------------------
(* Peak fitting and removal (scippneutron.peaks.fit_peaks, remove_peaks) as four small     *)
(* state machines that share nothing but the definitions of FitPeaksDefs.  A behaviour     *)
(* belongs to exactly one part (variable `part`); the variables of the other parts idle.   *)
(*                                                                                          *)
(*  windows : raw windows (centre +/- width/2)  --Separate-->  --Clip-->  done              *)
(*  loop    : for each peak estimate, attempts in the documented order; too few points =>  *)
(*            "window_too_narrow" without a fit; first success wins, else first attempt    *)
(*  assess  : the requirement cascade, stage by stage                                      *)
(*  remove  : copy, then subtract every successful peak inside its window                  *)
(*                                                                                          *)
(* `Bug` selects a wrong variant of one operator (negative controls):                      *)
(*  "clip_first"  windows are clipped before they are separated from the neighbours        *)
(*  "guess_first" the initial guess runs before the point-count guard and raises when the  *)
(*                window holds fewer than GuessMin points (an exception ends the call)     *)
(*  "nan_passes"  the p-value test is `p < min` so that an undefined p passes              *)
(*  "no_copy"     removal works on the caller's buffer                                     *)
(*  "all_results" removal also subtracts unsuccessful results                              *)
(*  "narrow_by_extent" (hardening round) the point-count guard compares the extent of the  *)
(*                window in coordinate units with the parameter count (a hidden absolute   *)
(*                scale) instead of counting the points the window holds                   *)
EXTENDS FitPeaksDefs, TLC

CONSTANTS Parts, Bug,
          \* windows
          EstVals, MaxEst, Widths, Factors, DataLo, DataHi, DataStep, GuardParams,
          \* loop
          PkParams, BkParams, NptsVals, MaxPeaks, GuessMin,
          \* remove
          RN, RVals, RMaxRes, RAmps

VARIABLES part, w, l, a, r
vars == <<part, w, l, a, r>>

Idle == "idle"

-----------------------------------------------------------------------------
(* windows *)
SortedSeqs(S, n) == {s \in UNION {[1..k -> S] : k \in 1..n} :
                        \A i \in 1..(Len(s) - 1) : s[i] <= s[i+1]}

WConfigs == {c \in [ests : SortedSeqs(EstVals, MaxEst), width : Widths, lo : {DataLo}, hi : {DataHi},
                    step : {DataStep}, fn : {f[1] : f \in Factors}, fd : {f[2] : f \in Factors}] :
                <<c.fn, c.fd>> \in Factors}

InitW == w \in {[cfg |-> c, phase |-> "raw", wins |-> [i \in 1..NEst(c) |-> RawWindow(c, i)], narrow |-> <<>>] :
                  c \in WConfigs}

SeparateStep ==
    /\ w.phase = (IF Bug = "clip_first" THEN "clipped" ELSE "raw")
    /\ w' = [w EXCEPT !.wins = [i \in 1..NEst(w.cfg) |-> SeparateWindow(w.cfg, w.wins[i], i)],
                      !.phase = (IF Bug = "clip_first" THEN "done" ELSE "separated")]

ClipStep ==
    /\ w.phase = (IF Bug = "clip_first" THEN "raw" ELSE "separated")
    /\ w' = [w EXCEPT !.wins = [i \in 1..NEst(w.cfg) |-> ClipWindow(w.cfg, w.wins[i])],
                      !.phase = (IF Bug = "clip_first" THEN "clipped" ELSE "done")]

(* the point-count guard of every window (a fit with GuardParams parameters) *)
GuardStep ==
    /\ w.phase = "done"
    /\ w' = [w EXCEPT !.phase = "guarded",
                      !.narrow = [i \in 1..NEst(w.cfg) |->
                                    IF Bug = "narrow_by_extent"
                                    THEN w.wins[i][2] - w.wins[i][1] < GuardParams
                                    ELSE NPointsHalfOpen(w.cfg, w.wins[i]) < GuardParams]]

NextW == part = "windows" /\ (SeparateStep \/ ClipStep \/ GuardStep) /\ UNCHANGED <<part, l, a, r>>

WDone == part = "windows" /\ w.phase \in {"done", "guarded"}
WGuarded == part = "windows" /\ w.phase = "guarded"

WConfigsExact == part = "windows" => (ExactCfg(w.cfg) /\ SortedEsts(w.cfg))
WindowsInsideRange == WDone => WindowsInsideRangeOf(w.cfg, w.wins)
WindowContainsEstimate == WDone => WindowContainsEstimateOf(w.cfg, w.wins)
NeighbourDistance == WDone => NeighbourDistanceOf(w.cfg, w.wins)
OneWindowPerEstimate == part = "windows" => Len(w.wins) = NEst(w.cfg)
WindowsAreDeclarative == WDone => w.wins = WindowsOf(w.cfg)
(* an estimate inside the data whose window was not cut keeps the requested width          *)
UncutWindowHasWidth ==
    WDone => \A i \in 1..NEst(w.cfg) :
        LET raw == RawWindow(w.cfg, i)
        IN (raw = SeparateWindow(w.cfg, raw, i) /\ raw = ClipWindow(w.cfg, raw))
             => w.wins[i][2] - w.wins[i][1] = w.cfg.width

(* the guard is decided by the points the window holds: consistent with the verdict that    *)
(* the trace judge demands of recorded results                                              *)
NarrowDecidedByPoints ==
    WGuarded => \A i \in 1..NEst(w.cfg) :
        NarrowVerdict(NPointsMin(w.cfg, w.wins[i]), NPointsMax(w.cfg, w.wins[i]), GuardParams,
                      IF w.narrow[i] THEN "window_too_narrow" ELSE "fitted") = "ok"
PointCountsConsistent ==
    WDone => \A i \in 1..NEst(w.cfg) :
        LET lo == NPointsMin(w.cfg, w.wins[i]) hi == NPointsMax(w.cfg, w.wins[i])
        IN /\ lo <= NPointsHalfOpen(w.cfg, w.wins[i]) /\ NPointsHalfOpen(w.cfg, w.wins[i]) <= hi /\ hi <= lo + 2
           /\ (w.wins[i][1] > w.wins[i][2] => hi = 0)

-----------------------------------------------------------------------------
(* loop *)
NB == Len(BkParams)
NCombos == Len(PkParams) * NB
ComboParams(k) == PkParams[ComboAt(k, NB)[1]] + BkParams[ComboAt(k, NB)[2]]
NpsSeq == [k \in 1..NCombos |-> ComboParams(k)]
Verdicts == {"success", "rejected", "error"}

InitL == l \in {[npts |-> n, p |-> 1, k |-> 1, hist |-> <<>>, fitted |-> <<>>, cand |-> <<>>,
                 hists |-> <<>>, fitteds |-> <<>>, res |-> <<>>, crashed |-> FALSE] :
                  n \in UNION {[1..m -> NptsVals] : m \in 1..MaxPeaks}}

NPeaksL == Len(l.npts)

Attempt(v) ==
    LET n == l.npts[l.p]
        np == ComboParams(l.k)
        fits == AttemptFits(n, np)
        out == AttemptOutcome(n, np, v)
        hist2 == Append(l.hist, out)
        fitted2 == Append(l.fitted, fits)
        cand2 == IF l.cand = <<>> THEN <<[combo |-> l.k, outcome |-> out]>> ELSE l.cand
        finish(c, o) == [l EXCEPT !.res = Append(l.res, [peak |-> l.p, combo |-> c, outcome |-> o]),
                                  !.hists = Append(l.hists, hist2),
                                  !.fitteds = Append(l.fitteds, fitted2),
                                  !.hist = <<>>, !.fitted = <<>>, !.cand = <<>>,
                                  !.p = l.p + 1, !.k = 1]
    IN  /\ ~l.crashed /\ l.p <= NPeaksL
        /\ (fits \/ v = "rejected")          \* no verdict is consulted when no fit is run
        /\ IF Bug = "guess_first" /\ n < GuessMin
             THEN l' = [l EXCEPT !.crashed = TRUE]       \* the exception ends the whole call
           ELSE IF out = "success" THEN l' = finish(l.k, "success")
           ELSE IF l.k = NCombos THEN l' = finish(cand2[1].combo, cand2[1].outcome)
           ELSE l' = [l EXCEPT !.hist = hist2, !.fitted = fitted2, !.cand = cand2, !.k = l.k + 1]

NextL == part = "loop" /\ (\E v \in Verdicts : Attempt(v)) /\ UNCHANGED <<part, w, a, r>>

LDone == part = "loop" /\ (l.p > NPeaksL \/ l.crashed)

(* exactly one result per estimate, in order; the call never ends without them             *)
OneResultPerPeak ==
    part = "loop" =>
        /\ ~l.crashed
        /\ Len(l.res) = l.p - 1
        /\ \A i \in 1..Len(l.res) : l.res[i].peak = i

(* first success wins, otherwise the first attempt's result; nothing is tried after a      *)
(* success; all combinations are tried when none succeeds                                  *)
FirstSuccessWins ==
    part = "loop" =>
        \A i \in 1..Len(l.res) :
            LET h == l.hists[i]
                s == {k \in 1..Len(h) : h[k] = "success"}
            IN IF s # {} THEN /\ s = {Len(h)}
                              /\ l.res[i].combo = Len(h) /\ l.res[i].outcome = "success"
               ELSE /\ Len(h) = NCombos
                    /\ l.res[i].combo = 1 /\ l.res[i].outcome = h[1]

(* too few points: "window_too_narrow" and no fit, also for 0, 1, 2 points                 *)
NoFitWhenNarrow ==
    part = "loop" =>
        \A i \in 1..Len(l.hists) : \A k \in 1..Len(l.hists[i]) :
            /\ l.fitteds[i][k] = (l.npts[i] >= ComboParams(k))
            /\ (l.hists[i][k] = "window_too_narrow") = ~l.fitteds[i][k]

(* the result of a peak is a function of that peak's own window and fits only              *)
VerdictOf(o) == IF o = "success" THEN "success" ELSE IF o = "failed" THEN "error" ELSE "rejected"
Isolation ==
    part = "loop" =>
        \A i \in 1..Len(l.res) :
            LET h == l.hists[i]
                script == [k \in 1..NCombos |-> IF k <= Len(h) THEN VerdictOf(h[k]) ELSE "rejected"]
                want == LoopResultOf(l.npts[i], NpsSeq, script)
            IN /\ l.res[i].combo = want.combo /\ l.res[i].outcome = want.outcome
               /\ Len(h) = want.attempts

(* results already returned for earlier peaks never change                                 *)
ResultsAppendOnly ==
    [][part = "loop" => \A i \in 1..Len(l.res) : Len(l'.res) >= i /\ l'.res[i] = l.res[i]]_vars

-----------------------------------------------------------------------------
(* assess *)
PStats == {"ok", "low", "undefined"}
ReqOf(st) == [k \in 1..NReq |-> IF k = 2 THEN st.p = "ok" ELSE st.flags[k]]

InitA == a \in {[flags |-> f, p |-> ps, stage |-> 1, verdict |-> "pending"] :
                  f \in [1..NReq -> BOOLEAN], ps \in PStats}

StageFails(k) ==
    IF k = 2 THEN (IF Bug = "nan_passes" THEN a.p = "low" ELSE a.p # "ok")
    ELSE ~a.flags[k]

CheckStage ==
    /\ a.verdict = "pending"
    /\ IF a.stage > NReq THEN a' = [a EXCEPT !.verdict = "success"]
       ELSE IF StageFails(a.stage) THEN a' = [a EXCEPT !.verdict = FailureNames[a.stage]]
       ELSE a' = [a EXCEPT !.stage = a.stage + 1]

NextA == part = "assess" /\ CheckStage /\ UNCHANGED <<part, w, l, r>>

SuccessImpliesAllRequirements ==
    (part = "assess" /\ a.verdict = "success") => AllRequirements(ReqOf(a))
VerdictIsAssessOf ==
    (part = "assess" /\ a.verdict # "pending") => a.verdict = AssessOf(ReqOf(a))

-----------------------------------------------------------------------------
(* remove *)
RWindows == {<<lo, hi>> \in (1..RN) \X (0..RN) : lo <= hi + 1}     \* lo = hi + 1: empty window
RResults == {[succ |-> s, lo |-> win[1], hi |-> win[2], pv |-> [x \in 1..RN |-> amp + x]] :
               s \in BOOLEAN, win \in RWindows, amp \in RAmps}
RResultSeqs == UNION {[1..m -> RResults] : m \in 0..RMaxRes}

InitR == r \in {[inp |-> y, orig |-> y, out |-> <<>>, alias |-> FALSE, res |-> rs, i |-> 0,
                 phase |-> "start"] : y \in [1..RN -> RVals], rs \in RResultSeqs}

CopyStep ==
    /\ r.phase = "start"
    /\ r' = [r EXCEPT !.out = r.inp, !.alias = (Bug = "no_copy"), !.phase = "sub", !.i = 1]

SubtractStep ==
    /\ r.phase = "sub"
    /\ IF r.i > Len(r.res) THEN r' = [r EXCEPT !.phase = "done"]
       ELSE LET q == r.res[r.i]
                use == q.succ \/ Bug = "all_results"
                new == [x \in 1..RN |-> IF use /\ q.lo <= x /\ x <= q.hi THEN r.out[x] - q.pv[x]
                                        ELSE r.out[x]]
            IN r' = [r EXCEPT !.out = new, !.inp = (IF r.alias THEN new ELSE r.inp), !.i = r.i + 1]

NextR == part = "remove" /\ (CopyStep \/ SubtractStep) /\ UNCHANGED <<part, w, l, a>>

RDone == part = "remove" /\ r.phase = "done"

InputUnchanged == part = "remove" => r.inp = r.orig
RemoveTouchesOnlyWindows ==
    RDone => \A x \in 1..RN : Covering(r.res, x) = {} => r.out[x] = r.orig[x]
RemoveSubtractsPeaks == RDone => r.out = RemoveOf(r.orig, r.res)

-----------------------------------------------------------------------------
Init == /\ part \in Parts
        /\ IF part = "windows" THEN InitW ELSE w = Idle
        /\ IF part = "loop" THEN InitL ELSE l = Idle
        /\ IF part = "assess" THEN InitA ELSE a = Idle
        /\ IF part = "remove" THEN InitR ELSE r = Idle

Next == NextW \/ NextL \/ NextA \/ NextR

Spec == Init /\ [][Next]_vars
=============================================================================
