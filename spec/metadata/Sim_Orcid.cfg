SPECIFICATION Spec
CONSTANTS
  NDigits = 15
  Bug = "none"
INVARIANT AccumulatorIsWeightedSum
INVARIANT ValidityEquation
INVARIANT DetectsSubstitution
INVARIANT DetectsTransposition
INVARIANT EmitId
CHECK_DEADLOCK FALSE
