--------------------------- MODULE KinematicsInel ---------------------------
(* C05: the flight of one neutron through an inelastic instrument and the conversion of the *)
(* recorded arrival time to energy transfer.                                                *)
(*                                                                                          *)
(*   source --FlyPrimary--> sample --Scatter--> scattered --FlySecondary--> detector        *)
(*          --Record(trec)--> recorded --Convert(mode)--> converted                          *)
(*                                                                                          *)
(* The clock advances by L/v on each leg.  Record either stores the true arrival time or an  *)
(* arbitrary other time from the candidate set (t0 of either leg exactly, and times around   *)
(* them), because the conversion is applied to every time bin of a histogram, physical or    *)
(* not.  Convert evaluates the documented kernel.                                            *)
EXTENDS KinematicsInelDefs, TLC

CONSTANTS Speeds,     \* set of positive rationals <<n, d>>
          Lengths,    \* set of positive integers
          Deltas,     \* set of positive rationals: offsets around t0 for unphysical records
          Bug,        \* "none" | "lt"
          Emit

VARIABLES vi, vf, L1, L2, phase, clock, trec, mode, res
vars == <<vi, vf, L1, L2, phase, clock, trec, mode, res>>

Ei == EnergyOf(vi)
Ef == EnergyOf(vf)
T0d == T0(L1, Ei)      \* flight time of the fixed-energy leg, direct geometry
T0i == T0(L2, Ef)      \* ... indirect geometry

Init == /\ vi \in Speeds /\ vf \in Speeds /\ L1 \in Lengths /\ L2 \in Lengths
        /\ phase = "source" /\ clock = <<0, 1>> /\ trec = <<0, 1>>
        /\ mode = "none" /\ res = [cls |-> "none", val |-> NoVal]

FlyPrimary   == /\ phase = "source"    /\ phase' = "sample"
                /\ clock' = RAdd(clock, RDiv(RInt(L1), vi))
                /\ UNCHANGED <<vi, vf, L1, L2, trec, mode, res>>
Scatter      == /\ phase = "sample"    /\ phase' = "scattered"
                /\ UNCHANGED <<vi, vf, L1, L2, clock, trec, mode, res>>
FlySecondary == /\ phase = "scattered" /\ phase' = "detector"
                /\ clock' = RAdd(clock, RDiv(RInt(L2), vf))
                /\ UNCHANGED <<vi, vf, L1, L2, trec, mode, res>>

Candidates == {clock, T0d, T0i}
              \cup { RAdd(b, d) : b \in {T0d, T0i}, d \in Deltas }
              \cup { RSub(b, d) : b \in {T0d, T0i}, d \in Deltas }
Record(tr) == /\ phase = "detector" /\ phase' = "recorded"
              /\ RSign(tr) >= 0
              /\ trec' = tr
              /\ UNCHANGED <<vi, vf, L1, L2, clock, mode, res>>
Convert(m) == /\ phase = "recorded" /\ phase' = "converted"
              /\ mode' = m
              /\ res' = Kernel(m, trec, L1, L2, IF m = "direct" THEN Ei ELSE Ef, Bug)
              /\ UNCHANGED <<vi, vf, L1, L2, clock, trec>>

Next == \/ FlyPrimary \/ Scatter \/ FlySecondary
        \/ \E tr \in Candidates : Record(tr)
        \/ \E m \in {"direct", "indirect"} : Convert(m)
Spec == Init /\ [][Next]_vars

-----------------------------------------------------------------------------
TypeOK == /\ T0d # NotSquare /\ T0i # NotSquare
          /\ phase \in {"source", "sample", "scattered", "detector", "recorded", "converted"}
          /\ res.cls \in {"none", "nan", "num", "inf"}

(* the clock at the detector is exactly L1/v(Ei) + L2/v(Ef), later than either t0 *)
ArrivalAfterT0 == phase \in {"detector", "recorded", "converted"} =>
                     /\ clock = RAdd(RDiv(RInt(L1), vi), RDiv(RInt(L2), vf))
                     /\ RLt(T0d, clock) /\ RLt(T0i, clock)

(* both geometries return Ei - Ef for the true arrival time *)
EnergyConservation == (phase = "converted" /\ trec = clock) =>
                         /\ res.cls = "num" /\ res.val = RSub(Ei, Ef)

T0of(m) == IF m = "direct" THEN T0d ELSE T0i
Boundary == phase = "converted" => (res.cls = "nan" <=> RLe(trec, T0of(mode)))
NoInf    == phase = "converted" => res.cls # "inf"

(* the class abstraction used by the trace specification agrees with the kernel *)
ClassAbstraction ==
    phase = "converted" =>
        LET sg == RSign(RSub(trec, T0of(mode)))
            side == IF sg < 0 THEN "below" ELSE IF sg = 0 THEN "at" ELSE "above"
        IN res.cls \in AllowedClasses(side) /\ res.cls \in AllowedClasses("band") \cup {"nan"}

EmitFlight == (Emit /\ phase = "converted" /\ trec = clock) =>
                 PrintT(<<"FLIGHT", vi, vf, L1, L2, mode, res.val>>)
=============================================================================
