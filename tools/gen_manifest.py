#!/venv/bin/python
"""Regenerate /verif/MANIFEST.json from the META dict of every driver present."""
import importlib, json, os, sys
from pathlib import Path
ROOT = Path(__file__).resolve().parent.parent
sys.path[:0] = [str(ROOT), str(ROOT / '.pydeps')]
props = [json.loads(l) for l in (ROOT / 'properties.jsonl').read_text().splitlines() if l.strip()]
na_file = ROOT / 'tools' / 'not_applicable.json'
na = json.loads(na_file.read_text()) if na_file.exists() else {}
claimed = set(json.loads((ROOT / 'tools' / 'claimed.json').read_text()))  # reviewed + passing checks only
checks, not_app = [], []
for p in props:
    pid = p['id']
    drv = ROOT / 'harness' / 'drivers' / f'{pid.lower()}.py'
    meta = None
    if drv.exists() and pid not in na and pid in claimed:
        mod = importlib.import_module(f'harness.drivers.{pid.lower()}')
        meta = getattr(mod, 'META', None)
    if meta is None:
        not_app.append({'property_id': pid, 'reason': na.get(pid, 'check not built yet (work in progress); no claim is made for this property at this commit')})
        continue
    checks.append({
        'property_id': pid,
        'quick_cmd': f'./check {pid} --tier quick',
        'thorough_cmd': f'./check {pid} --tier thorough',
        'evidence_file': f'/verif/evidence/{pid}.json',
        'replay_cmd_template': f'./check {pid} --replay {{path}}',
        'engine': 'tlc+python-conformance',
        'level_claimed': {'category': 'model_checking', 'text': meta['text'], 'design_ref': meta['design_ref']},
        'level_note': meta['note'],
        'technique': meta['technique'],
    })
hooks_file = ROOT / 'tools' / 'hook_commits.json'
man = {
    'version': 1,
    'setup_cmd': './setup.sh',
    'hooks': {
        'guard': 'SCIPPNEUTRON_VERIF',
        'enable': 'no build step: scippneutron is installed editable from /repo/src; ./check exports SCIPPNEUTRON_VERIF=1 (no hooks are currently needed: all observations are public return values, exceptions and bytes written to harness-supplied file objects)',
        'baseline_off_cmd': 'cd /repo && env -u SCIPPNEUTRON_VERIF /venv/bin/python -m pytest -ra -q -p no:cacheprovider --timeout=900 --continue-on-collection-errors',
        'source_commits': json.loads(hooks_file.read_text()) if hooks_file.exists() else [],
        'add_only': True,
    },
    'engines': [{
        'name': 'tlc+python-conformance', 'path': '/verif/check',
        'serves_properties': [c['property_id'] for c in checks],
        'kind_free_text': 'explicit TLA+ specifications under /verif/spec checked with TLC (exhaustive + negative controls); bound to the code by replaying TLC-enumerated cases into the public API and by validating recorded executions (NDJSON events) with TLC trace specifications',
    }],
    'checks': checks,
    'not_applicable': not_app,
    'notes': 'See DESIGN.md. known_findings.json lists recorded/fixed genuine defects. Exit 2 = machinery failure.',
}
(ROOT / 'MANIFEST.json').write_text(json.dumps(man, indent=1) + '\n')
import jsonschema
jsonschema.validate(man, json.loads(Path('/root/.vp/MANIFEST.schema.json').read_text()))
print('MANIFEST.json:', len(checks), 'checks,', len(not_app), 'not claimed')
