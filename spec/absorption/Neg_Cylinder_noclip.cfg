SPECIFICATION Spec
CONSTANTS
  AxisQuats <- MC_AxisQuatsQuick
  Bases <- MC_OneBase
  Radii = {1, 2}
  Heights = {1, 3}
  Points <- MC_OnePoint
  CubeQuats <- MC_CubeQuats
  SkewQuats <- MC_SkewQuats
  Shifts <- MC_Shifts
  MaxMoves = 0
  Starts <- MC_StartsQuick
  Dirs <- MC_DirsQuick
  K = 2
  J = 20
  Bug = "noclip"
INVARIANT FrameOK
INVARIANT InsideInvariant
INVARIANT ChordSandwich
INVARIANT LengthIsMeasure
INVARIANT ClassOK
CHECK_DEADLOCK FALSE
