"""C07 — kernels are unit-equivariant and keep the documented dtype contract.

Spec: spec/conv/UnitsDefs.tla (dimension vectors, decimal / eV / degree scale exponents),
DTypesDefs.tla (precision rule), UnitsKernelsDefs.tla (signature table of the kernels: operands,
documented formula as monomials with doubled exponents, documented output unit, data operands),
UnitsKernels.tla (state machine over the unit x dtype grid: Reexpress / Retype one operand),
Emit_UnitsKernels.tla (grid enumeration), Trace_UnitsKernels.tla (judge of recorded calls).

1. TLC, exhaustive over the grid of every kernel: the documented output unit has the dimension of
   every term of the documented formula and internal quantities (t0, drop / L2) have theirs
   (DimensionOK); converting the constant to "output unit / operand units" and multiplying the
   numbers gives the unit-independent physical value (UnitEquivariance, exact in the exponent
   algebra); the output unit depends on the donor operand only (OutUnitRule / OutUnitStep); the
   precision rule is total and depends on the data operands only (DTypeRule / DTypeStep).
   Negative controls: Q documented in the wavelength unit; time unit entering the energy constant
   with exponent 1; "single as soon as any operand is single".
2. spec -> code (M1): TLC writes the unit grid (with the expected output unit and its scale vector)
   and the dtype grid (with the expected precision class) of every kernel; the driver replays the
   product (thorough: complete; quick: a sample that contains every unit row and every dtype row of
   every kernel) into the real kernels at two numeric points each.
3. code -> spec (M2): every returned quantity of every real call is one NDJSON event; TLC judges
   the unit string, the dtype class and the refusal class with the specification's tables.

Decided by the harness, not by TLC: "changes the physical result by no more than rounding".  The
physical scenario of a row is defined by the numbers handed to the code (10-bit mantissas, or small
integers for integer dtypes: exactly representable in every dtype); the same physical scenario is
evaluated by the same kernel with all operands in coherent SI units and float64, and the two results,
both converted to SI with the *specification's* scale vector of the output unit, must agree to
1e-11 relative (1e-5 as soon as an operand is float32) — the accumulated-rounding figures of the
property family — times the condition number of the result for the two inelastic kernels (difference of
two energies, one of them ~ (t - t0)^-2; same bound as derived in c05.py; scenarios keep it below ~50).  This is the metamorphic relation the property states; absolute correctness of the
values is C01 / C04 / C05.

Interpretation (weakest reading, see final report): data operands are the converted coordinate of the
tof kernels (repository docstrings / tests), tof AND the supplied energy for the inelastic kernels,
the wavelength for the gravity kernels; the chopper-cascade helpers and two_theta always compute in
double.  A DTypeError raised by scipp for integer operands is "not supported", not a violation.
"""

from __future__ import annotations

import json
import math
from fractions import Fraction

import mpmath
import numpy as np
import scipp as sc

from .. import lib_conv as lc
from ..core import MachineryError
from ..refmap import check_constants, mpf
from ..tlc import require_ok

TOL = {'float64': 1e-11, 'float32': 1e-5}
INT_LIMIT = {'int64': 2 * 10 ** 9, 'int32': 30000}     # squares stay representable
E_MANT = 1602176634
CANON = {'time': 's', 'length': 'm', 'energy': 'J', 'angle': 'rad', 'accel': 'm/s^2', 'invlength': '1/m'}
VECTOR_ARGS = ('incident_beam', 'scattered_beam', 'gravity')
ARG_FAM = {'tof': 'time', 'time': 'time', 'Ltotal': 'length', 'L1': 'length', 'L2': 'length',
           'distance': 'length', 'wavelength': 'length', 'incident_beam': 'length',
           'scattered_beam': 'length', 'energy': 'energy', 'incident_energy': 'energy',
           'final_energy': 'energy', 'two_theta': 'angle', 'Q': 'invlength', 'gravity': 'accel'}
# physical targets (SI) of the two numeric points of every row
TARGETS = (
    {'tof': 4.0e-3, 'time': 1.5e-3, 'Ltotal': 12.0, 'L1': 9.0, 'L2': 2.5, 'distance': 3.0,
     'wavelength': 2.5e-10, 'energy': 8.0e-22, 'incident_energy': 1.6e-21, 'final_energy': 4.0e-22,
     'two_theta': 1.1, 'Q': 2.0e10},
    {'tof': 2.3e-2, 'time': 7.0e-3, 'Ltotal': 31.0, 'L1': 25.0, 'L2': 4.0, 'distance': 7.5,
     'wavelength': 6.0e-10, 'energy': 2.5e-22, 'incident_energy': 4.0e-22, 'final_energy': 1.2e-21,
     'two_theta': 2.4, 'Q': 7.0e9},
)
RULE = ('row = kernel x unit per operand x dtype per operand (the two factor grids are enumerated by TLC, '
        'the product is formed by the harness; thorough: complete product, quick: covering sample containing '
        'every unit row and every dtype row), each at two numeric points; non-trivial = the call returned a '
        'value and the row differs from the all-SI all-double reference row; distinct by (kernel, units, dtypes)')


# ------------------------------------------------------------------------------------ real kernels
def real_kernel(k):
    from scippneutron.conversion import beamline as B
    from scippneutron.conversion import tof as K
    from scippneutron.tof import chopper_cascade as CC

    if k == 'drop_due_to_gravity':
        return lambda **kw: B._drop_due_to_gravity(**kw), ('value',)
    if k == 'scattering_angles_with_gravity':
        return B.scattering_angles_with_gravity, ('two_theta', 'phi')
    if k == 'scattering_angle_in_yz_plane':
        return B.scattering_angle_in_yz_plane, ('value',)
    if k == 'two_theta':
        return B.two_theta, ('value',)
    if k == 'propagate_times':
        return CC.propagate_times, ('value',)
    if k == 'wavelength_to_inverse_velocity':
        return CC.wavelength_to_inverse_velocity, ('value',)
    return getattr(K, k), ('value',)


# ------------------------------------------------------------------------------------ scenarios
def numeric(target_SI: float, unit: str, dtype: str):
    """Number handed to the code for a physical target, and the exact physical value it denotes (mpf, SI)."""
    if unit == 'deg':
        x = target_SI * 180 / math.pi
    else:
        x = target_SI / float(lc.si(unit))
    if dtype.startswith('int'):
        n = int(min(max(round(x), 1), INT_LIMIT[dtype]))
        val = n
    else:
        val = lc.short(x, 10)
    ex = mpf(Fraction(val))
    phys = ex * mpmath.pi / 180 if unit == 'deg' else ex * mpf(lc.si(unit))
    return val, phys


def vector_operand(arg, unit, point, tilted):
    """Beam / gravity vectors (always vector3 = double) with 10-bit components; returns (variable, SI array)."""
    f = float(lc.si(unit))
    if arg == 'incident_beam':
        v = np.array([[0.0, 0.0, 10.0], [0.0, 0.0, 23.0]][point])
        if tilted:
            v = np.array([[0.0, 1.5, 10.0], [0.0, -2.0, 23.0]][point])
    elif arg == 'scattered_beam':
        v = np.array([[1.0, 2.0, 3.0], [-1.5, 0.75, 2.0]][point])
    else:
        v = np.array([[0.0, -9.75, 0.0], [0.0, -9.75, 0.0]][point])
    comp = np.array([lc.short(c / f, 10) if c else 0.0 for c in v])
    return comp, comp * f


class Skip(Exception):
    pass


def build(k, args, U, D, tilted):
    """Operands of one row (2-element arrays) and the same physical scenario in SI / float64."""
    ops, ref = {}, {}
    phys = {}
    cond = [1.0, 1.0]   # condition number of the result w.r.t. relative perturbations of the operands
    for a in args:
        if a in VECTOR_ARGS:
            comps, sis = zip(*(vector_operand(a, U[a], p, tilted) for p in range(2)))
            ops[a] = sc.vectors(dims=['x'], values=np.array(comps), unit=lc.scu(U[a]))
            ref[a] = sc.vectors(dims=['x'], values=np.array(sis), unit=lc.scu(CANON[ARG_FAM[a]]))
            phys[a] = sis
            continue
        vals, ph = zip(*(numeric(TARGETS[p][a], U[a], D[a]) for p in range(2)))
        phys[a] = list(ph)
        ops[a] = [vals, U[a], D[a]]
    # inelastic kernels: stay clear of the NaN boundary and of cancellation (scenario validity)
    if k.startswith('energy_transfer'):
        from ..refmap import MN

        en = 'incident_energy' if k == 'energy_transfer_direct_from_tof' else 'final_energy'
        Lfix, Lvar = ('L1', 'L2') if k == 'energy_transfer_direct_from_tof' else ('L2', 'L1')
        vals = list(ops['tof'][0])
        for p in range(2):
            E = phys[en][p]
            t0 = phys[Lfix][p] / mpmath.sqrt(2 * E / mpf(MN))
            for _ in range(60):
                t = phys['tof'][p]
                Ev = mpf(MN) * phys[Lvar][p] ** 2 / (2 * (t - t0) ** 2) if t > t0 else None
                if Ev is not None and t > 1.3 * t0 and abs(E - Ev) > 0.2 * max(E, Ev):
                    # dE = E -/+ Ev, Ev ~ (t - t0)^-2: see the bound derived in c05.py
                    cond[p] = float((E + Ev * (1 + 2 * t / (t - t0))) / abs(E - Ev))
                    break
                step = 2 if (Ev is None or t <= 1.3 * t0 or Ev > E) else 0.5
                nv = vals[p] * step
                if D['tof'].startswith('int'):
                    nv = int(round(nv))
                    if not 1 <= nv <= INT_LIMIT[D['tof']]:
                        raise Skip('no valid arrival time within the integer range')
                vals[p] = nv
                ex = mpf(Fraction(nv))
                phys['tof'][p] = ex * mpf(lc.si(U['tof']))
            else:
                raise Skip('no valid arrival time found')
        ops['tof'][0] = tuple(vals)
    for a in args:
        if a in VECTOR_ARGS:
            continue
        vals, u, d = ops[a]
        ops[a] = lc.var(np.array(vals), ['x'], u, d)
        cu = CANON[ARG_FAM[a]]
        ref[a] = lc.var(np.array([float(p / mpf(lc.si(cu))) for p in phys[a]]), ['x'], cu, 'float64')
    return ops, ref, cond


def call(f, parts, ops):
    try:
        r = f(**ops)
    except sc.DTypeError as e:
        return 'unsupported', repr(e)[:160]
    except Exception as e:  # noqa: BLE001
        return 'raised', repr(e)[:300]
    if isinstance(r, dict):
        return 'ok', {p: r[p] for p in parts}
    return 'ok', {'value': r}


def scale_fraction(os_):
    k10, kE, kDeg = os_
    if kDeg:
        raise MachineryError('output unit with a degree factor')
    return Fraction(10) ** k10 * Fraction(E_MANT) ** kE


# ------------------------------------------------------------------------------------ driver
def load_grid(ctx):
    out = ctx.tmp / 'c07-grid.ndjson'
    em = ctx.tlc('conv/Emit_UnitsKernels.tla', 'Emit_UnitsKernels.cfg', workers=1, env={'OUT_FILE': str(out)},
                 timeout=600, count=False)
    if 'No error has been found' not in em.out and em.rc != 0:
        raise MachineryError(f'grid emission failed:\n{em.out[-2000:]}')
    scales = [p for p in em.printed if isinstance(p, list) and p and p[0] == 'SCALES']
    if not scales:
        raise MachineryError('specification did not print its scale table')
    for name, vec in scales[0][1]['$fn']:
        if name == 'deg':
            if vec != [0, 0, 1]:
                raise MachineryError('deg scale')
            continue
        if scale_fraction(vec) != lc.si(name):
            raise MachineryError(f'scale of {name}: specification {vec} vs harness {lc.si(name)}')
    urows, drows = {}, {}
    for line in out.read_text().splitlines():
        r = json.loads(line)
        (urows if r['t'] == 'U' else drows).setdefault(r['k'], []).append(r)
    return urows, drows


def select_rows(ctx, urows, drows):
    """Rows (kernel, unit row, dtype row) in replay order.

    The order matters for one class of defects only: state kept between calls (a converted constant
    cached per unit with the precision of its first caller, ...).  Therefore the dtype rows are walked
    in a different rotation for every unit row (so single precision comes first for many units), and
    at the end a sample of the all-double rows is replayed once more, with the whole grid as history.
    """
    rng = ctx.rng
    done64 = []

    def emit(k, u, d):
        if all(v == 'float64' for v in d['D'].values()):
            done64.append((k, u, d))
        return k, u, d

    for k in sorted(urows):
        us, ds = urows[k], drows[k]
        if ctx.thorough or len(us) * len(ds) <= 400:
            for i, u in enumerate(us):
                r = i % len(ds)
                for d in ds[r:] + ds[:r]:
                    yield emit(k, u, d)
            continue
        seen = set()
        pairs = [(i, rng.randrange(len(ds))) for i in range(len(us))]
        pairs += [(rng.randrange(len(us)), j) for j in range(len(ds))]
        pairs += [(rng.randrange(len(us)), rng.randrange(len(ds))) for _ in range(250)]
        for i, j in pairs:
            if (i, j) not in seen:
                seen.add((i, j))
                yield emit(k, us[i], ds[j])
    again = list(done64)
    rng.shuffle(again)
    yield from again[:3000 if ctx.thorough else 400]


def run(ctx):
    ctx.rule = RULE
    check_constants()
    ctx.assume('data operands: tof kernels - the converted coordinate; inelastic kernels - tof and the supplied '
               'energy (single only if both are single); gravity kernels - wavelength; two_theta and the '
               'chopper-cascade helpers compute in double whatever the operand dtypes (weakest reading)')
    ctx.assume('a scipp DTypeError for a call with an integer operand is recorded as "not supported"')
    ctx.assume('drop_due_to_gravity is a private helper: exercised with floating-point operands only')
    ctx.assume('tolerance of "no more than rounding": 1e-11 relative, 1e-5 as soon as an operand is float32')
    # ---- 1. design
    cfg = 'MC_UnitsKernels_thorough.cfg' if ctx.thorough else 'MC_UnitsKernels.cfg'
    res = ctx.tlc('conv/MC_UnitsKernels.tla', cfg, workers=16, timeout=1500)
    require_ok(ctx, res, 'UnitsKernels model')
    for b in ('qunit', 'recipe', 'dtype_any'):
        ctx.tlc('conv/MC_UnitsKernels.tla', f'Neg_UnitsKernels_{b}.cfg', workers=4, expect_error=True, timeout=300)
    urows, drows = load_grid(ctx)
    ctx.extra['unit_rows'] = sum(len(v) for v in urows.values())
    ctx.extra['dtype_rows'] = sum(len(v) for v in drows.values())
    ctx.extra['grid_size'] = sum(len(urows[k]) * len(drows[k]) for k in urows)
    ctx.exhaustive = bool(ctx.thorough)

    # ---- 2. replay + record
    events, details = [], []
    stats = {'ok': 0, 'unsupported': 0, 'raised': 0, 'skipped': 0, 'private_int_not_exercised': 0}
    unsupported_int64_only: dict = {}
    worst = {'float64': 0.0, 'float32': 0.0}
    worst_by_kernel: dict = {}
    tid = 0
    kernels = {}
    for k, ur, dr in select_rows(ctx, urows, drows):
        U, D = ur['U'], dr['D']
        args = list(U)
        if k == 'drop_due_to_gravity' and any(D[a].startswith('int') for a in args):
            stats['private_int_not_exercised'] += 1
            continue
        if k not in kernels:
            kernels[k] = real_kernel(k)
        f, parts = kernels[k]
        tilted = (tid % 2 == 1) and 'gravity' in args and k != 'scattering_angle_in_yz_plane'
        try:
            ops, ref, cond = build(k, args, U, D, tilted)
        except Skip:
            stats['skipped'] += 1
            continue
        status, got = call(f, parts, ops)
        prec = 'float32' if 'float32' in D.values() else 'float64'
        base = {'ev': 'call', 'tid': tid, 'k': k, 'U': U, 'D': D}
        det = {'expected_out': ur['out'], 'expected_dtype': dr['dt'], 'tilted_gravity': tilted,
               'data_operands': sorted(dr['data'])}
        tid += 1
        if status != 'ok':
            stats[status] += 1
            events.append(dict(base, part='value', status=status, out='', dt='', close=True))
            details.append(dict(det, exc=got))
            if status == 'unsupported' and 'int32' not in D.values():
                key = (k, tuple(sorted(a for a in args if D[a] == 'int64')))
                unsupported_int64_only[key] = unsupported_int64_only.get(key, 0) + 1
            ctx.case()
            continue
        rstatus, rref = call(f, parts, ref)
        if rstatus != 'ok':
            raise MachineryError(f'{k}: reference call (SI units, float64) failed: {rref}')
        stats['ok'] += 1
        os_frac = mpf(scale_fraction(ur['os']))
        for part in parts:
            g, r0 = got[part], rref[part]
            out_name = lc.unit_name(g.unit)
            ref_name = lc.unit_name(r0.unit)
            if ref_name not in lc.UNITS:
                raise MachineryError(f'{k}: reference output unit {r0.unit} unknown to the harness')
            gv = np.asarray(g.values, dtype='float64').ravel()
            rv = np.asarray(r0.values, dtype='float64').ravel()
            close = gv.shape == rv.shape
            rel = 0.0
            if close:
                for x, y, cn in zip(gv, rv, cond):
                    want = mpf(float(y)) * mpf(lc.si(ref_name))
                    have = mpf(float(x)) * os_frac
                    e = float(abs((have - want) / want)) if math.isfinite(x) and want != 0 else float('inf')
                    rel = max(rel, e / cn)      # relative difference in units of the condition number
                close = rel <= TOL[prec]
                if out_name == ur['out'] and math.isfinite(rel):
                    worst[prec] = max(worst[prec], rel)
                    wk = worst_by_kernel.setdefault(k, {'float64': 0.0, 'float32': 0.0})
                    wk[prec] = max(wk[prec], rel)
            events.append(dict(base, part=part, status='ok', out=out_name, dt=lc.dtype_name(g.dtype),
                               close=bool(close)))
            d2 = dict(det, rel_difference=rel, got=[float(v) for v in gv], reference_SI_run=[float(v) for v in rv],
                      reference_unit=ref_name)
            if k.startswith('energy_transfer'):
                en = 'incident_energy' if k == 'energy_transfer_direct_from_tof' else 'final_energy'
                d2['const_class'] = lc.const_class(D[en], U[en], U['tof'], (U['L1'], U['L2']))
            details.append(d2)
        trivial = all(U[a] == CANON[ARG_FAM[a]] and D[a] == 'float64' for a in args)
        ctx.case(nontrivial_id=None if trivial else (k, tuple(sorted(U.items())), tuple(sorted(D.items()))))
        if tid in (5, 3000):
            ctx.sample({'event': events[-1], 'operands': {a: repr(v.values.tolist()) for a, v in ops.items()}})
    ctx.extra['calls'] = stats
    ctx.extra['max_relative_difference_observed'] = worst
    ctx.extra['tolerances'] = TOL
    ctx.extra['max_relative_difference_by_kernel'] = worst_by_kernel
    ctx.extra['observation_int64_operands_refused_with_DTypeError'] = [
        {'kernel': k, 'int64_operands': list(a), 'rows': n} for (k, a), n in sorted(unsupported_int64_only.items())]
    if not ctx.samples:
        ctx.sample({'event': events[0]})
    if stats['ok'] < 100:
        raise MachineryError(f'vacuous run: {stats}')

    # ---- 3. TLC judges every event
    for line, _tid, clause in lc.run_trace(ctx, 'conv/Trace_UnitsKernels.tla', events, 'Trace_UnitsKernels'):
        ev, det = events[line - 1], details[line - 1]
        D = ev['D']
        fl = sorted({d for d in D.values()})
        if det.get('const_class', 'normal') != 'normal' and clause == 'value_changed_by_reexpression':
            key = f'{ev["k"]}: {clause} for float32 energy when {det["const_class"]}'
        elif clause == 'output_dtype':
            data = ', '.join(f'{a}={D[a]}' for a in det['data_operands']) or 'none'
            key = f'{ev["k"]}[{ev["part"]}]: {clause} {ev["dt"]} (data operands: {data})'
        else:
            key = f'{ev["k"]}[{ev["part"]}]: {clause} (operand dtypes {"/".join(fl)})'
        ctx.violation(key, {'event': ev, 'context': det})


META = {
    'design_ref': 'DESIGN.md §5 C07',
    'technique': 'TLA+ unit algebra (dimension and scale exponent vectors) and kernel signature table; state machine '
                 'over the unit x dtype grid model-checked by TLC; TLC-enumerated grid replayed into the real '
                 'kernels; every real call recorded and judged by a TLC trace specification',
    'text': 'TLC proves on the full grid of every kernel that the documented output unit is dimensionally consistent '
            'with the documented formula, that folding unit factors into the constant is unit-equivariant, that the '
            'output unit depends on the donor operand only and that the precision rule is total and depends on the '
            'data operands only. Every grid row is replayed into the real tof / inelastic / gravity / cascade '
            'kernels at two numeric points and compared with the all-SI all-double evaluation of the same physical '
            'scenario (1e-11 / 1e-5); TLC judges output unit, dtype class and refusal class of every call.',
    'note': 'Trusted: TLC, scipp (operand construction, unit equality), mpmath. The value comparison is metamorphic '
            '(kernel vs the same kernel in SI units), decided by the harness. int64/int32 refusals by scipp '
            '(DTypeError) are recorded as observations, not violations. total_beam_length / straight_*_beam '
            '(plain additions) are not in the grid: scipp refuses mixed units there by design.',
}
