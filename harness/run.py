import sys

from .core import main

if __name__ == '__main__':
    sys.exit(main())
