----------------------------- MODULE DiskChopper -----------------------------
(* Property C10: the open/close pairs reported for a disk chopper are exactly the openings *)
(* of the uniformly rotating disk.                                                          *)
(*                                                                                          *)
(* The state is what a user builds and then asks: a slit set (AddSlit), the constructor    *)
(* (Construct / Reject: slit validation), the direct query time_offset_open/close (Direct, *)
(* or Refuse when the frequency is out of phase with the source) and the expansion over    *)
(* several source pulses for a chopper cascade (Expand).  `reported` holds the answer      *)
(* computed with the DOCUMENTED FORMULAS; the invariants compare it with the SIMULATED     *)
(* DISK (CellAt / OpenCells in DiskChopperDefs), which is defined independently from the   *)
(* geometry.  Bug selects a wrong variant (negative controls).                              *)
EXTENDS DiskChopperDefs, TLC

CONSTANTS K,          \* ticks per turn
          MaxSlits,
          BeamPos,    \* set of beam positions (ticks)
          Phases,     \* set of phases (ticks, several turns, either sign)
          Ratios,     \* set of <<num, den>> = |f| / f_pulse (in phase or not)
          MaxPulses,
          MaxTurns,   \* the expansion is explored up to this many rotations
          Pick,       \* 0: exhaustive; k > 0 (-simulate): k random slits / setups per step
          Bug         \* "none" | "nowrap" | "perpulse" | "swap" | "phasesign" | "gap"

VARIABLES slits, setup, stage, reported
vars == <<slits, setup, stage, reported>>

NoSetup == [bp |-> 0, ph |-> 0, cw |-> FALSE, num |-> 1, den |-> 1]
Cfg == [K |-> K, slits |-> slits, bp |-> setup.bp, ph |-> setup.ph, cw |-> setup.cw,
        num |-> setup.num, den |-> setup.den]

Init == /\ slits = <<>> /\ setup = NoSetup /\ stage = "slits" /\ reported = <<>>

(* slits are listed by increasing begin (the order is immaterial to every definition);     *)
(* only valid sets are extended, so an invalid set has exactly one offending slit          *)
AddSlit(b, e) ==
    /\ stage = "slits" /\ Len(slits) < MaxSlits
    /\ ValidSlits(slits, K)
    /\ Len(slits) > 0 => b >= slits[Len(slits)][1]
    /\ slits' = Append(slits, <<b, e>>)
    /\ UNCHANGED <<setup, stage, reported>>

Reject ==
    /\ stage = "slits" /\ Len(slits) >= 1
    /\ ~ProcValid(slits, K, Bug)
    /\ stage' = "rejected"
    /\ UNCHANGED <<slits, setup, reported>>

Construct(bp, ph, cw, r) ==
    /\ stage = "slits" /\ Len(slits) >= 1
    /\ ProcValid(slits, K, Bug)
    /\ setup' = [bp |-> bp, ph |-> ph, cw |-> cw, num |-> r[1], den |-> r[2]]
    /\ stage' = "ready"
    /\ UNCHANGED <<slits, reported>>

Refuse ==
    /\ stage = "ready" /\ ~InPhaseProc(setup.num, setup.den)
    /\ stage' = "refused"
    /\ UNCHANGED <<slits, setup, reported>>

Direct ==
    /\ stage = "ready" /\ InPhaseProc(setup.num, setup.den)
    /\ reported' = ReportedDirect(Cfg, Bug)
    /\ stage' = "direct"
    /\ UNCHANGED <<slits, setup>>

Expand(np) ==
    /\ stage = "ready" /\ InPhaseProc(setup.num, setup.den)
    /\ np * setup.num <= MaxTurns * setup.den
    /\ reported' = Expanded(Cfg, np, Bug)
    /\ stage' = "expanded"
    /\ UNCHANGED <<slits, setup>>

AddAnySlit ==
    /\ stage = "slits"
    /\ IF Pick = 0 THEN \E b \in 0..(K-1) : \E e \in (b+1)..(b+K-1) : AddSlit(b, e)
       ELSE \E k \in 1..Pick :
              \* (bound through singleton sets so that each random draw is made once)
              \E lo \in { IF Len(slits) = 0 THEN 0 ELSE slits[Len(slits)][2] + 1 } :     \* mostly valid sets
              \E b \in { IF lo < K - 1 /\ RandomElement(1..4) > 1 THEN RandomElement(lo..(K-1))
                          ELSE RandomElement(0..(K-1)) } :
              \E e \in { b + RandomElement(1..((K + 3) \div 4)) } : AddSlit(b, e)
ConstructAny ==
    IF Pick = 0
    THEN \E bp \in BeamPos, ph \in Phases, cw \in BOOLEAN, r \in Ratios : Construct(bp, ph, cw, r)
    ELSE \E k \in 1..Pick : \E cw \in BOOLEAN :
            \E bp \in { RandomElement(BeamPos) } : \E ph \in { RandomElement(Phases) } :
            \E r \in { RandomElement(Ratios) } : Construct(bp, ph, cw, r)
ExpandAny    == \E np \in 1..MaxPulses : Expand(np)

Next == AddAnySlit \/ Reject \/ ConstructAny \/ Refuse \/ Direct \/ ExpandAny

Spec == Init /\ [][Next]_vars

-----------------------------------------------------------------------------
Answered == stage \in {"direct", "expanded"}

TypeOK == /\ stage \in {"slits", "rejected", "ready", "refused", "direct", "expanded"}
          /\ WellFormed(slits, K)
          /\ Answered => Len(reported) > 0

(* slit sets that overlap on the circle (also across TDC) are rejected, all others accepted *)
RejectedIffOverlap ==
    /\ stage = "rejected" => ~ValidSlits(slits, K)
    /\ stage \in {"ready", "refused", "direct", "expanded"} => ValidSlits(slits, K)

(* out-of-phase frequencies are refused, in-phase ones answered                             *)
RefusedIffOutOfPhase ==
    /\ stage = "refused" => ~InPhaseDecl(setup.num, setup.den)
    /\ Answered => InPhaseDecl(setup.num, setup.den)

OpenBeforeClose == Answered => OpenBeforeCloseOf(reported)
MaximalOpen     == Answered => AllMaximalOpenOf(Cfg, reported)
OncePerRotation == Answered => NoDuplicateOf(reported)
NoneMissing     == Answered => NoneMissingOf(Cfg, reported)
DurationIsWidth == Answered => DurationIsWidthOf(Cfg, reported, Durations(reported))
DirectCoversPulse == stage = "direct" => CoversPulsesOf(Cfg, reported, 1)
ExpandCoversPulses == [][\A np \in 1..MaxPulses : Expand(np) => CoversPulsesOf(Cfg, reported', np)]_vars

(* the expansion over one pulse is the direct answer                                        *)
ExpandOnePulse == stage = "ready" /\ InPhaseProc(setup.num, setup.den)
                    => Expanded(Cfg, 1, "none") = ReportedDirect(Cfg, "none")
=============================================================================
