SPECIFICATION HSpec
CONSTANTS
  Reqs <- MC_Reqs
  MaxLen = 3
  Bug = "none"
INVARIANT AnswerIsAFunctionOfTheArguments
INVARIANT TablesIntact
