"""Shared helpers of the conversion-kernel drivers (C01, C05, C07): canonical unit names and exact
SI factors, construction of scipp operands, classification of results, running a trace spec.

Nothing in here calls scippneutron; scipp is used only to build operands and to read the unit /
dtype / values of results.
"""

from __future__ import annotations

import math
from fractions import Fraction

import mpmath
import numpy as np
import scipp as sc

from .core import MachineryError
from .refmap import E_CHARGE, mpf
from .tlc import require_ok, write_ndjson

mpmath.mp.dps = 60

# canonical name -> (scipp unit string, exact SI factor).  deg carries pi and is handled apart.
_LEN = {'angstrom': Fraction(1, 10**10), 'nm': Fraction(1, 10**9), 'um': Fraction(1, 10**6),
        'mm': Fraction(1, 10**3), 'cm': Fraction(1, 100), 'm': Fraction(1), 'km': Fraction(1000)}
_TIME = {'ns': Fraction(1, 10**9), 'us': Fraction(1, 10**6), 'ms': Fraction(1, 10**3), 's': Fraction(1)}
_ENERGY = {'ueV': E_CHARGE / 10**6, 'meV': E_CHARGE / 1000, 'eV': E_CHARGE, 'keV': E_CHARGE * 1000,
           'J': Fraction(1)}
UNITS: dict[str, tuple[str, Fraction]] = {}
for _n, _f in _LEN.items():
    UNITS[_n] = (_n, _f)
    UNITS['1/' + _n] = ('1/' + _n, 1 / _f)
for _n, _f in _TIME.items():
    UNITS[_n] = (_n, _f)
for _n, _f in _ENERGY.items():
    UNITS[_n] = (_n, _f)
UNITS['rad'] = ('rad', Fraction(1))
UNITS['one'] = ('dimensionless', Fraction(1))
UNITS['s/m'] = ('s/m', Fraction(1))
UNITS['m/s^2'] = ('m/s^2', Fraction(1))
UNITS['mm/s^2'] = ('mm/s^2', Fraction(1, 1000))
UNITS['cm/s^2'] = ('cm/s^2', Fraction(1, 100))
UNITS['km/s^2'] = ('km/s^2', Fraction(1000))
UNITS['m/ms^2'] = ('m/ms^2', Fraction(10**6))

LENGTH_UNITS = tuple(_LEN)
TIME_UNITS = tuple(_TIME)
ENERGY_UNITS = tuple(_ENERGY)
ANGLE_UNITS = ('rad', 'deg')

_SC_UNITS = [(n, sc.Unit(s)) for n, (s, _) in UNITS.items()] + [('deg', sc.Unit('deg'))]
_name_cache: dict[str, str] = {}


def scu(name: str) -> sc.Unit:
    if name == 'deg':
        return sc.Unit('deg')
    return sc.Unit(UNITS[name][0])


def si(name: str) -> Fraction:
    """Exact SI factor of a canonical unit (not for 'deg')."""
    return UNITS[name][1]


def unit_name(u) -> str:
    """Canonical name of a scipp unit, or 'other:<repr>' if it is none of the known ones.
    Equality is scipp's own unit equality (same dimension and same multiplier)."""
    key = repr(u)
    got = _name_cache.get(key)
    if got is None:
        got = 'other:' + str(u)
        if u is not None:
            for n, su in _SC_UNITS:
                if su == u:
                    got = n
                    break
        _name_cache[key] = got
    return got


def dtype_name(dt) -> str:
    return str(dt)


def angle_rad(value: float, unit: str):
    """mpf radians of the float handed to the code (exact function of the float)."""
    v = mpf(Fraction(float(value)))
    return v if unit == 'rad' else v * mpmath.pi / 180


def cast_values(values, dtype: str) -> np.ndarray:
    """The array the code will see: values rounded once to the operand dtype."""
    return np.asarray(values, dtype='float64').astype(dtype)


def var(values, dims, unit: str, dtype: str) -> sc.Variable:
    a = np.asarray(values)
    if a.ndim == 0:
        return sc.scalar(a.astype(dtype).item() if dtype.startswith('float') else int(a),
                         unit=scu(unit), dtype=dtype)
    return sc.array(dims=list(dims), values=a.astype(dtype), unit=scu(unit), dtype=dtype)


def exact(x) -> Fraction:
    """Exact rational of a numpy / python float or int."""
    return Fraction(float(x)) if not isinstance(x, (int, np.integer)) else Fraction(int(x))


def classify(x: float) -> str:
    if math.isnan(x):
        return 'nan'
    if math.isinf(x):
        return 'inf'
    return 'num'


def short(x: float, bits: int) -> float:
    """x rounded to `bits` mantissa bits (exactly representable in float32 for bits <= 24)."""
    m, e = math.frexp(x)
    return math.ldexp(round(m * 2 ** bits), e - bits)


F32_MIN_NORMAL, F32_MAX = 2.0 ** -126, 3.4e38


def const_class(dt_E: str, eunit: str, tunit: str, length_units) -> str:
    """Input class used only to make violation signatures specific (inelastic kernels): is m_n/2,
    expressed in the unit [energy] ([time]/[length])^2 built from the operand units, a normal float32
    number?  (Relevant for float32 energies: an implementation that folds the unit factors into one
    single-precision constant needs it to be.)  Computed from exact SI factors, not from the code."""
    from .refmap import MN

    if dt_E != 'float32':
        return 'normal'
    for lu in length_units:
        c = float(MN / 2 / (si(eunit) * (si(tunit) / si(lu)) ** 2))
        if not F32_MIN_NORMAL <= c <= F32_MAX:
            return 'm_n/2 outside the normal float32 range in the operand-derived unit'
    return 'normal'


def run_trace(ctx, module: str, events: list, what: str, timeout: int = 1500):
    """Write events as NDJSON, let TLC (workers=1) judge every one, return [(line, tid, clause)]."""
    if not events:
        raise MachineryError(f'{what}: no events recorded')
    tf = ctx.tmp / (module.replace('/', '_') + f'-{len(ctx.tlc_runs)}.ndjson')
    write_ndjson(tf, events)
    tr = ctx.tlc(module, workers=1, env={'TRACE_FILE': str(tf)}, timeout=timeout)
    require_ok(ctx, tr, what)
    done = tr.tagged('DONE')
    if not done or done[0][1] != len(events):
        raise MachineryError(f'{what}: trace validation incomplete: {done} vs {len(events)} events')
    rej = [(r[1], r[2], r[3]) for r in tr.tagged('REJECT')]
    if done[0][2] != len(rej):
        raise MachineryError(f'{what}: {done[0][2]} rejected events but {len(rej)} REJECT lines parsed')
    ctx.traces(len(events))
    return rej
