----------------------------- MODULE CifObjDefs -----------------------------
(* The low-level objects of scippneutron.io.cif as they are documented: Chunk (pairs,   *)
(* chunk[tag] = value), Loop (columns, loop[tag] = column), Block (name, content,         *)
(* block.add(chunk | loop | mapping), block.copy() = shallow copy).  Objects have         *)
(* identity: a block holds REFERENCES to its chunks and loops (a pair set on a chunk      *)
(* after the chunk was added shows up in every block that refers to it - io/cif.py       *)
(* itself relies on this in _add_audit), the content LIST of a block is its own (adding   *)
(* to a copy does not change the block it was copied from, and vice versa), a Chunk keeps  *)
(* its own pairs (setting a pair on one chunk never changes another chunk, even if both    *)
(* were made from the same dict object).                                                   *)
(*                                                                                        *)
(* A program is a sequence of operations (records):                                       *)
(*   [op "chunk",   pairs <<[tag, cell]..>>]            new chunk (index = next)           *)
(*   [op "set",     c, tag, cell]                       chunk c gets another pair          *)
(*   [op "loop",    cols <<[tag, cells]..>>]            new loop                           *)
(*   [op "col",     l, tag, cells]                      loop l gets another column         *)
(*   [op "block",   name, content <<[k, i]..>>]         new block, k = "c" | "l"           *)
(*   [op "add",     b, k, i]                            block b refers to chunk/loop i too  *)
(*   [op "adddict", b, pairs]                           block.add(mapping): new chunk + add *)
(*   [op "copy",    b]                                  new block = shallow copy of b      *)
(*   [op "write",   blocks <<b..>>]                     save_cif of these blocks           *)
(* The document a program's final write must produce is ObjDoc(ops).                      *)
EXTENDS CifDocDefs

O0 == [chunks |-> <<>>, loops |-> <<>>, lists |-> <<>>, blocks |-> <<>>]

(* sharing = "none": documented behaviour; "copylist": negative control, a copy shares the *)
(* content list of the block it was copied from                                           *)
ObjStepM(S, o, sharing) ==
    CASE o.op = "chunk" -> [S EXCEPT !.chunks = Append(@, o.pairs)]
      [] o.op = "set"   -> [S EXCEPT !.chunks[o.c] = Append(@, [tag |-> o.tag, cell |-> o.cell])]
      [] o.op = "loop"  -> [S EXCEPT !.loops = Append(@, o.cols)]
      [] o.op = "col"   -> [S EXCEPT !.loops[o.l] = Append(@, [tag |-> o.tag, cells |-> o.cells])]
      [] o.op = "block" -> [S EXCEPT !.lists = Append(@, o.content),
                                     !.blocks = Append(@, [name |-> o.name, list |-> Len(S.lists) + 1])]
      [] o.op = "add"   -> [S EXCEPT !.lists[S.blocks[o.b].list] = Append(@, [k |-> o.k, i |-> o.i])]
      [] o.op = "adddict" ->
           [S EXCEPT !.chunks = Append(@, o.pairs),
                     !.lists[S.blocks[o.b].list] = Append(@, [k |-> "c", i |-> Len(S.chunks) + 1])]
      [] o.op = "copy"  ->
           IF sharing = "copylist"
           THEN [S EXCEPT !.blocks = Append(@, S.blocks[o.b])]
           ELSE [S EXCEPT !.lists = Append(@, S.lists[S.blocks[o.b].list]),
                          !.blocks = Append(@, [name |-> S.blocks[o.b].name, list |-> Len(S.lists) + 1])]
      [] OTHER -> S      \* write
ObjStep(S, o) == ObjStepM(S, o, "none")

LoopItem(cols) ==
    LET nc == Len(cols)  nr == Len(cols[1].cells) IN
    [k |-> "loop", tags |-> [q \in 1..nc |-> cols[q].tag],
     vals |-> [c \in 1..(nc * nr) |-> cols[((c - 1) % nc) + 1].cells[((c - 1) \div nc) + 1]]]
RefItems(S, r) ==
    IF r.k = "c" THEN [q \in 1..Len(S.chunks[r.i]) |-> Pair(S.chunks[r.i][q].tag, S.chunks[r.i][q].cell)]
    ELSE <<LoopItem(S.loops[r.i])>>
BlockDoc(S, b) ==
    LET content == S.lists[S.blocks[b].list] IN
    [name |-> S.blocks[b].name, items |-> FlattenSeq([j \in 1..Len(content) |-> RefItems(S, content[j])])]

ObjState(ops) == FoldLeft(ObjStep, O0, ops)
ObjDoc(ops) ==
    LET S == ObjState(ops)  w == ops[Len(ops)] IN [q \in 1..Len(w.blocks) |-> BlockDoc(S, w.blocks[q])]
=============================================================================
