"""Shared helpers for the peak checks (C16, C17): independent closed forms, scripted models,
synthetic spectra, recomputation of fit statistics.

Nothing in here evaluates a model of scippneutron to obtain an expected value: the closed forms
are written from the model docstrings / the standard definitions

    G(x; A, mu, s)     = A / (sqrt(2 pi) s) * exp(-(x - mu)^2 / (2 s^2))         FWHM = 2 sqrt(2 ln 2) s
    L(x; A, mu, s)     = A / pi * s / ((x - mu)^2 + s^2)                         FWHM = 2 s
    V(x; A, mu, s, f)  = f L(x; A, mu, s) + (1 - f) G(x; A, mu, s / sqrt(2 ln 2))  FWHM = 2 s (both parts)
    P(x; a0..an)       = sum a_i x^i
"""

from __future__ import annotations

import math

import mpmath
import numpy as np

LN2 = math.log(2.0)


# ----------------------------------------------------------------------------- closed forms, numpy
def np_gaussian(x, A, mu, s):
    return A / (math.sqrt(2 * math.pi) * s) * np.exp(-((x - mu) ** 2) / (2 * s * s))


def np_lorentzian(x, A, mu, s):
    return A / math.pi * s / ((x - mu) ** 2 + s * s)


def np_pseudo_voigt(x, A, mu, s, f):
    return f * np_lorentzian(x, A, mu, s) + (1 - f) * np_gaussian(x, A, mu, s / math.sqrt(2 * LN2))


def np_poly(x, coefs):
    out = np.zeros_like(np.asarray(x, dtype='float64'))
    for i, c in enumerate(coefs):
        out = out + c * np.asarray(x, dtype='float64') ** i
    return out


def np_poly_ld(x, coefs):
    """Polynomial in extended precision (np.longdouble): reference values for ill-conditioned raw-x forms."""
    out = np.zeros_like(x, dtype=np.longdouble)
    for c in reversed(coefs):
        out = out * x + np.longdouble(c)
    return out


def np_peak(kind, x, p):
    if kind == 'gaussian':
        return np_gaussian(x, p['amplitude'], p['loc'], p['scale'])
    if kind == 'lorentzian':
        return np_lorentzian(x, p['amplitude'], p['loc'], p['scale'])
    if kind == 'pseudo_voigt':
        return np_pseudo_voigt(x, p['amplitude'], p['loc'], p['scale'], p['fraction'])
    raise ValueError(kind)


def fwhm_of(kind, p):
    if kind == 'gaussian':
        return 2 * math.sqrt(2 * LN2) * p['scale']
    return 2 * p['scale']


# ----------------------------------------------------------------------------- closed forms, mpmath
def mp_gaussian(x, A, mu, s):
    x, A, mu, s = map(mpmath.mpf, (x, A, mu, s))
    return A / (mpmath.sqrt(2 * mpmath.pi) * s) * mpmath.exp(-((x - mu) ** 2) / (2 * s * s))


def mp_lorentzian(x, A, mu, s):
    x, A, mu, s = map(mpmath.mpf, (x, A, mu, s))
    return A / mpmath.pi * s / ((x - mu) ** 2 + s * s)


def mp_pseudo_voigt(x, A, mu, s, f):
    f = mpmath.mpf(f)
    sg = mpmath.mpf(s) / mpmath.sqrt(2 * mpmath.log(2))
    return f * mp_lorentzian(x, A, mu, s) + (1 - f) * mp_gaussian(x, A, mu, sg)


def mp_peak(kind, x, A, mu, s, f=None):
    if kind == 'gaussian':
        return mp_gaussian(x, A, mu, s)
    if kind == 'lorentzian':
        return mp_lorentzian(x, A, mu, s)
    return mp_pseudo_voigt(x, A, mu, s, f)


def mp_fwhm(kind, s):
    s = mpmath.mpf(s)
    if kind == 'gaussian':
        return 2 * mpmath.sqrt(2 * mpmath.log(2)) * s
    return 2 * s


# ----------------------------------------------------------------------------- model kinds
PEAK_KINDS = ('gaussian', 'lorentzian', 'pseudo_voigt')
PEAK_PARAMS = {
    'gaussian': ('amplitude', 'loc', 'scale'),
    'lorentzian': ('amplitude', 'loc', 'scale'),
    'pseudo_voigt': ('amplitude', 'loc', 'scale', 'fraction'),
}
BKG_DEGREE = {'linear': 1, 'quadratic': 2}


def kind_of_model(m):
    """Map a scippneutron model instance to the harness' kind name (by class name only)."""
    name = type(m).__name__
    return {
        'GaussianModel': 'gaussian',
        'LorentzianModel': 'lorentzian',
        'PseudoVoigtModel': 'pseudo_voigt',
        'PolynomialModel': 'polynomial',
    }.get(name, name)


# ----------------------------------------------------------------------------- statistics
def chi2_sf(chi2, nu):
    """Survival function of the chi-square distribution, Q(nu/2, chi2/2), by mpmath."""
    return float(mpmath.gammainc(mpmath.mpf(nu) / 2, mpmath.mpf(chi2) / 2, mpmath.inf, regularized=True))


def recompute_stats(y, var, f, k, f_exact=None):
    """chi^2, nu, reduced chi^2, p-value, AIC from data, variances, model values, #parameters.

    Definitions (FitResult docstrings):  red = chi^2 / nu,  p = 1 - F(chi^2; nu) = Q(nu/2, chi^2/2),
    AIC = 2k - 2 ln L.  For a least-squares fit with Gaussian errors  -2 ln L  is, up to a constant,
    n ln(chi^2/n) (scale of the errors estimated) or chi^2 (errors known); both conventions are returned.
    """
    n = len(y)
    if f_exact is not None:
        chi2 = float(np.sum((y.astype(np.longdouble) - f_exact) ** 2 / var.astype(np.longdouble)))
    else:
        chi2 = float(np.sum((y - f) ** 2 / var))
    nu = n - k
    out = {'n': n, 'k': k, 'nu': nu, 'chi2': chi2}
    if nu > 0:
        out['red'] = chi2 / nu
        out['p'] = chi2_sf(chi2, nu)
    else:
        out['red'] = None
        out['p'] = None
    out['aic_ls'] = (n * math.log(chi2 / n) + 2 * k) if chi2 > 0 and n > 0 else -math.inf
    out['aic_known'] = chi2 + 2 * k
    return out


def best_polynomial_chi2(x, y, var, degree, dlt=None):
    """chi^2 of the weighted least-squares polynomial (a linear problem: unique optimum) and, given the
    per-point evaluation error bound `dlt` of a float evaluation, the induced uncertainty of that chi^2."""
    # scale x for conditioning; the fitted values do not depend on the basis
    xm, xs = float(np.mean(x)), float(np.ptp(x)) or 1.0
    t = (x - xm) / xs
    A = np.vander(t, degree + 1, increasing=True) / np.sqrt(var)[:, None]
    b = y / np.sqrt(var)
    coef, *_ = np.linalg.lstsq(A, b, rcond=None)
    r = A @ coef - b
    chi = float(r @ r)
    if dlt is None:
        return chi
    rabs = np.abs(r) * np.sqrt(var)
    return chi, float(np.sum((2 * rabs * dlt + dlt**2) / var)) + 1e-12 * chi


def close(a, b, rel, abs_=0.0):
    if a is None or b is None:
        return False
    if math.isnan(a) or math.isnan(b):
        return False
    if math.isinf(a) or math.isinf(b):
        return a == b
    return abs(a - b) <= abs_ + rel * max(abs(a), abs(b))


# ----------------------------------------------------------------------------- call-site of an exception
def site_of(exc) -> str:
    """Innermost function of scippneutron/peaks/_fit_peaks.py (or _remove_peaks.py) on the traceback."""
    import traceback

    site = 'outside scippneutron.peaks'
    for fr in traceback.extract_tb(exc.__traceback__):
        fn = fr.filename.replace('\\', '/')
        if fn.endswith('peaks/_fit_peaks.py') or fn.endswith('peaks/_remove_peaks.py'):
            site = fr.name
    if site in ('_guess_peak', '_guess_background'):
        site = 'initial-guess step'
    return site


# ----------------------------------------------------------------------------- scripted models
class Script:
    """Global script consulted by the scripted models (they are deep-copied by fit_peaks)."""

    verdicts: dict = {}
    truth: dict = {}
    cur_b = None
    fitted: list = []  # (ptag, btag) for every evaluation of a scripted peak model

    @classmethod
    def reset(cls, verdicts, truth):
        cls.verdicts = dict(verdicts)
        cls.truth = dict(truth)
        cls.cur_b = None
        cls.fitted = []


def make_scripted_models():
    """Defined lazily so that importing this module does not import scippneutron."""
    import scipp as sc
    from scippneutron.peaks.model import Model, PolynomialModel

    class ScriptedBackground(PolynomialModel):
        def __init__(self, *, degree, tag, prefix=''):
            super().__init__(degree=degree, prefix=prefix)
            self.tag = tag

        def _guess(self, x, y):
            t = Script.truth
            vals = [t['a0'], t['a1'], 0.0]
            return {f'a{i}': sc.scalar(vals[i], unit=y.unit / x.unit**i) for i in range(self.degree + 1)}

        def _call(self, x, params):
            Script.cur_b = self.tag
            return super()._call(x, params)

    class ScriptedPeak(Model):
        """Gaussian with `extra` parameters that do not influence the value; the fit outcome of the
        combination (this peak, last evaluated background) is scripted:
        'error' -> evaluation raises RuntimeError (as a non-converging fit does),
        'rejected' -> the reported FWHM is absurdly wide, 'success' -> FWHM = 2.355 scale."""

        def __init__(self, *, extra, tag, prefix=''):
            names = ['amplitude', 'loc', 'scale'] + [f'dummy{i}' for i in range(extra)]
            super().__init__(prefix=prefix, param_names=names)
            self.tag = tag
            self.extra = extra

        def _guess(self, x, y):
            t = Script.truth
            out = {
                'amplitude': sc.scalar(t['amplitude'], unit=y.unit * x.unit),
                'loc': sc.scalar(t['loc'], unit=x.unit),
                'scale': sc.scalar(t['scale'], unit=x.unit),
            }
            for i in range(self.extra):
                out[f'dummy{i}'] = sc.scalar(0.0)
            return out

        def _call(self, x, params):
            Script.fitted.append((self.tag, Script.cur_b))
            if Script.verdicts.get((self.tag, Script.cur_b)) == 'error':
                raise RuntimeError('scripted: fit does not converge')
            A, mu, s = params['amplitude'], params['loc'], params['scale']
            val = x - mu
            val = val * val
            val = val / (-2 * s * s)
            val = sc.exp(val)
            return val * (A / (math.sqrt(2 * math.pi) * s))

        def _param_bounds(self):
            return {'scale': (0.0, np.inf)}

        def fwhm(self, params):
            s = params[self._prefix + 'scale']
            if Script.verdicts.get((self.tag, Script.cur_b)) == 'rejected':
                return 1e9 * abs(sc.values(s))
            return 2 * math.sqrt(2 * LN2) * sc.values(s)

    class IntPeak(Model):
        """value(x) = amp + x : integer valued for integer amp and integer coordinates."""

        def __init__(self, *, prefix=''):
            super().__init__(prefix=prefix, param_names=['amp'])

        def _guess(self, x, y):
            return {'amp': sc.scalar(0.0)}

        def _call(self, x, params):
            return x + params['amp']

    return ScriptedBackground, ScriptedPeak, IntPeak


# ----------------------------------------------------------------------------- synthetic spectra
def synthetic_spectrum(rng: np.random.Generator, *, n_points, n_peaks, bkg_degree, noise, x0=0.0, step=0.5,
                       poisson=False, width_range=(0.3, 8.0)):
    """Uniform grid, n_peaks peaks of random kind/width on a linear/quadratic background + noise.

    Returns x, y, var, list of true peaks (kind, params).  Widths are in units of the grid step."""
    x = x0 + step * np.arange(n_points, dtype='float64')
    span = x[-1] - x[0]
    coefs = [rng.uniform(20, 200), rng.uniform(-0.5, 0.5) * 100 / span]
    if bkg_degree == 2:
        coefs.append(rng.uniform(-1, 1) * 100 / span**2)
    xm = x - x[0]
    y = np_poly(xm, coefs)
    y = y - min(0.0, y.min()) + 10.0
    centers = np.sort(rng.uniform(0.08, 0.92, n_peaks)) * span + x[0]
    peaks = []
    for c in centers:
        kind = PEAK_KINDS[rng.integers(0, 3)]
        s = rng.uniform(*width_range) * step
        height = rng.uniform(5, 60) * noise
        p = {'loc': float(c), 'scale': float(s)}
        if kind == 'gaussian':
            p['amplitude'] = float(height * s * math.sqrt(2 * math.pi))
        else:
            p['amplitude'] = float(height * s * math.pi)
        if kind == 'pseudo_voigt':
            p['fraction'] = float(rng.uniform(0, 1))
        y = y + np_peak(kind, x, p)
        peaks.append((kind, p))
    if poisson:
        var = np.maximum(y, 1.0) * noise**2 / 4
    else:
        var = np.full(n_points, float(noise) ** 2)
    y = y + rng.normal(0.0, 1.0, n_points) * np.sqrt(var)
    return x, y, var, peaks
