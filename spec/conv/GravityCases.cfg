CONSTANTS
  GDirs <- GD_quick
  Beams <- B_quick
  Dets <- Box1
  Qs <- Q_quick
