"""C04 — gravity-corrected scattering angles follow the documented construction on every path.

Spec: spec/conv/GravityDefs.tla (the documented raised-beam construction in exact rational
arithmetic: basis e_y = -g/|g|, e_z, e_x; b2' = b2 + delta e_y with delta = q |b2|^2; 2theta / phi /
reflectometry gamma as exact classes; the general and the optimised formula; dispatch and refusal
tables), Gravity.tla (state machine: Tilt / MoveDetector / Lift / Lower / Reorient, each followed by
the implementation-shaped Dispatch), GravityCases.tla (export), Trace_Gravity.tla (judge).

1. TLC, exhaustive on lattice setups with rational drop parameter: Raised (b2'-b2 antiparallel to g,
   length delta), IsConstruction (whatever path: the documented angles), PathsAgree (general =
   optimised on perpendicular setups), Limit (q = 0), Larger (detector above a horizontal beam:
   larger for forward detectors), ReflTable (refusal iff not perpendicular; gamma = 2theta in the
   y-z plane), Monotone and RotationInvariant (action properties).  Negative controls: drop along
   +g on the general path, optimised formula without x, reflectometry that never refuses.
2. spec -> code (M1a): every exported lattice setup is realised physically (lengths x 128 m, gravity
   64/32/16/8 x lattice vector, wavelength solved from q) and fed to scattering_angles_with_gravity /
   scattering_angle_in_yz_plane; the harness' own rational classes are re-derived by TLC.
3. physical grid (M1b): tilt family {0, +-2^-40, 2^-34, 2^-33 (just below / above the dispatch
   threshold for unit beams), 2^-20, 1e-3, 0.1, -0.1, 1 rad} x detectors in all octants x wavelength
   {0, 0.5, 1, 10, 100 angstrom} x |g| {2^-30, 9.80665, 100 m/s^2} x lattice orientations x dense /
   binned wavelength x float64 / float32, plus continuity pairs across the threshold.
4. Every evaluated element becomes one NDJSON event judged by TLC (Trace_Gravity).

Oracle (never the code under test): the construction evaluated with mpmath (60 digits) on the exact
rational values of the floats passed in; delta = |g| m_n^2 lambda^2 L2^2 / (2 h^2) with the floats
scipp exposes for h and m_n taken as exact rationals (refmap.check_constants).

Tolerance (float64): 1e-12 rad absolute.  Derivation: delta is computed with <= 6 roundings
(|g|, m_n^2/(2h^2), unit conversion, lambda^2, L2^2, products), the frame vectors and the three
components with <= 4 eps each, so the raised beam is perturbed by <= 16 eps (|b2| + delta); the angle
to a fixed direction changes by at most |perturbation| / |b2'|.  With the condition number
cond = (|b2| + delta)/|b2'| <= 64 this is 16 * 2.2e-16 * 64 = 2.3e-13, plus a few eps from
atan2/Kahan: < 1e-12.  Cases with cond > 64 (raised beam nearly vanishing; phi: projected beam
nearly on the axis) are not judged.  float32 wavelength: 1e-5 rad with cond <= 8
(16 * 6e-8 * 8 = 7.7e-6).
Interpretation (reported as deviation): an incident beam within the documented dispatch threshold of
perpendicular (0 < |g.b1| <= 1e-10 |g|) may be treated as perpendicular; this moves 2theta by at
most the tilt tau <= 1e-10/|b1| (triangle inequality on the sphere), which is added to the bound
for exactly those cases.  g = 0 has no direction (e_y undefined) and is not tested; |g| = 2^-30
probes the limit.

Hardening round (HARDENING.md items 1, 2, 4-7, 9, 11):
5. Operand forms (GravityDefs!ValidForm, judged by Trace_Gravity!JudgePhys): one extra call per
   (orientation, |g|, tilt) in a form from EXTRA_FORMS - wavelength 2-d in both dim orders, strided, along
   the detector dim, 0-d, binned; wavelength in nm / m, gravity in cm/s^2, the two beams in different length
   units; the incident beam per pixel, also MIXED (every other pixel has the untilted beam: the documented
   dispatch then takes the general path for the whole call, GravityDefs!BatchClass; model: invariant
   MixedBatch, negative control Neg_Gravity_all_pixels).  Operands re-expressed in another unit by a float
   multiplication get the allowance EXTRA_ALLOW64 derived at its definition.
6. The dispatch threshold is an off-plane component in length units of the incident beam, not an angle: tilts
   with a 32 m and a 2^-6 m incident beam sit on the other side of the threshold than their angle suggests.
7. beam_aligned_unit_vectors itself ("frame" events): against the integer numerators EyN, ZpN, ExN exported by
   TLC for lattice setups (re-derived by Trace_Gravity!JudgeFrame) and against the mpmath frame for tilts.
8. Second use: some calls are repeated with the SAME operand objects (second result judged, operands compared
   bit-for-bit with what was passed); a sample of all calls is repeated at the end of the run in reverse order.
"""

from __future__ import annotations

import json
import math
import os
from fractions import Fraction

import mpmath
import numpy as np
import scipp as sc

from .. import lib_geom as G
from .. import refmap
from ..core import MachineryError
from ..tlc import require_ok, write_ndjson

WORKERS = min(8, int(os.environ.get('VERIF_TLC_WORKERS', '8') or 8))
TOL = 1000  # in units: 1e-15 rad (float64) / 1e-8 rad (float32)
UNIT64, UNIT32 = 1e-15, 1e-8
COND64, COND32 = 64, 8
ANGSTROM = Fraction(1, 10**10)
C_DROP = refmap.MN ** 2 / (2 * refmap.H ** 2)  # m_n^2 / (2 h^2), exact rational of the floats

RULE = ('(a) lattice setups (gravity direction with integer norm, incident beam, detector, rational drop '
        'parameter) exported by TLC and realised physically; (b) tilt x detector x wavelength x |g| x '
        'orientation x dense/binned x float32/64 grid; non-trivial = the call returned and the case is '
        'well conditioned (cond <= 64 / 8); identity = (family, integers / grid indices, variant)')

KEY_LOWERED = 'general (non-perpendicular) path: beam lowered instead of raised'


# ------------------------------------------------------------------------------ oracle
def _delta(gn, lam_m: Fraction, l2sq_m2: Fraction):
    """delta in metres (mpf): |g| * m_n^2 lambda^2 L2^2 / (2 h^2)."""
    return gn * G.to_mpf(C_DROP * lam_m * lam_m * l2sq_m2)


def _rat_classes(g, b1, b2, q: Fraction, ng: int):
    """The harness' own exact evaluation of the documented construction on a lattice setup."""
    ey = tuple(Fraction(-x, ng) for x in g)
    b1f, b2f = G.fvec(b1), G.fvec(b2)
    delta = q * G.norm2(b2f)
    raised = G.vadd(b2f, G.vscale(delta, ey))

    def cls(u, v):
        d = G.dot(u, v)
        return [G.sgn(d), G.reduce_frac(d * d, G.norm2(u) * G.norm2(v))]

    zp = G.vsub(b1f, G.vscale(G.dot(b1f, ey), ey))
    z2 = G.norm2(zp)
    ex = G.cross(ey, zp)  # |ex|^2 = z2
    y = G.dot(raised, ey)
    x2 = G.dot(raised, ex) ** 2 / z2
    zz = G.dot(raised, zp) ** 2 / z2
    sx = G.sgn(G.dot(raised, ex))
    phi = [G.sgn(y), 0, [0, 1]] if sx == 0 else [G.sgn(y), sx, G.reduce_frac(y * y, x2)]
    if G.dot(G.fvec(g), b1f) != 0:
        refl = ['refused', [0, [0, 1]]]
    elif y * y + zz == 0:
        refl = ['angle', [0, [0, 1]]]
    else:
        refl = ['angle', [G.sgn(G.dot(raised, zp)), G.reduce_frac(zz, y * y + zz)]]
    return {'tt': cls(b1f, raised), 'free': cls(b1f, b2f), 'phi': phi, 'refl': refl}


def _phi_of_class(c):
    sy, sx, (p, q) = c
    if sx == 0:
        return sy * mpmath.pi / 2
    return mpmath.atan2(sy * mpmath.sqrt(G.mpf(p)), sx * mpmath.sqrt(G.mpf(q)))


# ------------------------------------------------------------------------------ calling the code
class _ShapeError(Exception):
    """a result whose dims are not those the operands span (not a ValueError: that is the refusal)"""


WL_FACTOR = {'angstrom': 1.0, 'nm': 0.1, 'm': 1e-10}  # nominal angstrom value -> value in the unit
G_FACTOR = {'m/s^2': 1.0, 'cm/s^2': 100.0}
L_FACTOR = {'m': 1.0, 'mm': 1000.0}


def _form(wl='outer', ib='one', wl_unit='angstrom', g_unit='m/s^2', ib_unit='m', sb_unit='m'):
    return {'wl': wl, 'ib': ib, 'wl_unit': wl_unit, 'g_unit': g_unit, 'ib_unit': ib_unit, 'sb_unit': sb_unit}


def _same_bits(a, b):
    a, b = np.ascontiguousarray(a), np.ascontiguousarray(b)
    return a.shape == b.shape and a.dtype == b.dtype and a.tobytes() == b.tobytes()


def _call(b1, dets, lams, lam_dtype, gvec, form, scalar_index=0, twice=False):
    """One call of both functions in the operand form `form` (GravityDefs!ValidForm).
    b1: one incident beam or (form ib per_pixel*) one per detector, dets: scattered beams - numbers in the
    units of the form; lams: nominal wavelengths in angstrom (re-expressed here in form['wl_unit']); gvec in
    m/s^2 (re-expressed in form['g_unit']).  Returns arrays shaped [n_det, n_lam] (tt, phi, refl or None) with a
    boolean mask `present` (forms per_detector / scalar fill only one wavelength per detector), outcome strings,
    whether the operands still hold the bits that were passed, and - with twice - the same from a second
    call with the SAME operand objects under the key 'second'."""
    from scippneutron.conversion import beamline as bl

    nd, nl = len(dets), len(lams)
    wl_form, binned = form['wl'], form['wl'] == 'binned'
    lam_vals = np.asarray(lams, dtype='float64') * WL_FACTOR[form['wl_unit']]
    if form['ib'] == 'one':
        ib = sc.vector(np.asarray(b1, dtype='float64'), unit=form['ib_unit'])
    else:
        ib = sc.vectors(dims=['det'], values=np.asarray(b1, dtype='float64'), unit=form['ib_unit'])
    sb = sc.vectors(dims=['det'], values=np.asarray(dets, dtype='float64'), unit=form['sb_unit'])
    gv = sc.vector(np.asarray(gvec, dtype='float64') * G_FACTOR[form['g_unit']], unit=form['g_unit'])
    present = np.ones((nd, nl), dtype=bool)
    if binned:
        flat = sc.array(dims=['event'], values=np.tile(lam_vals.astype(lam_dtype), nd), unit=form['wl_unit'], dtype=lam_dtype)
        begin = sc.array(dims=['det'], values=np.arange(nd) * nl, unit=None, dtype='int64')
        wl = sc.bins(dim='event', data=flat, begin=begin, end=begin + sc.index(nl))
        want_dims = {'det'}
    elif wl_form == 'outer':
        wl = sc.array(dims=['wavelength'], values=lam_vals.astype(lam_dtype), unit=form['wl_unit'], dtype=lam_dtype)
        want_dims = {'det', 'wavelength'}
    elif wl_form == 'strided':
        big = np.full(2 * nl, 3.25, dtype=lam_dtype)
        big[::2] = lam_vals
        wl = sc.array(dims=['wavelength'], values=big, unit=form['wl_unit'], dtype=lam_dtype)['wavelength', ::2]
        want_dims = {'det', 'wavelength'}
    elif wl_form == 'grid':
        wl = sc.array(dims=['det', 'wavelength'], values=np.tile(lam_vals.astype(lam_dtype), (nd, 1)), unit=form['wl_unit'],
                      dtype=lam_dtype)
        want_dims = {'det', 'wavelength'}
    elif wl_form == 'grid_transposed':
        wl = sc.array(dims=['wavelength', 'det'], values=np.tile(lam_vals.astype(lam_dtype)[:, None], (1, nd)),
                      unit=form['wl_unit'], dtype=lam_dtype)
        want_dims = {'det', 'wavelength'}
    elif wl_form == 'per_detector':
        wl = sc.array(dims=['det'], values=np.array([lam_vals[i % nl] for i in range(nd)], dtype=lam_dtype),
                      unit=form['wl_unit'], dtype=lam_dtype)
        present[:] = False
        for i in range(nd):
            present[i, i % nl] = True
        want_dims = {'det'}
    elif wl_form == 'scalar':
        wl = sc.scalar(float(lam_vals[scalar_index]), unit=form['wl_unit'], dtype=lam_dtype)
        present[:] = False
        present[:, scalar_index] = True
        want_dims = {'det'}
    else:
        raise MachineryError(f'unknown wavelength form {wl_form}')

    def wl_bits():
        return np.array(wl.bins.constituents['data'].values if binned else wl.values, copy=True)

    before = (np.array(ib.values, copy=True), np.array(sb.values, copy=True), np.array(gv.values, copy=True), wl_bits())

    def grid(v):
        if binned:
            d = v.bins.constituents['data']
            return d.values.reshape(nd, nl), d.dtype, d.unit
        if set(v.dims) != want_dims:
            raise _ShapeError(f'result has dims {v.dims}, expected {sorted(want_dims)}')
        if want_dims == {'det'}:
            col = np.asarray(v.values).reshape(nd)
            out = np.full((nd, nl), np.nan)
            for i in range(nd):
                for j in range(nl):
                    if present[i, j]:
                        out[i, j] = col[i]
            return out, v.dtype, v.unit
        return v.transpose(['det', 'wavelength']).values, v.dtype, v.unit

    want_dt = sc.DType.float32 if lam_dtype == 'float32' else sc.DType.float64

    def once():
        out = {'returned': True, 'exc': None, 'present': present}
        try:
            r = bl.scattering_angles_with_gravity(incident_beam=ib, scattered_beam=sb, wavelength=wl, gravity=gv)
            out['tt'], dt1, u1 = grid(r['two_theta'])
            out['phi'], dt2, u2 = grid(r['phi'])
            out['dtype_ok'] = bool(dt1 == want_dt and dt2 == want_dt and u1 == sc.Unit('rad') and u2 == sc.Unit('rad'))
        except Exception as e:  # noqa: BLE001
            out.update(returned=False, exc=repr(e), dtype_ok=False)
        try:
            rr = bl.scattering_angle_in_yz_plane(incident_beam=ib, scattered_beam=sb, wavelength=wl, gravity=gv)
            out['refl'], _, _ = grid(rr)
            out['refl_kind'] = 'angle'
        except ValueError:
            out['refl'], out['refl_kind'] = None, 'refused'
        except Exception as e:  # noqa: BLE001  (includes _ShapeError: a result with unexpected dims)
            out['refl'], out['refl_kind'], out['refl_exc'] = None, 'error', repr(e)
        try:
            free = np.asarray(bl.two_theta(incident_beam=ib, scattered_beam=sb).values).reshape(nd)
            out['free'] = free
        except Exception:  # noqa: BLE001
            out['free'] = None
        after = (ib.values, sb.values, gv.values, wl_bits())
        out['inputs_kept'] = all(_same_bits(x, y) for x, y in zip(before, after))
        return out

    out = once()
    if twice:
        out['second'] = once()
    return out


def _units(err, f32):
    return G.units_of(err, UNIT32 if f32 else UNIT64)


def _observe(res, i, j, ref, ref_low, free_ref, f32):
    """Project one element (detector i, wavelength j) to the integer observation record."""
    cond_max = COND32 if f32 else COND64
    o = {'returned': bool(res['returned']), 'dtype_ok': bool(res['dtype_ok']), 'e_tt': 0, 'e_phi': 0,
         'phi_checked': False, 'lowered': False, 'refl': res['refl_kind'], 'refl_checked': False, 'e_refl': 0,
         'cmp': 0, 'cmp_sig': False, 'e_free': 0, 'judged': False, 'inputs_kept': bool(res.get('inputs_kept', True))}
    if not res['returned']:
        return o
    tt, phi = float(res['tt'][i][j]), float(res['phi'][i][j])
    tol_abs = TOL * (UNIT32 if f32 else UNIT64)
    if ref['cond'] <= cond_max:
        o['judged'] = True
        o['e_tt'] = _units(G.mpf(tt) - ref['tt'], f32) if math.isfinite(tt) else 2**30
        if o['e_tt'] > TOL and math.isfinite(tt):
            # diagnosis only (selects the violation key): the result equals the construction with the
            # beam LOWERED, b2 - delta e_y, although it differs from the documented one
            o['lowered'] = bool(abs(G.mpf(tt) - ref_low['tt']) <= tol_abs)
        o['e_free'] = _units(G.mpf(tt) - free_ref, f32) if math.isfinite(tt) else 2**30
    if ref['cond_phi'] <= cond_max:
        o['phi_checked'] = True
        o['e_phi'] = _units(G.circ_dist(G.mpf(phi), ref['phi']), f32) if math.isfinite(phi) else 2**30
    if res['refl'] is not None and ref['cond_refl'] <= cond_max:
        rv = float(res['refl'][i][j])
        o['refl_checked'] = True
        o['e_refl'] = _units(G.mpf(rv) - ref['refl'], f32) if math.isfinite(rv) else 2**30
    if res['free'] is not None and math.isfinite(tt):
        d = tt - float(res['free'][i])
        o['cmp'] = 0 if abs(d) <= 4 * tol_abs else (1 if d > 0 else -1)
        o['cmp_sig'] = bool(abs(ref['tt'] - free_ref) > 16 * tol_abs) or bool(ref['tt'] == free_ref)
    return o


# ------------------------------------------------------------------------------ the beam-aligned frame
def _int_frame(ey, zp, ex):
    """unit vectors (mpf) from the integer numerators of the specification (GravityDefs!EyN, ZpN, ExN)"""
    out = {}
    for k, v in (('ey', ey), ('ez', zp), ('ex', ex)):
        n = mpmath.sqrt(G.mpf(sum(int(x) * int(x) for x in v)))
        out[k] = tuple(G.mpf(int(x)) / n for x in v)
    return out


def _frame_obs(b1, unit_b, gvec, want):
    """beam_aligned_unit_vectors on one incident beam against the documented basis `want` (mpf unit vectors);
    errors in units of 1e-16 (largest component error; largest deviation of the six inner products)."""
    from scippneutron.conversion import beamline as bl

    o = {'returned': False, 'unit_ok': False, 'e_frame': 0, 'ortho': 0}
    try:
        r = bl.beam_aligned_unit_vectors(incident_beam=sc.vector(np.asarray(b1, dtype='float64'), unit=unit_b),
                                         gravity=sc.vector(np.asarray(gvec, dtype='float64'), unit='m/s^2'))
        vs = {k: r[f'beam_aligned_unit_{k[1]}'] for k in ('ex', 'ey', 'ez')}
        o['unit_ok'] = all(v.dtype == sc.DType.vector3 and v.unit == sc.Unit('dimensionless') and v.ndim == 0 for v in vs.values())
        got = {k: [float(x) for x in np.asarray(v.values).reshape(3)] for k, v in vs.items()}
        o['returned'] = True
    except Exception as e:  # noqa: BLE001
        o['exc'] = repr(e)[:200]
        return o
    if not all(math.isfinite(x) for v in got.values() for x in v):
        o['e_frame'] = o['ortho'] = 2**30
        return o
    o['e_frame'] = max(G.units_of(G.mpf(got[k][a]) - want[k][a], 1e-16) for k in got for a in range(3))
    gm = {k: tuple(G.mpf(x) for x in v) for k, v in got.items()}
    dev = [G.dot(gm[a], gm[b]) - (1 if a == b else 0) for a, b in (('ex', 'ex'), ('ey', 'ey'), ('ez', 'ez'), ('ex', 'ey'), ('ex', 'ez'), ('ey', 'ez'))]
    o['ortho'] = max(G.units_of(d, 1e-16) for d in dev)
    return o


# ------------------------------------------------------------------------------ (a) rational lattice cases
def _replay_rational(ctx, cases, events, stats):
    S = 128  # metres per lattice unit
    groups = {}
    for c in cases:
        groups.setdefault((tuple(c['g']), tuple(c['b1'])), []).append(c)
    for (g, b1), items in sorted(groups.items()):
        ng = items[0]['ng']
        fg = {1: 64, 3: 32, 5: 16, 7: 8}[ng]
        gvec = [x * fg for x in g]
        gn_exact = fg * ng  # |g| in m/s^2 (integer)
        dets = sorted({tuple(c['b2']) for c in items})
        qs = sorted({Fraction(c['q'][0], c['q'][1]) for c in items})
        # wavelength realising q: q = |g| c lambda^2 S  (lattice units)  ->  lambda in angstrom
        lams = []
        for q in qs:
            lam_m = mpmath.sqrt(G.to_mpf(q / (gn_exact * C_DROP * S)))
            lams.append(float(lam_m * G.mpf(10) ** 10))
        if max(lams) > 100.0:
            raise MachineryError(f'wavelength outside the quantifier: {lams}')
        b1r = [x * S for x in b1]
        detr = [[x * S for x in d] for d in dets]
        res = _call(b1r, detr, lams, 'float64', gvec, _form())
        frame = G.gravity_frame(G.fvec(b1r), G.fvec(gvec))
        c0 = items[0]
        fo = _frame_obs(b1r, 'm', gvec, _int_frame(c0['ey'], c0['zp'], c0['ex']))
        events.append(dict(fo, ev='frame', tid=len(events), lattice=True, g=list(g), b1=list(b1),
                           want={'ey': c0['ey'], 'zp': c0['zp'], 'ex': c0['ex']}))
        ctx.case(nontrivial_id=repr(('frame-rat', g, b1)) if fo['returned'] else None)
        bykey = {(tuple(c['b2']), Fraction(c['q'][0], c['q'][1])): c for c in items}
        for i, d in enumerate(dets):
            l2sq = Fraction(S * S * sum(x * x for x in d))
            free_ref = G.mp_angle(frame['b1'], G.mp_vec(detr[i]))
            for j, q in enumerate(qs):
                c = bykey.get((d, q))
                if c is None:
                    continue
                lam_m = Fraction(lams[j]) * ANGSTROM
                delta = _delta(frame['gn'], lam_m, l2sq)
                ref = G.gravity_angles(frame, G.fvec(detr[i]), delta)
                ref_low = G.gravity_angles(frame, G.fvec(detr[i]), -delta)
                mine = _rat_classes(g, b1, d, q, ng)
                # the multiprecision oracle (actual floats) against the exact class (spec's q): they
                # differ only by the rounding of lambda (relative 1e-16 in delta)
                ok = abs(ref['tt'] - G.angle_of_class(mine['tt'])) < 1e-13
                if ref['cond_phi'] <= COND64:
                    ok = ok and G.circ_dist(ref['phi'], _phi_of_class(mine['phi'])) < 1e-13
                if mine['refl'][0] == 'angle' and ref['cond_refl'] <= COND64:
                    ok = ok and abs(ref['refl'] - G.angle_of_class(mine['refl'][1])) < 1e-13
                o = _observe(res, i, j, ref, ref_low, free_ref, f32=False)
                stats['worst64'] = max(stats['worst64'], o['e_tt'] if (o['judged'] and c['path'] == 'optimised') else 0)
                events.append({'ev': 'rat', 'tid': len(events), 'g': list(g), 'b1': list(b1), 'b2': list(d),
                               'q': [q.numerator, q.denominator], 'cls_tt': mine['tt'], 'cls_phi': mine['phi'],
                               'cls_free': mine['free'], 'cls_refl': mine['refl'], 'oracle_ok': bool(ok), 'o': o,
                               'in': {'incident_beam_m': b1r, 'scattered_beam_m': detr[i], 'gravity': gvec,
                                      'wavelength_angstrom': lams[j], 'got_two_theta': float(res['tt'][i][j]) if res['returned'] else None,
                                      'want_two_theta': float(ref['tt']), 'exc': res.get('exc')}})
                ctx.case(nontrivial_id=repr(('rat', g, b1, d, q)) if (o['returned'] and o['judged']) else None)


# ------------------------------------------------------------------------------ (b) physical grid
# (name, y, z, length of the incident beam in m): incident beam = length * (0, y, z) in the untilted frame
TILTS = [('0', 0.0, 1.0, 1.0), ('2^-40', 2.0 ** -40, 1.0, 1.0), ('-2^-40', -(2.0 ** -40), 1.0, 1.0),
         ('2^-34', 2.0 ** -34, 1.0, 1.0), ('2^-33', 2.0 ** -33, 1.0, 1.0), ('2^-20', 2.0 ** -20, 1.0, 1.0),
         ('1e-3', math.sin(1e-3), math.cos(1e-3), 1.0), ('0.1', math.sin(0.1), math.cos(0.1), 1.0),
         ('-0.1', -math.sin(0.1), math.cos(0.1), 1.0), ('1', math.sin(1.0), math.cos(1.0), 1.0),
         # the documented dispatch threshold is an off-plane COMPONENT of 1e-10 length units of the incident beam,
         # not an angle: a 32 m beam tilted by 2^-36 rad has 4.7e-10 m off the plane (class above: general path,
         # reflectometry refuses), a 2^-6 m beam tilted by 2^-30 rad has 1.5e-11 m (class sub)
         ('32m x 2^-36', 2.0 ** -36, 1.0, 32.0), ('2^-6m x 2^-30', 2.0 ** -30, 1.0, 2.0 ** -6)]
LAMS = [0.0, 0.5, 1.0, 10.0, 100.0]  # exactly representable in float32 as well
GMAGS = [2.0 ** -30, 9.80665, 100.0]
# one of these operand forms (GravityDefs!ValidForm) is added to every (orientation, |g|, tilt) combination
EXTRA_FORMS = [
    _form(wl='grid'),
    _form(wl='per_detector', ib='per_pixel', wl_unit='nm'),
    _form(wl='outer', wl_unit='m'),
    _form(wl='grid_transposed', g_unit='cm/s^2', sb_unit='mm'),
    _form(wl='scalar', ib_unit='mm'),
    _form(wl='outer', ib='per_pixel_mixed'),
    _form(wl='strided', wl_unit='nm', g_unit='cm/s^2'),
    _form(wl='binned', ib='per_pixel_mixed', sb_unit='mm', ib_unit='mm'),
    _form(wl='per_detector', wl_unit='m', g_unit='cm/s^2'),
    _form(wl='grid', ib='per_pixel_mixed', wl_unit='nm'),
    _form(wl='scalar', ib='per_pixel', wl_unit='m'),
]
# Allowance (units of 1e-15 rad) for forms whose operands are re-expressed in another unit by a float
# multiplication: every re-expressed operand moves by <= 2^-53 relative, so delta = |g| c lambda^2 L2^2 moves
# by <= 5 * 2^-53 relative and the beams by 2^-53; the angle to a fixed direction moves by at most
# (|b2| 2^-53 + delta 5 * 2^-53) / |b2'| <= 5 * 1.1e-16 * cond <= 3.6e-14 rad (cond <= 64), plus 1.1e-16 for the
# direction of the incident beam: 40 units.  (float32 results: 1 unit of 1e-8.)
EXTRA_ALLOW64 = 40


def _tclass(b1, gvec):
    """Dispatch class by the documented rule |g.b1| > 1e-10 |g| (in the unit of b1), decided exactly."""
    gb = G.dot(G.fvec(gvec), G.fvec(b1))
    if gb == 0:
        return 'zero', G.mpf(0)
    g2, b2 = G.norm2(G.fvec(gvec)), G.norm2(G.fvec(b1))
    r = abs(G.to_mpf(gb)) / mpmath.sqrt(G.to_mpf(g2))
    tau = mpmath.asin(min(G.mpf(1), r / mpmath.sqrt(G.to_mpf(b2))))
    thr = G.mpf(10) ** -10
    if r < thr * G.mpf('0.99'):
        return 'sub', tau
    if r <= thr * G.mpf('1.01'):
        return 'band', tau
    return 'above', tau


BATCH_RANK = {'zero': 0, 'sub': 1, 'band': 2, 'above': 3}  # = GravityDefs!BatchClass: the highest class present


def _replay_physical(ctx, events, stats, thorough, pool):
    rots = G.rot24()
    if not thorough:
        rots = rots[::4]
    box = [(x, y, z) for x in (-1, 0, 1) for y in (-1, 0, 1) for z in (-1, 0, 1) if (x, y, z) != (0, 0, 0)]
    dets_l = box if thorough else [d for d in box if sum(map(abs, d)) in (1, 3)] + [(0, 1, 1), (1, -1, 0), (-1, 0, 1)]
    ldet = 2.0
    nd = len(dets_l)
    ci = 0
    for ri, R in enumerate(rots):
        glat = G.matvec(R, (0, -1, 0))
        b1lat = G.matvec(R, (0, 0, 1))
        dets_rot = [G.matvec(R, d) for d in dets_l]
        for gi, gm in enumerate(GMAGS):
            cont = {}
            base0 = None
            for (tname, ty, tz, blen) in TILTS:
                unit_b, scale_b = ('m', 1.0)
                if tname == '1e-3' and ri % 2 == 1:
                    unit_b, scale_b = ('mm', 1000.0)  # same geometry expressed in millimetres
                b1 = [float(x) for x in G.matvec(R, (0.0, ty * blen * scale_b, tz * blen * scale_b))]
                gvec = [float(x) * gm for x in glat]
                detr = [[float(x) * ldet * scale_b for x in d] for d in dets_rot]
                to_m = Fraction(1, 1000) if unit_b == 'mm' else Fraction(1)
                frame = G.gravity_frame(tuple(Fraction(x) * to_m for x in b1), G.fvec(gvec))
                refs = {}
                for i in range(nd):
                    dm = tuple(Fraction(x) * to_m for x in detr[i])
                    l2sq = G.norm2(dm)
                    free_ref = G.mp_angle(frame['b1'], G.mp_vec(dm))
                    for j, lam in enumerate(LAMS):
                        delta = _delta(frame['gn'], Fraction(lam) * ANGSTROM, l2sq)
                        refs[i, j] = (G.gravity_angles(frame, dm, delta), G.gravity_angles(frame, dm, -delta), free_ref)
                if tname == '0':
                    base0 = (b1, refs)  # the untilted beam of this orientation: the other pixels of per_pixel_mixed
                # ---- the frame itself
                fo = _frame_obs(b1, unit_b, gvec, frame)
                events.append(dict(fo, ev='frame', tid=len(events), lattice=False, g=list(glat), b1=list(b1lat),
                                   want={'ey': [0, 0, 0], 'zp': [0, 0, 0], 'ex': [0, 0, 0]}, tilt=tname))
                ctx.case(nontrivial_id=repr(('frame', ri, gi, tname)) if fo['returned'] else None)
                # ---- the calls of this combination: (form, wavelength dtype, call twice with the same operands)
                base = _form(ib_unit=unit_b, sb_unit=unit_b)
                calls = [(base, 'float64', False)]
                if blen == 1.0 or thorough:
                    calls += [(base, 'float32', False), (dict(base, wl='binned'), 'float64', False)]
                if thorough:
                    calls.append((dict(base, wl='binned'), 'float32', False))
                extra_form = EXTRA_FORMS[ci % len(EXTRA_FORMS)]
                calls.append((extra_form, 'float32' if ci % 4 == 3 else 'float64', ci % 5 == 0 or extra_form['wl_unit'] == 'm'))
                ci += 1
                for ki, (form, ldt, twice) in enumerate(calls):
                    f32 = ldt == 'float32'
                    mixed = form['ib'] == 'per_pixel_mixed'
                    fi, fs = L_FACTOR[form['ib_unit']] / scale_b, L_FACTOR[form['sb_unit']] / scale_b
                    own = [(base0 if (mixed and i % 2 == 0) else (b1, refs)) for i in range(nd)]
                    b1_vals = [[x * fi for x in o[0]] for o in own]
                    det_vals = [[x * fs for x in d] for d in detr]
                    reexpressed = fi != 1.0 or fs != 1.0 or form['wl_unit'] != 'angstrom' or form['g_unit'] != 'm/s^2'
                    extra = (1 if f32 else EXTRA_ALLOW64) if reexpressed else 0
                    classes = {}
                    for o_b1 in {tuple(v) for v in b1_vals}:
                        classes[o_b1] = _tclass(list(o_b1), gvec)  # in the unit the incident beam is given in
                    pix_class = [classes[tuple(v)] for v in b1_vals]
                    bclass = max((c for c, _ in pix_class), key=BATCH_RANK.get)
                    kinds = sorted({c for c, _ in pix_class}, key=BATCH_RANK.get)
                    sidx = ci % len(LAMS)
                    args = (b1_vals[0] if form['ib'] == 'one' else b1_vals, det_vals, LAMS, ldt, gvec, form, sidx)

                    def emit(res, use, form=form, f32=f32, own=own, pix_class=pix_class, bclass=bclass, kinds=kinds,
                             extra=extra, ldt=ldt, tname=tname, b1_vals=b1_vals, det_vals=det_vals, gvec=gvec,
                             ident=(ri, gi, tname, ki), glat=glat, b1lat=b1lat, dets_rot=dets_rot):
                        if not res['returned']:
                            ctx.violation(f'scattering_angles_with_gravity raised for tilt class {bclass}'
                                          + ('' if form['wl'] in ('outer', 'binned') and form['ib'] == 'one' else ' (non-default operand form)'),
                                          {'exc': res['exc'], 'incident_beam': b1_vals[-1], 'gravity': gvec, 'form': form})
                        if res['refl_kind'] == 'error':
                            ctx.violation('scattering_angle_in_yz_plane raised an exception other than ValueError',
                                          {'exc': res.get('refl_exc'), 'incident_beam': b1_vals[-1], 'gravity': gvec, 'form': form})
                        for i in range(nd):
                            tclass, tau = pix_class[i]
                            allow = _units(tau, f32) + 1
                            other = [k for k in kinds if k != tclass]
                            for j, lam in enumerate(LAMS):
                                if not res['present'][i, j]:
                                    continue
                                ref, ref_low, free_ref = own[i][1][i, j]
                                o = _observe(res, i, j, ref, ref_low, free_ref, f32)
                                if use == 'first' and o['judged'] and tclass == 'zero' and form['ib'] == 'one':
                                    k = 'worst32' if f32 else 'worst64'
                                    stats[k] = max(stats[k], o['e_tt'])
                                events.append({'ev': 'phys', 'tid': len(events), 'glat': list(glat), 'b1lat': list(b1lat),
                                               'det': list(dets_rot[i]), 'tilt': tname, 'tclass': tclass, 'bclass': bclass,
                                               'other_class': other[0] if other else tclass, 'form': form, 'extra': extra,
                                               'use': use, 'lam_pos': lam > 0, 'f32': f32, 'binned': form['wl'] == 'binned',
                                               'allow': allow, 'o': o,
                                               'in': {'incident_beam': b1_vals[i], 'scattered_beam': det_vals[i],
                                                      'gravity_m_s2': gvec, 'wavelength_angstrom': lam,
                                                      'got_two_theta': float(res['tt'][i][j]) if res['returned'] else None,
                                                      'want_two_theta': float(ref['tt']), 'gravity_free': float(free_ref)}})
                                ctx.case(nontrivial_id=repr(('phys', ident, i, j, ldt, _form_name(form), use))
                                         if (o['returned'] and o['judged']) else None)

                    res = _call(*args, twice=twice)
                    emit(res, 'first')
                    if twice:
                        emit(res['second'], 'second')
                    if (ci * 5 + ki) % 13 == 0:
                        pool.append((args, emit))
                    if ki == 0 and tname in ('2^-34', '2^-33') and res['returned']:
                        cont[tname] = (res['tt'], pix_class[0][1])
            if len(cont) == 2:
                (below, _), (above, tau_a) = cont['2^-34'], cont['2^-33']
                for i in range(len(dets_rot)):
                    for j, lam in enumerate(LAMS):
                        d = abs(float(below[i][j]) - float(above[i][j]))
                        events.append({'ev': 'cont', 'tid': len(events), 'd': G.units_of(d, UNIT64) if math.isfinite(d) else 2**30,
                                       'tau_above': G.units_of(tau_a, UNIT64) + 1, 'glat': list(glat),
                                       'det': list(dets_rot[i]),
                                       'in': {'below': float(below[i][j]), 'above': float(above[i][j]),
                                              'wavelength_angstrom': lam, 'g_m_s2': gm}})
                        ctx.case(nontrivial_id=repr(('cont', ri, gi, i, j)))


def _form_name(form):
    return (f'wavelength {form["wl"]} [{form["wl_unit"]}], incident beam {form["ib"]} [{form["ib_unit"]}], '
            f'scattered beam [{form["sb_unit"]}], gravity [{form["g_unit"]}]')


def _replay_again(ctx, pool):
    """Item 6 of HARDENING.md: a sample of this run's own calls once more at the end, in reverse order, judged
    against the same oracle values as the first time."""
    for args, emit in reversed(pool):
        emit(_call(*args), 'again')


# ------------------------------------------------------------------------------ main
def _key(ev, clause):
    if clause == 'general_path_two_theta_is_that_of_a_beam_lowered_along_gravity':
        return KEY_LOWERED
    if ev['ev'] == 'cont':
        return 'two_theta jumps between tilts just below and just above the dispatch threshold'
    if ev['ev'] == 'rat':
        path = 'perpendicular beam (optimised path)' if G.dot(ev['g'], ev['b1']) == 0 else 'tilted beam (general path)'
        return f'lattice setup, {path}: {clause}'
    if ev['ev'] == 'frame':
        return f'beam_aligned_unit_vectors ({"lattice setup" if ev["lattice"] else "tilted beam"}): {clause}'
    var = ('float32' if ev['f32'] else 'float64') + (' binned' if ev['binned'] else ' dense')
    key = f'tilt class {ev["tclass"]}, {var} wavelength: {clause}'
    form = ev['form']
    if not (form['wl'] in ('outer', 'binned') and form['ib'] == 'one' and form['wl_unit'] == 'angstrom'
            and form['g_unit'] == 'm/s^2' and form['ib_unit'] == form['sb_unit']):
        # one suffix for all non-default forms (the form itself is in the event): keys must not multiply
        key += ' [non-default operand form]'
    if ev['use'] != 'first':
        key += ' [second use]'
    return key


def run(ctx):
    ctx.rule = RULE
    refmap.check_constants()
    ctx.assume('h and m_n are the floats scipp.constants exposes, taken as exact rationals')
    ctx.assume('0 < |g.b1| <= 1e-10 |g| (documented dispatch threshold) may be treated as perpendicular: '
               'the bound is widened by the tilt angle for exactly those cases; within 1% of the threshold '
               'either path/refusal is accepted')
    ctx.assume('cases with condition number (|b2|+delta)/|b2\'| > 64 (float32: 8) are evaluated but not judged')
    ctx.assume('"larger than the gravity-free angle for detectors above a horizontal beam" is read for forward '
               'detectors (z_d > 0); for z_d = 0 the angle is unchanged and for z_d < 0 it is smaller '
               '(proved on the model, invariant Larger)')
    thorough = ctx.thorough

    # ---- 1. design
    cfg = 'MC_Gravity_thorough.cfg' if thorough else 'MC_Gravity.cfg'
    res = ctx.tlc('conv/MC_Gravity.tla', cfg, workers=WORKERS, timeout=2400)
    require_ok(ctx, res, 'Gravity model')
    for neg in ('plus_g', 'opt_no_x', 'refl_accepts', 'all_pixels'):
        ctx.tlc('conv/MC_Gravity.tla', f'Neg_Gravity_{neg}.cfg', workers=WORKERS, expect_error=True, timeout=300)

    # ---- 2. cases enumerated by TLC
    out = ctx.tmp / 'c04-cases.ndjson'
    ccfg = 'GravityCases_thorough.cfg' if thorough else 'GravityCases.cfg'
    cres = ctx.tlc('conv/GravityCases.tla', ccfg, workers=1, env={'OUT_FILE': str(out)}, timeout=900, count=False)
    require_ok(ctx, cres, 'GravityCases export')
    cases = [json.loads(line) for line in open(out)]
    tag = cres.tagged('CASES')
    if not tag or tag[0][1] != len(cases):
        raise MachineryError(f'case export incomplete: {tag} vs {len(cases)}')
    ctx.extra['cases_exported'] = len(cases)

    events = []
    stats = {'worst64': 0, 'worst32': 0}
    _replay_rational(ctx, cases, events, stats)
    n_rat = len(events)
    pool = []
    _replay_physical(ctx, events, stats, thorough, pool)
    _replay_again(ctx, pool)
    ctx.extra['calls_replayed_again'] = len(pool)
    ctx.extra['worst_two_theta_error_perpendicular'] = {'float64_1e-15rad': stats['worst64'],
                                                         'float32_1e-8rad': stats['worst32'], 'tolerance': TOL}
    for e in (events[0], events[n_rat], events[-1]):
        ctx.sample(e)

    # ---- 3. TLC judges every event
    tf = ctx.tmp / 'c04.ndjson'
    write_ndjson(tf, [{k: v for k, v in e.items() if k != 'in'} for e in events])
    tr = ctx.tlc('conv/Trace_Gravity.tla', workers=1, env={'TRACE_FILE': str(tf)}, timeout=2400)
    require_ok(ctx, tr, 'Trace_Gravity')
    done = tr.tagged('DONE')
    if not done or done[0][1] != len(events):
        raise MachineryError(f'trace validation incomplete: {done} vs {len(events)} events')
    ctx.traces(len(events))
    for rej in tr.tagged('REJECT'):
        _, line, _tid, clause = rej
        ev = events[line - 1]
        if clause in ('harness_reference_differs_from_spec', 'multiprecision_oracle_differs_from_exact_class',
                      'invalid_setup', 'unknown_event'):
            raise MachineryError(f'harness and specification disagree ({clause}) on event {ev}')
        ctx.violation(_key(ev, clause), {'event': ev})


META = {
    'design_ref': 'DESIGN.md §5 C04',
    'technique': 'TLA+ model of the documented raised-beam construction in exact rational arithmetic with the two '
                 'dispatch paths as implementation-shaped operators (Gravity), model-checked by TLC; lattice setups '
                 'exported by TLC and a physical tilt/detector/wavelength/gravity grid replayed into the real '
                 'functions; every evaluation recorded and judged by TLC (Trace_Gravity)',
    'text': 'TLC proves that both the general and the optimised formula equal the raised-beam construction, the '
            'q -> 0 limit, monotonicity, rotation invariance and the refusal table of the reflectometry variant. '
            'The real scattering_angles_with_gravity / scattering_angle_in_yz_plane are evaluated on every exported '
            'lattice setup (realised physically) and on a grid of tilts straddling the dispatch threshold; the '
            'reference is the construction evaluated by mpmath on the exact inputs, the bound 1e-12 rad '
            '(1e-5 for float32 wavelengths); TLC re-derives the harness\' exact classes and judges every event.',
    'note': 'Trusted: TLC, mpmath, scipp. Numeric closeness is decided on finitely many points. Sub-threshold tilts '
            'are allowed an error of one tilt angle (documented dispatch).',
}
