"""C02 — convert() succeeds iff the target is derivable, in the right mode, with the reported graph.

Spec: spec/conv/ConvertGraphDefs.tla (rule tables transcribed from the documentation, mode deduction,
graph selection, declarative least fixed point / computed set / provenance), ConvertGraph.tla (the
documented depth-first walk of transform_coords as a state machine), Emit_ConvertGraph.tla (M1 case
emitter), Trace_ConvertGraph.tla (judge of recorded executions).

1. TLC, exhaustive: over the configuration space (thorough: 4 origins x 21 targets x scatter x all
   2^11 subsets, plus the auxiliary inputs for the hkl / time_at_sample targets = 430 080
   configurations; quick: the 2^9 subsets containing all three positions or none) the walk
   answers exactly when the target is in the least fixed point of the selected graph
   (Sound / Complete), never recomputes a supplied coordinate (Precedence), never produces a
   quantity of the wrong scattering mode (NoWrongMode), walks the graph that is reported
   (GraphReportedIsUsed), and computes exactly the declarative provenance (WalkIsDeclarative).
   Eight negative controls (one wrong variant each) must be rejected.
2. spec -> code (M1): TLC emits every configuration (thorough) or a stratified sample (quick: one
   residue class (mod 101) of masks per head + 18 structured masks) with the expected mode, graph, outcome
   and the provenance tree (node -> kernel).
3. code -> spec (M2): for every emitted configuration the driver builds a DataArray and a Dataset
   with random, mutually inconsistent supplied coordinates, calls deduce_conversion_graph and
   convert, and records: outcome class, the set of coordinates added, the reported graph (keys,
   kernel names, kernel inputs), whether the reported graph is a private copy, whether supplied
   coordinates came back unchanged, and a value flag.  The value flag is computed by evaluating the
   spec's provenance tree with independent numpy float64 reference formulas (harness/lib_convert.py,
   constants from refmap) on the supplied values; tolerance 1e-9 relative (norm-wise for vectors).
   TLC cannot evaluate sqrt / sin, so this numeric comparison is done here and its boolean goes
   into the event; that the tree used is the spec's tree is re-checked by TLC ("provenance_echo").
   Also recorded: conversion_graph for all (origin, target, scatter, mode) and the graph
   factories.  Trace_ConvertGraph judges every event.
"""

from __future__ import annotations

import json
import multiprocessing as mp
import os
import shutil
import threading
import time

from ..core import MachineryError
from ..tlc import require_actions, require_ok, write_ndjson
from .. import lib_convert as L

RULE = ('configuration = (origin, target, scatter, 11-bit mask of supplied geometry/energy coordinates, '
        'aux inputs present) with target != origin; supplied values are independent random numbers '
        '(lengths 0.5..14 m, tof 1e4..5e4 us, E 20..100 meV, two_theta 0.2..2.9 rad) so that every '
        'alternative derivation gives a different value; non-trivial = the target is derivable and at '
        'least one coordinate has to be computed')

NEG = ['recompute:Precedence', 'swap_modes:OutcomeIsDeclarative', 'both_energies_direct:NoWrongMode',
       'elastic_energy_with_inelastic:NoWrongMode', 'noscatter_ignored:NoWrongMode',
       'used_full_graph:GraphReportedIsUsed', 'first_input_only:Sound', 'ignore_supplied_target:Complete']

TARGETS = ('incident_beam', 'scattered_beam', 'L1', 'L2', 'two_theta', 'Ltotal', 'hkl_vec', 'h', 'k',
           'l', 'ub_matrix', 'time_at_sample', 'dspacing', 'energy', 'wavelength', 'Q', 'Q_vec', 'Qx',
           'Qy', 'Qz', 'energy_transfer')
MODES = ('elastic', 'direct_inelastic', 'indirect_inelastic')


def _tlc_workers():
    try:
        return max(1, int(os.environ.get('VERIF_TLC_WORKERS', '16')))
    except ValueError:
        return 16


def _nproc():
    try:
        n = int(os.environ.get('VERIF_PROCS', '16'))
    except ValueError:
        n = 16
    return max(1, min(n, os.cpu_count() or 1))


class _Intern:
    """interning table for the trace: value -> id, with the 'def' events in creation order"""

    def __init__(self):
        self.ids = {}
        self.defs = []

    def get(self, kind, val):
        key = (kind, val)
        i = self.ids.get(key)
        if i is None:
            i = len(self.ids) + 1
            self.ids[key] = i
            if kind == 'graph':
                jv = [[list(o), k, list(ins)] for o, k, ins in val]
            elif kind == 'pairs':
                jv = [list(p) for p in val]
            else:
                jv = list(val)
            self.defs.append({'ev': 'def', 'tid': 0, 'id': i, 'kind': kind, 'val': jv})
        return i


def _out_class(s):
    return s if s in ('ok', 'RuntimeError') else 'other'


def _static_events(ctx, tab):
    """graph factories and conversion_graph over all argument combinations"""
    import scippneutron as scn
    from scippneutron.conversion import graph as G

    evs = []
    factories = {
        'beamline(scatter=True)': lambda: G.beamline.beamline(scatter=True),
        'beamline(scatter=False)': lambda: G.beamline.beamline(scatter=False),
        'elastic(tof)': lambda: G.tof.elastic('tof'),
        'elastic(wavelength)': lambda: G.tof.elastic('wavelength'),
        'elastic(energy)': lambda: G.tof.elastic('energy'),
        'elastic(Q)': lambda: G.tof.elastic('Q'),
        'kinematic(tof)': lambda: G.tof.kinematic('tof'),
        'direct_inelastic(tof)': lambda: G.tof.direct_inelastic('tof'),
        'indirect_inelastic(tof)': lambda: G.tof.indirect_inelastic('tof'),
    }
    for name, f in factories.items():
        try:
            gid = tab.get('graph', L.describe_graph(f()))
        except Exception as e:  # noqa: BLE001
            gid = -2
            ctx.extra.setdefault('exceptions', []).append(f'{name}: {e!r}'[:200])
        evs.append({'ev': 'factory', 'tid': 0, 'name': name, 'g': gid})
    for o in L.ORIGINS:
        for t in TARGETS:
            if t == o:
                continue
            for s in (True, False):
                for mode in MODES:
                    try:
                        g = scn.conversion_graph(o, t, s, mode)
                        desc = L.describe_graph(g)
                        g.clear()  # must not reach the module-level tables
                        if L.describe_graph(scn.conversion_graph(o, t, s, mode)) != desc:
                            ctx.violation('conversion_graph: mutating the returned graph changes later results',
                                          {'o': o, 't': t, 's': s, 'mode': mode})
                        gid = tab.get('graph', desc)
                    except Exception as e:  # noqa: BLE001
                        gid = -2
                        ctx.extra.setdefault('exceptions', []).append(f'conversion_graph{(o, t, s, mode)}: {e!r}'[:200])
                    evs.append({'ev': 'cgraph', 'tid': 0, 'o': o, 't': t, 's': s, 'mode': mode, 'g': gid})
    return evs


def _emit_cases(ctx):
    """M1: TLC writes the expected records; they stay JSON lines here (the workers parse them)"""
    out = ctx.tmp / 'c02-cases.ndjson'
    cfg = ctx.tmp / 'Emit_ConvertGraph.cfg'
    stride = 1 if ctx.thorough else 101
    phase = ctx.seed % stride
    cfg.write_text(f'SPECIFICATION ESpec\nCONSTANTS\n  Stride = {stride}\n  Phase = {phase}\n')
    res = L.spaced_tlc(ctx, 'conv/Emit_ConvertGraph.tla', str(cfg), workers=1, env={'OUT_FILE': str(out)},
                  timeout=900, count=False)
    require_ok(ctx, res, 'Emit_ConvertGraph')
    em = res.tagged('EMITTED')
    lines = [ln for ln in open(out) if ln.strip()]
    if not em or em[0][1] != len(lines) or not lines:
        raise MachineryError(f'case emission incomplete: {em} vs {len(lines)} records')
    if ctx.thorough and len(lines) != 430080:
        raise MachineryError(f'expected the complete space of 430080 configurations, got {len(lines)}')
    out.unlink()
    return lines


def _run_negs(ctx):
    """negative controls, a few at a time (each is a small TLC run that must fail)"""
    errs = []

    def one(i, name):
        try:
            r = L.spaced_tlc(ctx, 'conv/MC_ConvertGraph.tla', f'Neg_ConvertGraph_{name}.cfg', workers=2,
                        expect_error=True, timeout=600)
            want = dict(n.split(':') for n in NEG)[name]
            if want not in r.error:
                errs.append(f'negative control {name}: expected {want} to be violated, got: {r.error}')
        except Exception as e:  # noqa: BLE001
            errs.append(f'{name}: {e}')

    def coverage():
        # non-vacuity: every action of the walk is taken on the small space (DESIGN 3.5)
        try:
            r = L.spaced_tlc(ctx, 'conv/MC_ConvertGraph.tla', 'Cov_ConvertGraph.cfg', workers=2, coverage=True, timeout=600,
                        count=False)
            require_ok(ctx, r, 'ConvertGraph coverage run')
            require_actions(r, ['Supply', 'DeduceMode', 'SelectGraph', 'Found', 'Fail', 'Descend', 'Compute',
                                'Finish'])
        except Exception as e:  # noqa: BLE001
            errs.append(f'coverage: {e}')

    threads = [threading.Thread(target=one, args=(i, n.split(':')[0])) for i, n in enumerate(NEG)]
    threads.append(threading.Thread(target=coverage))
    for t in threads:
        t.start()
    for t in threads:
        t.join()
    if errs:
        raise MachineryError('; '.join(errs))


def _trace_selftest(ctx, tab, events, rejected):
    """non-vacuity of the judge: a slice of the recorded trace with (a) one value flag flipped,
    (b) one computed set replaced by another set, (c) the definition of one reported graph removed
    must be rejected at exactly those events (DESIGN 3.5)."""
    import copy

    ok_evs = [e for e in events if e['da']['out'] == 'ok' and e['ds']['out'] == 'ok' and e['tid'] not in rejected]
    if len(ok_evs) < 3 or len({e['g'] for e in ok_evs}) < 2:
        if rejected:  # the implementation is broken so badly that no clean slice exists; verdicts stand
            ctx.extra['trace_selftest'] = 'skipped: no accepted answered events to corrupt'
            return
        raise MachineryError('trace self-test: not enough answered events')
    sl = copy.deepcopy(ok_evs[::max(1, len(ok_evs) // 150)][:150])
    drop = sl[0]['g']
    rest = [e for e in sl if e['g'] != drop]
    if len(rest) < 2:
        rest = [e for e in copy.deepcopy(ok_evs) if e['g'] != drop][:2]
        sl += rest
    if len(rest) < 2:
        ctx.extra['trace_selftest'] = 'skipped: answered events use a single graph'
        return
    a, b = rest[0], rest[-1]
    a['ds']['val'] = False
    other = next(d['id'] for d in tab.defs if d['kind'] == 'names' and d['id'] != b['da']['add'])
    b['da']['add'] = other
    expect = {a['tid']: 'value_Dataset', b['tid']: 'computed_set_DataArray'}
    for e in sl:
        if e['g'] == drop:
            expect[e['tid']] = 'deduce_conversion_graph_raised'
    defs = [d for d in tab.defs if not (d['kind'] == 'graph' and d['id'] == drop)]
    tf = ctx.tmp / 'c02-selftest.ndjson'
    write_ndjson(tf, defs + sl)
    tr = L.spaced_tlc(ctx, 'conv/Trace_ConvertGraph.tla', workers=1, env={'TRACE_FILE': str(tf)}, timeout=600, count=False)
    require_ok(ctx, tr, 'Trace_ConvertGraph self-test')
    got = {tid: clause for _, _line, tid, clause in tr.tagged('REJECT')}
    if got != expect:
        if rejected:  # do not let the judge's self-test mask real verdicts
            ctx.extra['trace_selftest'] = 'inconclusive on a tree with violations'
            return
        diff = {k: (got.get(k), expect.get(k)) for k in set(got) | set(expect) if got.get(k) != expect.get(k)}
        raise MachineryError(f'trace self-test: judge verdicts differ from the planted corruptions (tid: got, expected): '
                             f'{dict(list(diff.items())[:8])}')
    ctx.extra['trace_selftest'] = f'{len(expect)} corrupted events rejected, {len(sl) - len(expect)} accepted'


def _key(c, clause):
    aux = ', aux inputs present' if c['x'] else ''
    return f"convert({c['o']} -> {c['t']}, scatter={c['s']}{aux}): {clause}"


def run(ctx):
    from ..refmap import check_constants

    check_constants()
    ctx.rule = RULE
    ctx.assume('the documented no-scatter / inelastic graphs start from tof only (kinematic, direct_inelastic, '
               'indirect_inelastic: "only tof is supported"), so for other origins those targets are not '
               'derivable and RuntimeError is the expected outcome')
    ctx.assume('only the exception class is compared (RuntimeError vs anything else); where the mode is '
               'ambiguous but the target is a pure geometry node, answering from the beamline graph is '
               'accepted as well as refusing (DESIGN 3.4)')
    ctx.assume('value flag: numpy float64 reference formulas, 1e-9 relative (norm-wise for vectors and '
               'matrices); rounding-level agreement of the kernels is decided by C01/C03/C05')
    ctx.assume('containers: DataArray and Dataset with two items; pulse_time is a float64 time in us')

    # ---- 1. design: TLC exhaustive + negative controls (concurrently with the emission)
    cfg = 'MC_ConvertGraph_thorough.cfg' if ctx.thorough else 'MC_ConvertGraph.cfg'
    neg_err = []

    def negs():
        try:
            _run_negs(ctx)
        except Exception as e:  # noqa: BLE001
            neg_err.append(e)

    res = L.spaced_tlc(ctx, 'conv/MC_ConvertGraph.tla', cfg, timeout=1500, coverage=False, workers=_tlc_workers())
    require_ok(ctx, res, 'ConvertGraph model')
    ctx.exhaustive = bool(ctx.thorough)
    negt = threading.Thread(target=negs)
    negt.start()

    # ---- 2. M1: TLC-emitted cases
    cases = _emit_cases(ctx)
    negt.join()
    if neg_err:
        raise neg_err[0] if isinstance(neg_err[0], MachineryError) else MachineryError(str(neg_err[0]))

    # ---- 3. M2: run the real API (multiprocessing), record, let TLC judge
    lines = cases
    nproc = _nproc() if len(lines) > 500 else 1
    chunk = 400
    jobs = [(lines[i:i + chunk], ctx.seed) for i in range(0, len(lines), chunk)]
    tab = _Intern()
    static = _static_events(ctx, tab)
    per = 60000
    bodies = []            # (path, number of events) of the trace chunks, without the definitions
    cur, cur_n = None, 0
    sample_evs = []
    worst = 0.0
    nontriv = 0
    expected_counts = {'ok': 0, 'missing': 0, 'mode_error': 0}
    ok_pool = []           # a few accepted-looking answered events for the judge's self-test
    tid = 0
    t0 = time.time()

    def open_body():
        nonlocal cur, cur_n
        path = ctx.tmp / f'c02-body-{len(bodies)}.ndjson'
        cur, cur_n = open(path, 'w'), 0
        bodies.append([path, 0])

    open_body()
    for e in static:
        cur.write(json.dumps(e) + '\n')
        cur_n += 1
    pool = mp.get_context('spawn').Pool(nproc) if nproc > 1 else None
    try:
        stream = pool.imap(L.run_cases, jobs, chunksize=1) if pool else map(L.run_cases, jobs)
        for part, graphs in stream:
            gids = [tab.get('graph', g) for g in graphs]
            for r in part:
                if r[0] == 'harness_error':
                    raise MachineryError(f'harness error on {r[1]}: {r[2]}')
                o, t, s, m, x, expected, prov, g, copy_ok, da, ds = r
                tid += 1
                ev = {'ev': 'convert', 'tid': tid, 'o': o, 't': t, 's': s, 'm': m, 'x': x,
                      'pv': tab.get('pairs', prov), 'g': gids[g] if g >= 0 else g, 'copy': bool(copy_ok)}
                for k, ob in (('da', da), ('ds', ds)):
                    ev[k] = {'out': _out_class(ob[0]), 'add': tab.get('names', ob[1]), 'val': bool(ob[2]),
                             'same': bool(ob[3]), 'has': bool(ob[4])}
                    if ob[0] == 'ok':
                        worst = max(worst, ob[5])
                if cur_n >= per:
                    cur.close()
                    bodies[-1][1] = cur_n
                    open_body()
                cur.write(json.dumps(ev) + '\n')
                cur_n += 1
                expected_counts[expected] = expected_counts.get(expected, 0) + 1
                nt = expected == 'ok' and len(prov) > 0
                nontriv += nt
                ctx.case(nontrivial_id=(o, t, s, m, x) if nt else None, n=2)
                if len(sample_evs) < 3 and (nt or tid == 1):
                    sample_evs.append(ev)
                if da[0] == 'ok' and ds[0] == 'ok' and (len(ok_pool) < 400 or tid % 97 == 0) and len(ok_pool) < 3000:
                    ok_pool.append(ev)
    finally:
        if pool:
            pool.terminate()
            pool.join()
    cur.close()
    bodies[-1][1] = cur_n
    if tid != len(lines):
        raise MachineryError('lost results')
    ctx.extra['convert_wall_s'] = round(time.time() - t0, 1)
    ctx.extra['worst_relative_error_of_accepted_values'] = worst
    ctx.extra['configurations'] = len(lines)
    ctx.extra['distinct_reported_graphs'] = sum(1 for k in tab.ids if k[0] == 'graph')
    ctx.extra['outcomes_expected'] = expected_counts
    for e in sample_evs:
        ctx.sample(e)

    # trace files: every chunk = all definitions + its body; chunks are validated concurrently
    defs_path = ctx.tmp / 'c02-defs.ndjson'
    write_ndjson(defs_path, tab.defs)
    ndefs = len(tab.defs)
    verdicts = [None] * len(bodies)
    counts = [(0, 0)] * len(bodies)
    errs = []

    def validate(i):
        try:
            tf = ctx.tmp / f'c02-{i}.ndjson'
            with open(tf, 'wb') as w:
                for src in (defs_path, bodies[i][0]):
                    with open(src, 'rb') as r:
                        shutil.copyfileobj(r, w)
            tr = L.spaced_tlc(ctx, 'conv/Trace_ConvertGraph.tla', workers=1, env={'TRACE_FILE': str(tf)}, timeout=3000,
                         count=False)
            require_ok(ctx, tr, 'Trace_ConvertGraph')
            counts[i] = (tr.generated, tr.distinct)
            done = tr.tagged('DONE')
            if not done or done[0][1] != ndefs + bodies[i][1]:
                raise MachineryError(f'trace validation incomplete: {done} vs {ndefs + bodies[i][1]}')
            verdicts[i] = [(line, tid_, clause, _event_at(bodies[i][0], line - ndefs)) for _, line, tid_, clause
                           in tr.tagged('REJECT')]
            tf.unlink()
        except Exception as e:  # noqa: BLE001
            errs.append(e)

    sem = threading.Semaphore(min(_nproc(), 8))

    def guarded(i):
        with sem:
            validate(i)

    threads = [threading.Thread(target=guarded, args=(i,)) for i in range(len(bodies))]
    for t in threads:
        t.start()
    for t in threads:
        t.join()
    if errs:
        raise errs[0] if isinstance(errs[0], MachineryError) else MachineryError(repr(errs[0]))
    for gen, dist in counts:  # accumulated here, not in the threads
        ctx.states += gen
        ctx.distinct_states += dist
        ctx.transitions += max(gen - 1, 0)
    ctx.traces(tid + len(static))

    rejected = set()
    graph_of = {v: k[1] for k, v in tab.ids.items() if k[0] == 'graph'}
    for rej in verdicts:
        for line, rtid, clause, ev in rej:
            if ev is None or line <= ndefs:
                raise MachineryError(f'definition event rejected at line {line}: {clause}')
            if ev['ev'] == 'convert':
                rejected.add(rtid)
                c = json.loads(lines[rtid - 1])
                try:
                    detail = L.run_case(c, ctx.seed)   # deterministic: re-run for the report
                except Exception as e:  # noqa: BLE001
                    detail = {'rerun_failed': repr(e)}
                ctx.violation(_key(c, clause), {
                    'expected': c, 'supplied': L.supplied(c['m']), 'clause': clause, 'event': ev,
                    'observed': detail, 'seed': ctx.seed,
                    'reproduce': 'harness.lib_convert.run_case(expected, seed)'})
            elif ev['ev'] == 'cgraph':
                ctx.violation(f"conversion_graph({ev['o']}, {ev['t']}, scatter={ev['s']}, {ev['mode']}): {clause}",
                              {'event': ev, 'graph': graph_of.get(ev['g'])})
            elif ev['ev'] == 'factory':
                ctx.violation(f"graph factory {ev['name']}: {clause}", {'event': ev, 'graph': graph_of.get(ev['g'])})
            else:
                raise MachineryError(f'unexpected rejected event {ev}: {clause}')
    _trace_selftest(ctx, tab, ok_pool, rejected)
    if nontriv == 0:
        raise MachineryError('vacuous run: no derivable configuration with computed coordinates')


def _event_at(path, n):
    """n-th (1-based) event of a body file"""
    if n < 1:
        return None
    with open(path) as f:
        for i, line in enumerate(f, start=1):
            if i == n:
                return json.loads(line)
    return None

META = {
    'design_ref': 'DESIGN.md §5 C02',
    'technique': 'TLA+ state machine of the documented transform_coords walk (mode deduction -> graph selection '
                 '-> found/descend/compute/fail) model-checked by TLC against the declarative least fixed point; '
                 'TLC-emitted configurations replayed into convert(); recorded executions judged by a TLC trace spec',
    'text': 'TLC proves on the model, for the complete configuration space (4 origins x 21 targets x scatter x 2^11 '
            'coordinate subsets), that the walk answers iff the target is derivable in the selected graph, never '
            'recomputes a supplied coordinate, never mixes scattering modes and walks the reported graph. The same '
            'space (thorough) or a stratified sample (quick) is emitted by TLC with the expected outcome and '
            'provenance tree; the real convert / deduce_conversion_graph / conversion_graph are run on DataArrays and '
            'Datasets with mutually inconsistent random coordinates, and TLC judges outcome class, set of added '
            'coordinates, reported graph (keys, kernels, inputs), precedence and the value flag for every call.',
    'note': 'Trusted: TLC, scipp transform_coords, numpy; the value flag (1e-9 relative against independent float64 '
            'formulas evaluated along the spec provenance) is computed by the harness, TLC checks that the tree used '
            'is the spec tree. Only the exception class is compared. The rule tables in ConvertGraphDefs.tla are '
            'transcribed from the documentation and compared with the real graph factories on every run.',
}
