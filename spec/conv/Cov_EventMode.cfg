SPECIFICATION Spec
CONSTANTS
  MaxEvents = 3
  Shapes <- MC_ShapesQuick
  FullPermBins = 4
  MaxCalls = 2
  Bug = "none"
INVARIANT LayoutWellFormed
INVARIANT ResultPerEvent
INVARIANT MembershipPreserved
INVARIANT OrderPreserved
INVARIANT WeightsUntouched
INVARIANT EdgesSameFunction
INVARIANT InputUntouched
INVARIANT Repeatable
