----------------------------- MODULE DTypesDefs -----------------------------
(* Precision contract of the kernels (property C07): single-precision *data operands* give a  *)
(* single-precision result, every other numeric operand type gives double precision.          *)
(* Which operands are data operands is tabulated per kernel (UnitsKernelsDefs!Kernel.data).   *)
EXTENDS Integers, FiniteSets

AllDTypes == {"float64", "float32", "int64", "int32"}
IsInt(d) == d \in {"int64", "int32"}

(* D: function operand -> dtype; data: set of data operands; Z: the operands handed over as 0-d   *)
(* variables (the shape of an operand must not matter).  Bug = "dtype_any" is the wrong rule      *)
(* "single as soon as any operand is single"; Bug = "scalar_param" the wrong rule "a 0-d operand  *)
(* is a parameter and does not count" (negative controls).                                        *)
ResultDTypeZ(data, D, Z, Bug) ==
    LET eff == IF Bug = "scalar_param" THEN data \ Z ELSE data IN
    IF Bug = "dtype_any"
    THEN IF \E a \in DOMAIN D : D[a] = "float32" THEN "float32" ELSE "float64"
    ELSE IF eff # {} /\ \A a \in eff : D[a] = "float32" THEN "float32" ELSE "float64"
ResultDType(data, D, Bug) == ResultDTypeZ(data, D, {}, Bug)
=============================================================================
