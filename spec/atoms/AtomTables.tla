----------------------------- MODULE AtomTables -----------------------------
(* Lookups in the bundled tables as a state machine with the memoisation of the two public     *)
(* entry points (Atom.for_isotope, ScatteringParams.for_isotope are lru_cache'd).               *)
(*                                                                                              *)
(* Two definitions side by side:                                                                *)
(*   DeclScat / DeclAtom   the declarative meaning (AtomTablesDefs): the row named exactly n      *)
(*   ImplScat / ImplAtom   the documented mechanism: linear scan for the first line whose first  *)
(*                         column equals n; element = the run of letters after optional leading  *)
(*                         digits (whatever follows is ignored by that rule!); element == name    *)
(*                         => no mass, otherwise the mass table is scanned for the full name;     *)
(*                         results are memoised per name.                                        *)
(* Invariants (every state of every history of <= MaxHist lookups over the name universe):       *)
(*   SameAsDeclarative   the answer equals the declarative one, whatever was looked up before    *)
(*   NeverAnotherRow     an accepted lookup returns the row(s) named by the query, never others  *)
(*   MassOnlyForIsotopes a mass row iff the query is an isotope name                             *)
(*   CacheFaithful       every memoised entry equals the declarative answer for its key          *)
EXTENDS AtomTablesDefs, TLC

CONSTANTS Universe,   \* set of names (code-point sequences) that may be looked up
          MaxHist,    \* number of lookups per behaviour
          Bug         \* "none" | "cache_casefold" | "prefix_match" | "strip" | "renotation"  (negative controls)

VARIABLES cacheS, cacheA, last, nlook
vars == <<cacheS, cacheA, last, nlook>>

(* first index of tbl (from i on) whose name matches, 0 if none *)
Matches(rowname, n) ==
    IF Bug = "prefix_match" THEN Len(rowname) >= Len(n) /\ SubSeq(rowname, 1, Len(n)) = n
    ELSE rowname = n
RECURSIVE ScanFirst(_, _, _)
ScanFirst(tbl, n, i) == IF i > Len(tbl) THEN 0
                        ELSE IF Matches(tbl[i].cp, n) THEN i
                        ELSE ScanFirst(tbl, n, i + 1)

(* element by the documented rule: optional digits, then the longest run of letters at the start *)
RECURSIVE LetterRun(_, _)
LetterRun(n, i) == IF i <= Len(n) /\ IsLetter(n[i]) THEN LetterRun(n, i + 1) ELSE i - 1
ParseElement(n) == LET d == LeadDigits(n, 1) IN SubSeq(n, d + 1, LetterRun(n, d + 1))

RECURSIVE StripBlanks(_)
StripBlanks(n) == IF n # <<>> /\ Head(n) = 32 THEN StripBlanks(Tail(n))
                  ELSE IF n # <<>> /\ n[Len(n)] = 32 THEN StripBlanks(SubSeq(n, 1, Len(n) - 1))
                  ELSE n
(* negative control "renotation": a friendly parser that also accepts <symbol><mass number> *)
Renotate(n) == LET l == LetterRun(n, 1)
               IN IF l \in 1..(Len(n) - 1) /\ \A i \in (l + 1)..Len(n) : IsDigit(n[i])
                  THEN SubSeq(n, l + 1, Len(n)) \o SubSeq(n, 1, l) ELSE n
Query(n) == IF Bug = "strip" THEN StripBlanks(n) ELSE IF Bug = "renotation" THEN Renotate(n) ELSE n

ImplScat(n0) ==
    LET n == Query(n0)
        i == ScanFirst(Tab.scat, n, 1)
    IN IF i = 0 THEN Reject ELSE [kind |-> "scat", row |-> i]

ImplAtom(n0) ==
    LET n == Query(n0)
        el == ParseElement(n)
    IN IF el = <<>> THEN Reject
       ELSE LET wi == ScanFirst(Tab.weights, el, 1)
            IN IF wi = 0 THEN Reject
               ELSE IF el = n THEN [kind |-> "atom", w |-> wi, m |-> 0]
               ELSE LET mi == ScanFirst(Tab.masses, n, 1)
                    IN IF mi = 0 THEN Reject ELSE [kind |-> "atom", w |-> wi, m |-> mi]

CacheKey(n) == IF Bug = "cache_casefold" THEN LowerOf(n) ELSE n

Init == /\ cacheS = << >> /\ cacheA = << >>
        /\ last = [api |-> "none", name |-> <<>>, res |-> Reject]
        /\ nlook = 0

(* caches are functions from keys to results; << >> is the empty function *)
Put(c, k, v) == [x \in DOMAIN c \cup {k} |-> IF x = k THEN v ELSE c[x]]

LookupScat(n) ==
    /\ nlook < MaxHist
    /\ LET k == CacheKey(n)
           res == IF k \in DOMAIN cacheS THEN cacheS[k] ELSE ImplScat(n)
       IN /\ cacheS' = Put(cacheS, k, res)
          /\ last' = [api |-> "scat", name |-> n, res |-> res]
    /\ nlook' = nlook + 1
    /\ UNCHANGED cacheA

LookupAtom(n) ==
    /\ nlook < MaxHist
    /\ LET k == CacheKey(n)
           res == IF k \in DOMAIN cacheA THEN cacheA[k] ELSE ImplAtom(n)
       IN /\ cacheA' = Put(cacheA, k, res)
          /\ last' = [api |-> "atom", name |-> n, res |-> res]
    /\ nlook' = nlook + 1
    /\ UNCHANGED cacheS

Next == nlook < MaxHist /\ \E n \in Universe : LookupScat(n) \/ LookupAtom(n)
Spec == Init /\ [][Next]_vars

-----------------------------------------------------------------------------
SameAsDeclarative ==
    /\ last.api = "scat" => last.res = DeclScat(last.name)
    /\ last.api = "atom" => last.res = DeclAtom(last.name)

NeverAnotherRow ==
    /\ (last.api = "scat" /\ last.res.kind = "scat") => Tab.scat[last.res.row].cp = last.name
    /\ (last.api = "atom" /\ last.res.kind = "atom") =>
          /\ Tab.weights[last.res.w].cp = ElementOf(last.name)
          /\ last.res.m # 0 => Tab.masses[last.res.m].cp = last.name

MassOnlyForIsotopes ==
    (last.api = "atom" /\ last.res.kind = "atom") =>
        (last.res.m # 0 <=> LeadDigits(last.name, 1) > 0)

CacheFaithful ==
    /\ \A k \in DOMAIN cacheS : cacheS[k] = DeclScat(k)
    /\ \A k \in DOMAIN cacheA : cacheA[k] = DeclAtom(k)
=============================================================================
