SPECIFICATION Spec
CONSTANTS
  Bug = "url_after_last_comma"
  MaxDev = 0
INVARIANT PkgInv
CHECK_DEADLOCK FALSE
