"""C14 — CIF output is valid CIF 1.1 and parses back to exactly what was supplied.

Specs (spec/textio/):
  CifLexerDefs.tla   CIF 1.1 lexical grammar as a state machine over code points, Strip, the reference
                     quoting SafeQuote, Representable
  CifLexer.tla       all strings <= MaxLen over the alphabet  _ # $ ; [ ] ' " SP HT LF a  : SafeQuote
                     round-trips every Representable string (next to a tag and inside loop rows), no
                     text at all yields a value containing LF+';' (so those strings may be refused),
                     comment text never becomes a token            (Neg: naive quoting rule, "all
                     strings representable")
  CifDocDefs.tla     parser tokens -> abstract document, reference writer, comparison supplied/parsed,
                     the document the high-level builder assembles (SaveDoc)
  CifDoc.tla         low-level documents grown by AddPair/AddLoop with awkward values: written and read
                     back unchanged                                (Neg: text field on the tag's line)
  CifDocBuilder.tla  builder call sequences: SaveDoc reads back, every role id is the id of exactly one
                     author, no author lost, content in call order, the block carries the name given last
                     (Neg: all authors share one id)
  CifObjDefs.tla     the low-level objects with identity: chunks / loops extended after construction and after
                     they were added to blocks, blocks referring to shared chunks, Block.add, Block.copy
  CifObjects.tla     short object programs: every block reads back, an add changes exactly one block, a pair set
                     on a chunk shows in exactly the blocks referring to it  (Neg: copies share the content list)
  Trace_Cif.tla      judge of text produced by the real code (lexer: a CR ends a comment; the version
                     identifier, if present, must be #\\#CIF_1.1)

Conformance (the produced text goes to TLC as code points; Trace_Cif lexes + parses it with the
specification's own operators and compares with the supplied document):
  M1  every string of the exhaustive model (length <= 4 quick / <= 5 thorough), reserved words,
      printable-ASCII / non-ASCII / long / multi-line strings, numbers with and without variances, each
      written through cif.Chunk (pair) and cif.Loop (first and last column) -> Block -> save_cif;
      random blocks of chunks and loops with 1..50 rows x 1..6 columns, several blocks per file,
      comments everywhere, path and file-object targets.
      Hardening: data names in any (not the sorted) order; numbers as numpy scalars, 32-bit scalars and
      32-bit loop columns; loop columns that are strided / 2-D-column views; comments whose lines end in
      CR LF or a bare CR.
  M2  random programs over cif.CIF (with_authors with/without roles and with the same person listed
      twice, with_beamline, with_reducers, with_reduced_powder_data - data sliced out of 2-D stacks or
      longer runs, further coordinates in any order, integer / single-precision numbers -,
      with_powder_calibration, copy, the name setter on a derived builder, save / save_cif(builder) /
      save_cif(builder, comment=) to buffers and paths, branching from earlier builders); the event
      carries the *calls*, the expected document is computed by TLC (SaveDoc).
  M3  random programs over Chunk / Loop / Block objects (CifObjDefs): incremental construction,
      Block.add of objects and mappings, Block.copy, the same dict / list object handed to several
      constructors, any iterable of blocks; the event carries the *operations*, the expected document
      is computed by TLC (ObjDoc).
  M4  history: a sample of the low-level plans and of the builders is written again at the very end, in
      another order (same objects for the builders).

Numbers: TLC cannot compare decimals with doubles.  The harness reads the token that stands where the
number was supplied (helper lexer in lib_textio), compares it numerically (lib_textio.number_ok /
su_ok: half a unit of the last printed digit + 4 ulp; su = sqrt(variance) computed with mpmath) and
puts token + flag into the event; TLC checks that exactly this token stands there and that the flag
holds.  Everything else (token structure, tags, order, loop shapes, strings up to surrounding
blanks, ids, ASCII, syntax) is decided by TLC.
"""

from __future__ import annotations

import io
import itertools
import math
import os
import struct
import threading
import time
from datetime import datetime, timezone

import numpy as np
import scipp as sc

from .. import lib_textio as T
from ..core import MachineryError
from ..tlc import require_ok, write_ndjson

ALPHABET = '_#$;[]\'" \t\n\ra'
RULE = ('one event = one written file; non-trivial = the supplied content contains a string that needs '
        'delimiters or escaping (blank, quote, LF, TAB, leading _ # $ ; [ ], reserved word, non-ASCII, '
        'empty) or a number with variance, or (builder) at least two calls; distinct by content')

_PRINTABLE = [chr(c) for c in range(32, 127)] + ['\t', '\n']
_ORDINARY = [chr(c) for c in range(33, 127) if c not in T.SPECIAL]
_NONASCII = ['\xb5', '\xc5', '\xe9', 'λ', '₂', '日本', '\U0001f600', '\xa0', ' ', '\x85']
KEYWORDS = ['data_', 'data_x', 'DATA_', 'Data_block', 'save_', 'save_frame', 'SAVE_', 'loop_', 'LOOP_', 'Loop_',
            'stop_', 'STOP_', 'global_', 'GLOBAL_', 'Global_']


# ------------------------------------------------------------------------------------------ values
class Val:
    """One supplied value: kind 's' string, 'n' number, 'nv' number with variance, 'dt' datetime."""

    __slots__ = ('kind', 'v', 'var', 'wrap')

    def __init__(self, kind, v, var=None, wrap='raw'):
        self.kind, self.v, self.var, self.wrap = kind, v, var, wrap

    def cls(self):
        if self.kind == 's':
            return T.str_class(self.v)
        return {'n': 'number', 'nv': 'number_with_variance', 'dt': 'number'}[self.kind]

    def py(self):
        if self.kind == 's':
            return self.v if self.wrap == 'raw' else sc.scalar(self.v)
        if self.kind == 'n':
            if self.wrap == 'raw':
                return self.v
            if self.wrap in ('np', 'np32'):     # numpy scalars handed over as they come out of numpy code
                if isinstance(self.v, int):
                    return (np.int32 if self.wrap == 'np32' else np.int64)(self.v)
                return (np.float32 if self.wrap == 'np32' else np.float64)(self.v)
            if self.wrap == 's32':              # 0-d variables of 32-bit dtype
                return sc.scalar(self.v, dtype='int32' if isinstance(self.v, int) else 'float32')
            return sc.scalar(self.v, unit='deg' if self.wrap == 'unit' else None)
        if self.kind == 'nv':
            return sc.scalar(float(self.v), variance=float(self.var), unit='deg' if self.wrap == 'unit' else None)
        return self.v

    def nontrivial(self):
        return self.kind == 'nv' or (self.kind == 's' and self.cls() != 'simple')

    def show(self):
        return repr(self.v) if self.var is None else f'{self.v!r} variance {self.var!r}'


def S(v, wrap='raw'):
    return Val('s', v, wrap=wrap)


def _ascii_shadow(v):
    """Code points of v with non-ASCII characters replaced by '?' (lets TLC see LF + ';')."""
    return [ord(c) if ord(c) < 127 else 63 for c in v]


def cell_for(val: Val, tok):
    """Cell of the supplied document (see CifDocDefs); tok = token the helper found there or None."""
    if val.kind == 's':
        if all(ord(c) < 127 for c in val.v):
            return {'t': 's', 's': T.cps(val.v), 'ok': True}
        return {'t': 'x', 's': _ascii_shadow(val.v), 'ok': tok is not None and T.ascii_parts_kept(tok, val.v)}
    if tok is None:
        return {'t': 'n', 's': [], 'ok': False}
    if val.kind == 'dt':
        try:
            ok = datetime.fromisoformat(tok) == val.v
        except ValueError:
            ok = False
        return {'t': 'n', 's': T.cps(tok), 'ok': ok}
    return {'t': 'n', 's': T.cps(tok), 'ok': T.number_ok(tok, val.v, val.var)}


# ------------------------------------------------------------------------------------------ generators
def rand_finite(rng):
    while True:
        x = struct.unpack('<d', struct.pack('<Q', rng.getrandbits(64)))[0]
        if math.isfinite(x):
            return x


_SPECIAL_FLOATS = [0.0, -0.0, 5e-324, 2.2250738585072014e-308, -2.2250738585072014e-308, 1.7976931348623157e308,
                   -1.7976931348623157e308, 1 / 3, math.pi, 1e300, 1e-300, 1e22, 1e-7, 123456789.125, 0.1, -2.5]


def f32(x):
    """The double that single precision holds for x (the supplied number of a float32 operand)."""
    return float(np.float32(x))


def rand_f32(rng):
    """A single-precision number outside 1e7 <= |x| < 1e16: in that band numpy prints the shortest digits that
    identify the float32 and pads them with zeros ('-42670174000.0' for -42670174208), which reads as a claim of more
    digits than single precision has - not judged (see the assumptions)."""
    k = rng.randrange(5)
    if k == 0:
        return f32(rng.uniform(-1000, 1000))
    if k == 1:
        return f32(rng.choice([0.1, 1 / 3, 0.0, -2.5, 1e-7, 93.2]))
    if k == 2:
        return f32(rng.choice([-1, 1]) * 10 ** rng.uniform(-30, 6.9))
    if k == 3:
        return f32(rng.choice([-1, 1]) * 10 ** rng.uniform(16.1, 30))
    return f32(float(rng.randrange(-10**6, 10**6)))


def rand_number(rng):
    k = rng.randrange(8)
    if k == 6:    # numpy scalars, 64 bit
        return Val('n', rng.choice([rand_finite(rng), rng.choice(_SPECIAL_FLOATS), rng.randrange(-10**9, 10**9), -(2**63), 2**63 - 1,
                                    rng.uniform(-1000, 1000)]), wrap='np')
    if k == 7:    # single precision / 32-bit integers, as numpy scalars and as 0-d variables
        v = rng.choice([rand_f32(rng), rand_f32(rng), rand_f32(rng), rng.randrange(-2**31, 2**31), 0, -7])
        return Val('n', v, wrap=rng.choice(['np32', 's32']))
    if k == 0:
        return Val('n', rand_finite(rng), wrap=rng.choice(['raw', 'scalar', 'unit']))
    if k == 1:
        return Val('n', rng.choice(_SPECIAL_FLOATS), wrap=rng.choice(['raw', 'scalar', 'unit']))
    if k == 2:
        return Val('n', rng.choice([0, 1, -1, 62, 10**18, -(2**63), 2**63 - 1, rng.randrange(-10**9, 10**9)]),
                   wrap=rng.choice(['raw', 'scalar', 'unit']))
    if k == 3:
        return Val('n', rng.uniform(-1000, 1000), wrap=rng.choice(['raw', 'scalar']))
    return rand_number_var(rng)


def rand_number_var(rng):
    """value(su) notation: |x| in {0} u [1e-15, 1e15], su/|x| in [1e-15, 1e6] (see assumptions)."""
    k = rng.randrange(4)
    if k == 0:
        x = rng.choice([-1, 1]) * 10 ** rng.uniform(-15, 15)
    elif k == 1:
        x = rng.uniform(-1000, 1000)
    elif k == 2:
        x = float(rng.randrange(-10**6, 10**6))
    else:
        x = rng.choice([0.0, -0.0, 1 / 3, math.pi, 1e15, -1e-15, 0.1, 2.5, 93.2])
    ax = abs(x) if x else 1.0
    if rng.random() < 0.7:
        su = ax * 10 ** rng.uniform(-15, 6)
    else:
        su = rng.choice([0.0, 1.0, ax, ax / 3, ax * 2.5e-7, 0.95, 0.0949, 0.195, 1.95, 19.5, 9.5, 9.49, 0.0996, 2.1])
    return Val('nv', x, var=su * su, wrap=rng.choice(['scalar', 'unit']))


def rand_string(rng, maxlen=24):
    k = rng.randrange(11)
    n = rng.randrange(1, maxlen + 1)
    if k == 10:   # text with CR LF or bare CR line ends (pasted from another platform): CR is a line terminator of CIF 1.1
        if rng.random() < 0.5:
            return rng.choice(['a\rb', 'a b\rc', 'x\r', '\r', 'a\r\nb', 'line one\r\nline two\r\n', "it's\rhere", '\r\n',
                               'tab\t\rend', 'Partikelgatan 2\r\nLund', 'a\r;b', '1.5\r', "both ' and \"\rkinds", 'loop_\r'])
        return rng.choice(['\r\n', '\r']).join(''.join(rng.choice(_PRINTABLE[:96]) for _ in range(rng.randrange(0, 10)))
                                               for _ in range(rng.randrange(2, 4)))
    if k == 0:
        return ''.join(rng.choice(ALPHABET) for _ in range(rng.randrange(0, 9)))
    if k == 1:
        return ''.join(rng.choice(_PRINTABLE) for _ in range(n))
    if k == 2:   # words with blanks
        return ' '.join(''.join(rng.choice(_ORDINARY) for _ in range(rng.randrange(1, 8))) for _ in range(rng.randrange(1, 5)))
    if k == 3:   # leading special character
        return rng.choice('_#$;[]\'"?.-+') + ''.join(rng.choice(_PRINTABLE[:95]) for _ in range(rng.randrange(0, 8)))
    if k == 4:   # multi-line text, lines may start with anything
        return '\n'.join(''.join(rng.choice(_PRINTABLE[:96]) for _ in range(rng.randrange(0, 12)))
                         for _ in range(rng.randrange(2, 5)))
    if k == 5:
        return rng.choice(KEYWORDS + ['?', '.', '', ' ', '\t', '\n', "'", '"', '1.5', '-3', '1.0(2)', '1e5', "it's", 'a"b',
                                      """'both "kinds"'""", "end'", 'end"', "a' b", 'a" b', """a' b" c"""])
    if k == 6:   # non-ASCII
        return ''.join(rng.choice(_NONASCII + _ORDINARY[:40] + [' ']) for _ in range(rng.randrange(1, 10))) + rng.choice(_NONASCII)
    if k == 7:   # long
        return ''.join(rng.choice(_ORDINARY + [' ']) for _ in range(rng.randrange(80, 300)))
    if k == 8:   # quote followed by blank, both kinds
        return ''.join(rng.choice(['\' ', '" ', '\'', '"', 'a', ' ', '\t']) for _ in range(rng.randrange(1, 8)))
    return ''.join(rng.choice(_ORDINARY) for _ in range(n))


def rand_benign(rng, maxlen=24):
    """A string outside the four input classes of the suspected defects (DESIGN 7 item 5)."""
    for _ in range(200):
        v = rand_string(rng, maxlen)
        if T.str_class(v) not in T.DEFECT_CLASSES and not T.is_ambiguous_keyword_prefix(v):
            return v
    return 'plain'


def rand_any(rng, maxlen=24):
    for _ in range(200):
        v = rand_string(rng, maxlen)
        if not T.is_ambiguous_keyword_prefix(v):
            return v
    return 'plain'


def rand_comment(rng):
    k = rng.randrange(5)
    if k == 0:
        return ''
    if k == 1:
        return 'plain comment'
    if k == 2:
        return rng.choice(['_tag value', 'loop_', 'data_x', ';', ';\n;', "'", '#', 'a\n_b c\nloop_\n_x\n1 2', '\n', 'x\n',
                           # lines ending in CR LF or in a bare CR (text that came from another platform): a CR ends a line in CIF
                           'first line\r\nsecond line', 'a\r_b c', 'x\rloop_\r_y\r1 2', '\r', 'text\r', 'a\r\n_b c\r\n',
                           "quote ' in a comment\r'and after", 'data_leak\r\ndata_leak2'])
    if k == 3:
        return rand_string(rng)
    return rng.choice(['\n', '\n', '\r\n', '\r']).join(rand_string(rng, 10).replace('\n', ' ') for _ in range(rng.randrange(1, 4)))


def rand_name(rng):
    return ''.join(rng.choice(_ORDINARY + list('_#$;[]\'"')) for _ in range(rng.randrange(1, 20)))


# ------------------------------------------------------------------------------------------ low level
class Doc:
    """Plan of a file written through the low-level API: blocks of chunks and loops."""

    def __init__(self, blocks, comment='', target='buffer', special=None, label=''):
        self.blocks, self.comment, self.target, self.special, self.label = blocks, comment, target, special, label

    def expected(self):
        """[(name, [(kind, tags, [Val...])...])] in the abstract-document layout (chunk = its pairs)."""
        out = []
        for b in self.blocks:
            items = []
            for it in b['items']:
                if it['k'] == 'chunk':
                    for tag, val in it['pairs']:
                        items.append(('pair', [tag], [val]))
                else:
                    nrow = len(it['cols'][0])
                    items.append(('loop', it['tags'], [it['cols'][q][r] for r in range(nrow) for q in range(len(it['tags']))]))
            out.append((b['name'], items))
        return out


def _column(vals, rng_unit, layout='plain', narrow=False):
    """One loop column.  layout: 'plain' | 'step' (every second element of a longer variable) | 'col2d' (a column of a
    2-D variable) - non-contiguous views of the same numbers; narrow: 32-bit dtype (numbers without variances that single
    precision / int32 hold exactly)."""
    kind = vals[0].kind
    n = len(vals)
    variances = None
    if kind == 's':
        values, dtype = np.array([v.v for v in vals], dtype=object), None
    elif kind == 'nv':
        values, variances, dtype = np.array([float(v.v) for v in vals]), np.array([float(v.var) for v in vals]), 'float64'
    elif all(isinstance(v.v, int) for v in vals):
        values, dtype = np.array([v.v for v in vals], dtype='int64'), ('int32' if narrow else 'int64')
    else:
        values, dtype = np.array([float(v.v) for v in vals]), ('float32' if narrow else 'float64')

    def var(dims, vv, ss):
        if kind == 's':
            return sc.array(dims=dims, values=vv.tolist())
        return sc.array(dims=dims, values=vv, variances=ss, unit=rng_unit, dtype=dtype)

    if layout == 'step':
        big = np.empty(2 * n, dtype=values.dtype)
        big[0::2], big[1::2] = values, values[::-1]
        bigv = None if variances is None else np.repeat(variances, 2)
        return var(['row'], big, bigv)['row', 0::2]
    if layout == 'col2d' and kind == 's':
        one = sc.array(dims=['row'], values=values.tolist())
        other = sc.array(dims=['row'], values=values[::-1].tolist())
        return sc.concat([other, one], 'z').transpose(['row', 'z']).copy()['z', 1]
    if layout == 'col2d':
        big = np.empty((n, 2), dtype=values.dtype)
        big[:, 1], big[:, 0] = values, values[::-1]
        bigv = None if variances is None else np.stack([variances, variances], axis=1)
        return var(['row', 'z'], big, bigv)['z', 1]
    return var(['row'], values, variances)


def write_lowlevel(doc: Doc, tmpdir):
    from scippneutron.io import cif

    blocks = []
    for b in doc.blocks:
        content = []
        for it in b['items']:
            if it['k'] == 'chunk':
                pairs = {tag: val.py() for tag, val in it['pairs']}
                content.append(pairs if it.get('as_dict') and not it.get('comment')
                               else cif.Chunk(pairs, comment=it.get('comment', '')))
            else:
                lay, nar = it.get('layouts') or ['plain'] * len(it['tags']), it.get('narrow') or [False] * len(it['tags'])
                content.append(cif.Loop({tag: _column(col, it.get('unit'), lay[q], nar[q])
                                         for q, (tag, col) in enumerate(zip(it['tags'], it['cols'], strict=True))},
                                        comment=it.get('comment', '')))
        blocks.append(cif.Block(b['name'], content, comment=b.get('comment', '')))
    arg = blocks[0] if len(blocks) == 1 and doc.target != 'list' else blocks
    if doc.target == 'path':
        p = tmpdir / 'c14-out.cif'
        cif.save_cif(p, arg, comment=doc.comment)
        return p.read_text(encoding='utf-8', errors='surrogateescape')
    if doc.target == 'strpath':
        p = tmpdir / 'c14-out2.cif'
        cif.save_cif(str(p), arg, comment=doc.comment)
        return p.read_text(encoding='utf-8', errors='surrogateescape')
    buf = io.StringIO()
    cif.save_cif(buf, arg, comment=doc.comment)
    return buf.getvalue()


def lowlevel_event(ctx, tid, doc: Doc, tmpdir):
    exp = doc.expected()
    meta = {'api': 'lowlevel', 'doc': doc, 'exp': exp, 'text': None, 'exc': None}
    try:
        text = write_lowlevel(doc, tmpdir)
    except Exception as e:  # noqa: BLE001  (refusal is judged by TLC: allowed only for unrepresentable content)
        meta['exc'] = f'{type(e).__name__}: {e}'[:300]
        meta['exc_type'] = type(e).__name__
        text = None
    meta['text'] = text
    parsed = T.py_read(text)[0] if text is not None else []
    blocks = []
    for bi, (name, items) in enumerate(exp):
        pitems = parsed[bi]['items'] if bi < len(parsed) else []
        eitems = []
        for ji, (kind, tags, vals) in enumerate(items):
            pit = pitems[ji] if ji < len(pitems) else None
            # tokens are resolved position by position as far as the helper's parse goes; where the
            # produced text has fewer values the cell stays unresolved (TLC rejects the shape anyway)
            pv = pit['vals'] if pit is not None and pit['k'] == kind else []
            cells = [cell_for(v, pv[ci] if ci < len(pv) else None) for ci, v in enumerate(vals)]
            eitems.append({'k': kind, 'tags': [T.cps(t) for t in tags], 'vals': cells})
        blocks.append({'name': T.cps(name), 'items': eitems})
    ev = {'tid': tid, 'api': 'lowlevel', 'out': 'text' if text is not None else 'raised',
          'text': T.cps(text) if text is not None else [], 'blocks': blocks, 'name': [], 'calls': [], 'ops': []}
    return ev, meta


def single_value_doc(val: Val, rng=None, label=''):
    """The value next to a tag and in the first and the last column of a loop, benign neighbours."""
    z = S('z')
    if val.kind == 's':
        cols = [[val, z], [z, val]]
    else:
        other = Val(val.kind, 1.5 if val.kind != 'nv' else 2.0, var=val.var if val.kind == 'nv' else None, wrap=val.wrap)
        if val.kind == 'n' and isinstance(val.v, int):
            other = Val('n', 7)
        if val.kind == 'dt':
            return Doc([{'name': 'b', 'items': [{'k': 'chunk', 'pairs': [('c14.t', val), ('c14.u', z)], 'as_dict': True}]}],
                       special=val, label=label)
        cols = [[val, other], [z, z]]
    return Doc([{'name': 'b', 'items': [
        {'k': 'chunk', 'pairs': [('c14.t', val), ('c14.u', z)], 'as_dict': True},
        {'k': 'loop', 'tags': ['c14.a', 'c14.b'], 'cols': cols}]}], special=val, label=label)


def rand_column(rng, nrow, flavour, nasty_budget):
    """-> list of Val of one kind.  flavour 'clean': benign strings only; 'one': at most one string
    from the whole population per document (nasty_budget is a 1-element list used as a counter)."""
    k = rng.randrange(6)
    if k <= 2:
        col = []
        for _ in range(nrow):
            if flavour == 'all' or (flavour == 'one' and nasty_budget[0] > 0 and rng.random() < 0.05):
                v = rand_any(rng)
                if T.str_class(v) in T.DEFECT_CLASSES:
                    nasty_budget[0] -= 1
            else:
                v = rand_benign(rng)
            col.append(S(v))
        return col
    if k == 3:
        return [rand_number_var(rng) for _ in range(nrow)]
    if k == 4:
        return [Val('n', rng.randrange(-10**6, 10**6)) for _ in range(nrow)]
    if rng.random() < 0.25:     # numbers that single precision holds exactly (the column may then be float32)
        return [Val('n', rand_f32(rng)) for _ in range(nrow)]
    return [Val('n', rand_finite(rng) if rng.random() < 0.5 else rng.choice(_SPECIAL_FLOATS)) for _ in range(nrow)]


def narrow_ok(col):
    """The numbers of the column are held exactly by int32 / float32 (and carry no variances)."""
    if any(v.kind != 'n' for v in col):
        return False
    if all(isinstance(v.v, int) for v in col):
        return all(-2**31 <= v.v < 2**31 for v in col)
    return all(math.isfinite(f32(v.v)) and f32(v.v) == float(v.v) for v in col)


def rand_doc(rng, flavour, counter):
    budget = [1]
    blocks = []
    names = set()
    for _ in range(rng.choice([1, 1, 1, 2, 3])):
        name = rand_name(rng)
        while name.lower() in names:
            name = rand_name(rng)
        names.add(name.lower())
        items = []
        for _ in range(rng.randrange(1, 5)):
            counter[0] += 1
            j = counter[0]
            if rng.random() < 0.5:
                pairs = []
                npairs = rng.randrange(1, 5)
                for q in rng.sample(range(npairs), npairs):       # data names in any order, not the sorted one
                    r = rng.random()
                    if r < 0.6:
                        if flavour == 'all' or (flavour == 'one' and budget[0] > 0 and rng.random() < 0.1):
                            v = rand_any(rng)
                            if T.str_class(v) in T.DEFECT_CLASSES:
                                budget[0] -= 1
                        else:
                            v = rand_benign(rng)
                        val = S(v, wrap=rng.choice(['raw', 'raw', 'scalar']))
                    elif r < 0.97:
                        val = rand_number(rng)
                    else:
                        val = Val('dt', datetime(2024, rng.randrange(1, 13), rng.randrange(1, 28), rng.randrange(24), 3, 5,
                                                   tzinfo=timezone.utc))
                    pairs.append((f'i{j}.p{q}', val))
                items.append({'k': 'chunk', 'pairs': pairs, 'comment': rand_comment(rng), 'as_dict': rng.random() < 0.3})
            else:
                ncol = rng.randrange(1, 7)
                nrow = rng.choice([1, 1, 2, 3, 5, 8, 20, 50, rng.randrange(1, 51)])
                cols = [rand_column(rng, nrow, flavour, budget) for _ in range(ncol)]
                items.append({'k': 'loop', 'tags': [f'i{j}.c{q}' for q in rng.sample(range(ncol), ncol)],     # any order
                              'cols': cols, 'comment': rand_comment(rng), 'unit': rng.choice([None, 'one', 'us']),
                              'layouts': [rng.choice(['plain', 'plain', 'step', 'col2d']) for _ in range(ncol)],
                              'narrow': [rng.random() < 0.6 and narrow_ok(col) for col in cols]})
        blocks.append({'name': name, 'items': items, 'comment': rand_comment(rng)})
    return Doc(blocks, comment=rand_comment(rng), target=rng.choice(['buffer'] * 6 + ['path', 'strpath', 'list']),
               label=f'random blocks ({flavour})')


# ------------------------------------------------------------------------------------------ builder
def _orcid(rng):
    digits = [rng.randrange(10) for _ in range(15)]
    total = 0
    for d in digits:
        total = (total + d) * 2
    r = (12 - total % 11) % 11
    s = ''.join(map(str, digits)) + ('X' if r == 10 else str(r))
    return '-'.join(s[i:i + 4] for i in range(0, 16, 4))


def _scell(v):
    """Cell for a free-form string handed to the builder; '' / None = not given."""
    if not v:
        return {'t': 'm', 's': [], 'ok': True}
    if all(ord(c) < 127 for c in v):
        return {'t': 's', 's': T.cps(v), 'ok': True}
    return {'t': 'x', 's': _ascii_shadow(v), 'ok': True, '_nonascii': v}


class BState:
    """A real builder together with the calls that produced it (name = the name its first ancestor was constructed
    with; a later use of the name setter is one of the calls)."""

    def __init__(self, obj, name, calls, strings, comments):
        self.obj, self.name, self.calls, self.strings, self.comments = obj, name, calls, strings, comments


def _pick_str(rng, st):
    """Free-form string for the builder: benign, or (once per program, 'one' flavour) any string."""
    if st['flavour'] == 'all' or (st['flavour'] == 'one' and st['budget'] > 0 and rng.random() < 0.15):
        v = rand_any(rng, 16)
        if T.str_class(v) in T.DEFECT_CLASSES:
            st['budget'] -= 1
        return v
    return rand_benign(rng, 16)


def builder_step(rng, st, src: BState):
    """Apply one random with_* / copy call to src; returns the new BState (src is not touched)."""
    from scippneutron import metadata
    from scippneutron.io import cif

    op = st.get('force_op') or rng.choice(['authors', 'authors', 'beamline', 'reducers', 'data', 'calib', 'copy', 'rename'])
    calls, strings, comments = list(src.calls), list(src.strings), list(src.comments)
    if op == 'copy':
        return BState(src.obj.copy(), src.name, [*calls, {'op': 'copy'}], strings, comments)
    if op == 'rename':      # the name setter, used on a derived builder: the builder it was derived from keeps its name
        new = src.obj.copy()
        newname = rand_name(rng)
        new.name = newname
        return BState(new, src.name, [*calls, {'op': 'copy'}, {'op': 'rename', 'name': T.cps(newname)}], strings, comments)
    if op == 'authors':
        people, cells = [], []
        # now and then a long author list, most of them with a role (ids with two digits: '10' sorts before '2' as text)
        many = rng.random() < 0.08
        for _ in range(rng.randrange(10, 15) if many else rng.choice([1, 1, 2, 3])):
            name = _pick_str(rng, st) or 'N N'
            if not name.strip(' \t\n'):
                name = 'N N'
            role = rng.choice([None, None, 'measurement', _pick_str(rng, st)])
            if many and role is None and rng.random() < 0.8:
                role = rng.choice(['measurement', 'analysis', 'software', 'principal-investigator'])
            address = rng.choice([None, None, 'Partikelgatan, Lund', 'Street 1\nTown', _pick_str(rng, st)])
            email = rng.choice([None, None, 'jane.doe@ess.eu', 'a_b@scipp.eu'])
            orcid = rng.choice([None, _orcid(rng)])
            short = rng.random() < 0.5
            corr = rng.random() < 0.4
            p = metadata.Person(name=name, role=role, address=address, email=email, corresponding=corr,
                                orcid_id=(orcid if short else 'https://orcid.org/' + orcid) if orcid else None)
            people.append(p)
            cells.append({'name': _scell(name), 'email': _scell(email), 'address': _scell(address),
                          'orcid': _scell('https://orcid.org/' + orcid if orcid else None), 'role': _scell(role), 'corr': corr})
            strings += [s for s in (name, role, address) if s]
            st.setdefault('people', []).append((p, cells[-1]))
        if rng.random() < 0.3:       # the same person listed again (same object / added by an earlier call as well)
            p, cell = rng.choice(st['people']) if rng.random() < 0.5 else (people[0], cells[0])
            k = rng.randrange(len(people) + 1)
            people.insert(k, p)
            cells.insert(k, cell)
        return BState(src.obj.with_authors(*people), src.name, [*calls, {'op': 'authors', 'people': cells}], strings, comments)
    if op == 'reducers':
        items = [_pick_str(rng, st) or 'prog 1' for _ in range(rng.choice([1, 1, 2, 3]))]
        items = [s if s.strip(' \t\n') else 'prog 1' for s in items]
        return BState(src.obj.with_reducers(*items), src.name, [*calls, {'op': 'reducers', 'items': [_scell(s) for s in items]}],
                      strings + items, comments)
    comment = rand_comment(rng)
    comments = [*comments, comment]
    if op == 'beamline':
        name = _pick_str(rng, st) or 'BL'
        if not name.strip(' \t\n'):
            name = 'BL'
        fac = rng.choice([None, 'MAX IV', 'Some Lab', _pick_str(rng, st)])
        if fac is not None and (not fac.strip(' \t\n') or fac.lower() in cif._KNOWN_SPALLATION_SOURCES):
            fac = 'Some Lab'
        source = rng.choice(['none', 'none', 'spallation', 'reactor', 'synchrotron'])
        stype = {'spallation': metadata.SourceType.SpallationNeutronSource, 'reactor': metadata.SourceType.ReactorNeutronSource,
                 'synchrotron': metadata.SourceType.SynchrotronXraySource}.get(source)
        src_obj = None
        if stype is not None:
            src_obj = metadata.Source(source_type=stype, probe=metadata.RadiationProbe.Xray if source == 'synchrotron'
                                      else metadata.RadiationProbe.Neutron)
        new = src.obj.with_beamline(metadata.Beamline(name=name, facility=fac), src_obj, comment=comment)
        call = {'op': 'beamline', 'name': _scell(name), 'facility': _scell(fac), 'hasfac': fac is not None, 'source': source}
        return BState(new, src.name, [*calls, call], strings + [s for s in (name, fac) if s], comments)
    if op == 'data':
        n = rng.choice([1, 2, 3, 5, 12, 50])
        coord = rng.choice(['tof', 'dspacing'])
        yname = rng.choice(['', 'intensity_net', 'intensity_norm', 'intensity_total'])
        cvar, yvar = rng.random() < 0.3, rng.random() < 0.7
        xs = [rand_number_var(rng) for _ in range(n)]
        ys = [rand_number_var(rng) for _ in range(n)]
        # dtypes (HARDENING 1): integer coordinates (whole microseconds) / counts, single precision - only without
        # variances, the supplied numbers are then the integers / the doubles that single precision holds
        cdt = ydt = 'float64'
        if st.get('force_op'):
            cvar, yvar = cvar and not st.get('force_cdt'), yvar and not st.get('force_ydt')
        if st.get('force_cdt') or (not cvar and rng.random() < 0.25):
            cdt = st.get('force_cdt') or rng.choice(['int64', 'int32', 'float32'])
            xs = [Val('n', rng.randrange(0, 10**6) if cdt != 'float32' else rand_f32(rng)) for v in xs]
        if st.get('force_ydt') or (not yvar and rng.random() < 0.25):
            ydt = st.get('force_ydt') or rng.choice(['int64', 'int32', 'float32'])
            ys = [Val('n', rng.randrange(0, 10**6) if ydt != 'float32' else rand_f32(rng)) for v in ys]
        cunit, yunit = 'us' if coord == 'tof' else 'angstrom', rng.choice(['one', 'counts'])
        xa = np.array([v.v for v in xs], dtype=cdt)
        ya = np.array([v.v for v in ys], dtype=ydt)
        xv = np.array([float(v.var) for v in xs]) if cvar else None
        yvv = np.array([float(v.var) for v in ys]) if yvar else None
        layout = rng.choice(['plain', 'plain', 'row_of_2d', 'col_of_2d', 'range'])
        # other coordinates next to the one named like the dimension, inserted before or after it (HARDENING 3, 7)
        extra = rng.sample(['two_theta', 'wavelength', 'a', 'zz', 'Q'], rng.choice([0, 0, 1, 2]))
        names = [coord, *extra]
        rng.shuffle(names)

        def coords_for(length, cvals, cvars):
            out = {}
            for nm in names:
                if nm == coord:
                    out[nm] = sc.array(dims=[coord], values=cvals, variances=cvars, unit=cunit, dtype=cdt)
                else:
                    out[nm] = sc.array(dims=[coord], values=np.arange(length) * 1.5 + 7.0, unit=rng.choice(['deg', 'angstrom', 'us']))
            return out

        if layout == 'plain':
            da = sc.DataArray(sc.array(dims=[coord], values=ya, variances=yvv, unit=yunit, dtype=ydt), coords=coords_for(n, xa, xv))
        elif layout == 'range':     # a range of a longer measurement
            a, b = rng.randrange(0, 3), rng.randrange(0, 3)
            pad = lambda arr, fill: None if arr is None else np.concatenate([np.full(a, fill, dtype=arr.dtype), arr, np.full(b, fill, dtype=arr.dtype)])  # noqa: E731
            parent = sc.DataArray(sc.array(dims=[coord], values=pad(ya, 77), variances=pad(yvv, 3.0), unit=yunit, dtype=ydt),
                                  coords=coords_for(n + a + b, pad(xa, 99), pad(xv, 2.0)))
            da = parent[coord, a:a + n]
        else:                       # one spectrum of a stack (the usual origin of powder data): strided or offset view
            m = rng.randrange(2, 4)
            k0 = rng.randrange(m)
            shape, dims, idx = ((n, m), [coord, 'spectrum'], (slice(None), k0)) if layout == 'col_of_2d' else \
                               ((m, n), ['spectrum', coord], (k0, slice(None)))
            yy = np.full(shape, 55, dtype=ya.dtype)
            yy[idx] = ya
            vv = None
            if yvv is not None:
                vv = np.full(shape, 4.0)
                vv[idx] = yvv
            cs = coords_for(n, xa, xv)
            if rng.random() < 0.5:
                cs['spectrum'] = sc.arange('spectrum', m, unit=None)
            parent = sc.DataArray(sc.array(dims=dims, values=yy, variances=vv, unit=yunit, dtype=ydt), coords=cs)
            da = parent['spectrum', k0]
        da.name = yname
        st['doing'] = 'with_reduced_powder_data' + (' with integer-typed coordinate' if cdt.startswith('int') else
                                                    ' with integer-typed intensities' if ydt.startswith('int') else '')
        st['int_operand'] = cdt.startswith('int') or ydt.startswith('int')
        new = src.obj.with_reduced_powder_data(da, comment=comment)
        call = {'op': 'data', 'coord': coord, 'yname': yname or 'intensity_norm', 'cvar': cvar, 'yvar': yvar, 'n': n,
                '_xs': xs, '_ys': ys, '_int': st['int_operand']}
        return BState(new, src.name, [*calls, call], strings, comments)
    # calibration
    n = rng.choice([1, 2, 3, 4])
    powers = rng.sample([0, 1, 2, -1, 3, -2], n) if rng.random() < 0.7 else rng.sample([0.0, 1.0, 2.0, -1.0, 0.5, 1.5, -0.5], n)
    hasvar = rng.random() < 0.5
    cs = [rand_number_var(rng) for _ in range(n)]
    caldt = 'float64'
    if st.get('force_caldt'):
        hasvar = False
    if st.get('force_caldt') or (not hasvar and rng.random() < 0.25):      # integer / single-precision coefficients
        caldt = st.get('force_caldt') or rng.choice(['int64', 'float32'])
        cs = [Val('n', rng.randrange(-10**6, 10**6) if caldt == 'int64' else rand_f32(rng)) for _ in range(n)]
    cal = sc.DataArray(sc.array(dims=['cal'], values=np.array([v.v for v in cs], dtype=caldt),
                                variances=np.array([float(v.var) for v in cs]) if hasvar else None),
                       coords={'power': sc.array(dims=['cal'], values=powers)})
    st['doing'] = 'with_powder_calibration' + (' with integer-typed coefficients' if caldt == 'int64' else '')
    st['int_operand'] = caldt == 'int64' or all(isinstance(p, int) for p in powers)
    new = src.obj.with_powder_calibration(cal, comment=comment)
    call = {'op': 'calib', 'hasvar': hasvar, 'n': n, '_powers': powers, '_cs': cs, '_int': st['int_operand']}
    return BState(new, src.name, [*calls, call], strings, comments)


def _ncell(tok, ok):
    return {'t': 'n', 's': T.cps(tok) if tok is not None else [], 'ok': bool(ok and tok is not None)}


def builder_event(tid, bs: BState, text, exc):
    """Event for one save(): the calls as data, with the number cells resolved against the text."""
    parsed = T.py_read(text)[0] if text is not None else []
    items = parsed[0]['items'] if parsed else []
    data_loops = [it for it in items if it['k'] == 'loop' and it['tags'] and it['tags'][0] == 'pd_data.point_id']
    cal_loops = [it for it in items if it['k'] == 'loop' and it['tags'] and it['tags'][0] == 'pd_calib_d_to_tof.id']
    ndata = sum(1 for c in bs.calls if c['op'] == 'data')
    ncal = sum(1 for c in bs.calls if c['op'] == 'calib')
    calls = []
    di = ci = 0
    for c in bs.calls:
        if c['op'] == 'data':
            nc = 3 + c['cvar'] + c['yvar']
            lp = data_loops[di] if len(data_loops) == ndata else None
            di += 1
            ok_shape = lp is not None and len(lp['vals']) == c['n'] * nc
            cells = []
            for r in range(c['n']):
                row = lp['vals'][r * nc:(r + 1) * nc] if ok_shape else [None] * nc
                p = 1
                x, y = c['_xs'][r], c['_ys'][r]
                cells.append(_ncell(row[p], row[p] is not None and T.number_ok(row[p], x.v)))
                p += 1
                if c['cvar']:
                    cells.append(_ncell(row[p], row[p] is not None and T.su_ok(row[p], x.var)))
                    p += 1
                cells.append(_ncell(row[p], row[p] is not None and T.number_ok(row[p], y.v)))
                p += 1
                if c['yvar']:
                    cells.append(_ncell(row[p], row[p] is not None and T.su_ok(row[p], y.var)))
            calls.append({k: v for k, v in c.items() if not k.startswith('_')} | {'cells': cells})
        elif c['op'] == 'calib':
            nc = 3 + c['hasvar']
            lp = cal_loops[ci] if len(cal_loops) == ncal else None
            ci += 1
            ok_shape = lp is not None and len(lp['vals']) == c['n'] * nc
            cells = []
            for r in range(c['n']):
                row = lp['vals'][r * nc:(r + 1) * nc] if ok_shape else [None] * nc
                cells.append({'t': 'x', 's': [], 'ok': True})
                cells.append(_ncell(row[1], row[1] is not None and T.number_ok(row[1], c['_powers'][r])))
                cells.append(_ncell(row[2], row[2] is not None and T.number_ok(row[2], c['_cs'][r].v)))
                if c['hasvar']:
                    cells.append(_ncell(row[3], row[3] is not None and T.su_ok(row[3], c['_cs'][r].var)))
            calls.append({'op': 'calib', 'hasvar': c['hasvar'], 'cells': cells})
        elif c['op'] == 'authors':
            calls.append({'op': 'authors', 'people': [{k: _resolve(v, text) for k, v in p.items()} for p in c['people']]})
        elif c['op'] == 'reducers':
            calls.append({'op': 'reducers', 'items': [_resolve(v, text) for v in c['items']]})
        elif c['op'] == 'beamline':
            calls.append({k: _resolve(v, text) for k, v in c.items()})
        else:
            calls.append(c)
    return {'tid': tid, 'api': 'builder', 'out': 'text' if text is not None else 'raised',
            'text': T.cps(text) if text is not None else [], 'blocks': [], 'name': T.cps(bs.name), 'calls': calls, 'ops': []}


def _resolve(cell, text):
    """Non-ASCII strings handed to the builder: ok = the text keeps their ASCII parts in order."""
    if isinstance(cell, dict) and '_nonascii' in cell:
        return {'t': 'x', 's': cell['s'], 'ok': text is not None and T.ascii_parts_kept(text, cell['_nonascii'])}
    return cell


def refused_int(ctx):
    ctx.extra['integer_operands_refused_with_DTypeError'] = ctx.extra.get('integer_operands_refused_with_DTypeError', 0) + 1


def save_builder(ctx, rng, target: BState, how=None):
    """One save of a builder: CIF.save / save_cif(builder) / save_cif(builder, comment=...) to a buffer, CIF.save to a
    path or a str path.  -> (text or None, exception text or None, how)"""
    from scippneutron.io import cif

    how = how or rng.choice(['save', 'save', 'save', 'save_cif', 'save_cif_comment', 'path', 'strpath'])
    text, exc = None, None
    try:
        if how in ('path', 'strpath'):
            p = ctx.tmp / 'c14-builder.cif'
            target.obj.save(p if how == 'path' else str(p))
            text = p.read_text(encoding='utf-8', errors='surrogateescape')
        else:
            buf = io.StringIO()
            if how == 'save':
                target.obj.save(buf)
            elif how == 'save_cif':
                cif.save_cif(buf, target.obj)
            else:
                cif.save_cif(buf, target.obj, comment=rand_comment(rng) or 'another comment')
            text = buf.getvalue()
    except Exception as e:  # noqa: BLE001
        exc = f'{type(e).__name__}: {e}'[:300]
    return text, exc, how


def record_builder_save(ctx, rng, tid, target, flavour, events, metas, phase='main', orig=None):
    text, exc, how = save_builder(ctx, rng, target)
    events.append(builder_event(tid, target, text, exc))
    metas[tid] = {'api': 'builder', 'bs': target, 'text': text, 'exc': exc, 'how': how,
                  'exc_type': exc.split(':')[0] if exc else None, 'flavour': flavour, 'phase': phase, 'orig': orig}
    ctx.case(nontrivial_id=('b', tid) if len(target.calls) >= 2 else None)


def run_builder_program(ctx, rng, flavour, tid0, events, metas, keep=None, force=None):
    """force: a one-call program with the given operation / dtypes (the dtype cases in every run, whatever the seed)."""
    from scippneutron.io import cif

    st = {'flavour': flavour, 'budget': 1, **(force or {})}
    name = rand_name(rng)
    comment = rand_comment(rng)
    try:
        pool = [BState(cif.CIF(name, comment=comment), name, [], [], [comment])]
    except Exception as e:  # noqa: BLE001
        ctx.violation(f'builder: cif.CIF() raised {type(e).__name__} for a valid block name', {'name': name, 'exc': repr(e)})
        return tid0
    tid = tid0
    nsteps = rng.randrange(1, 8) if not force else 1
    for step in range(nsteps):
        src = rng.choice(pool)
        st['doing'], st['int_operand'] = 'with_* call', False
        try:
            new = builder_step(rng, st, src)
        except Exception as e:  # noqa: BLE001
            if type(e).__name__ == 'DTypeError' and st['int_operand']:
                # lead decision: a scipp DTypeError for a call that was handed an integer-typed numeric operand is a refusal
                # ("not supported"), not a wrong document - accepted; documents produced from integer data are judged in full
                refused_int(ctx)
                continue
            ctx.violation(f'builder: {st["doing"]} raised {type(e).__name__} for admissible input',
                          {'calls': [c['op'] for c in src.calls], 'exc': repr(e)[:300]})
            continue
        pool.append(new)
        if step == nsteps - 1 or rng.random() < 0.35:
            for target in (new, rng.choice(pool)) if rng.random() < 0.3 else (new,):
                for _ in range(2 if rng.random() < 0.2 else 1):   # a second save of the same builder is a program too
                    record_builder_save(ctx, rng, tid, target, flavour, events, metas)
                    if keep is not None:
                        keep.append((target, flavour, tid))
                    tid += 1
    return tid


# ------------------------------------------------------------------------------------------ object programs
def _obj_cell(v):
    if all(ord(c) < 127 for c in v):
        return {'t': 's', 's': T.cps(v), 'ok': True}
    return {'t': 'x', 's': _ascii_shadow(v), 'ok': True, '_nonascii': v}


def _strip_private(o, text):
    """The operation as TLC gets it: non-ASCII cells resolved against the produced text."""
    if isinstance(o, dict):
        if '_nonascii' in o:
            return {'t': 'x', 's': o['s'], 'ok': text is not None and T.ascii_parts_kept(text, o['_nonascii'])}
        return {k: _strip_private(v, text) for k, v in o.items() if not k.startswith('_')}
    if isinstance(o, list):
        return [_strip_private(v, text) for v in o]
    return o


def run_object_program(ctx, rng, flavour, tid0, events, metas):
    """A random program over Chunk / Loop / Block objects (spec/textio/CifObjDefs.tla): objects are built step by
    step, extended after they were added to a block, shared between blocks, blocks are copied; the same dict / list
    objects are handed to several constructors.  Every write is one event that carries the operations so far; the
    expected document is computed by TLC (ObjDoc)."""
    from scippneutron.io import cif

    chunks, loops, blocks = [], [], []          # the real objects, indices as in the specification (1-based there)
    loop_rows = []
    ops, feats, strings = [], set(), []
    counter = [0]
    tid = tid0
    last_dict = last_cols = last_list = None    # argument objects that may be handed over a second time

    def value():
        v = rand_any(rng, 14) if flavour == 'all' or (flavour == 'one' and rng.random() < 0.1) else rand_benign(rng, 14)
        if T.str_class(v) == 'lf_semi':
            v = 'plain'      # unrepresentable strings are the business of the other generators
        strings.append(v)
        return v

    def tag():
        counter[0] += 1
        return f'o{counter[0]}.{rng.choice(["zeta", "alpha", "m10", "m9", "beta"])}'

    def pairs_of(d):
        return [{'tag': T.cps(k), 'cell': _obj_cell(v)} for k, v in d.items()]

    nops = rng.randrange(3, 11)
    # every fourth program starts with two chunks made from one dict object, one of which then gets another pair
    forced = ['chunk', 'chunk_same', 'set_first', 'block_all'] if rng.random() < 0.25 else []
    if forced:
        nops = max(nops, 6)
    for step in range(nops):
        kinds = ['chunk', 'chunk', 'loop', 'block', 'block']
        if chunks:
            kinds += ['set', 'set']
        if loops:
            kinds += ['col']
        if blocks:
            kinds += ['add', 'add', 'adddict', 'copy', 'write']
        k = rng.choice(kinds) if step < nops - 1 else ('write' if blocks else 'block')
        how_forced = None
        if step < len(forced):
            how_forced = forced[step]
            k = {'chunk_same': 'chunk', 'set_first': 'set', 'block_all': 'block'}.get(how_forced, how_forced)
        try:
            if k == 'chunk':
                if how_forced == 'chunk':
                    d = {tag(): value() for _ in range(2)}
                elif last_dict is not None and (how_forced == 'chunk_same' or rng.random() < 0.3):
                    d = last_dict                       # the very same dict object as an earlier chunk
                    feats.add('one dict object handed to two chunks')
                else:
                    d = {tag(): value() for _ in range(rng.choice([0, 1, 1, 2, 3]))}
                last_dict = d
                how = rng.choice(['dict', 'tuples', 'none']) if not d else 'dict' if how_forced else rng.choice(['dict', 'dict', 'tuples'])
                chunks.append(cif.Chunk(d if how == 'dict' else list(d.items()) if how == 'tuples' else None, comment=rand_comment(rng)))
                ops.append({'op': 'chunk', 'pairs': pairs_of(d)})
            elif k == 'set':
                named = [i for i, c in enumerate(chunks) if c is not None]
                if not named:
                    continue
                c = named[0] if how_forced else rng.choice(named)
                t, v = tag(), value()
                chunks[c][t] = v
                ops.append({'op': 'set', 'c': c + 1, 'tag': T.cps(t), 'cell': _obj_cell(v)})
                feats.add('pair set after construction')
            elif k == 'loop':
                if last_cols is not None and rng.random() < 0.3:
                    cols, nrow = last_cols
                    feats.add('one dict object handed to two loops')
                else:
                    nrow = rng.choice([1, 2, 3])
                    cols = {tag(): [value() for _ in range(nrow)] for _ in range(rng.choice([1, 1, 2, 3]))}
                    cols = {t: sc.array(dims=['row'], values=vs) for t, vs in cols.items()}
                last_cols = (cols, nrow)
                loops.append(cif.Loop(cols, comment=rand_comment(rng)))
                loop_rows.append(nrow)
                ops.append({'op': 'loop', 'cols': [{'tag': T.cps(t), 'cells': [_obj_cell(x) for x in var.values]} for t, var in cols.items()]})
            elif k == 'col':
                i = rng.randrange(len(loops))
                t, vs = tag(), [value() for _ in range(loop_rows[i])]
                loops[i][t] = sc.array(dims=['row'], values=vs)
                ops.append({'op': 'col', 'l': i + 1, 'tag': T.cps(t), 'cells': [_obj_cell(x) for x in vs]})
                feats.add('column set after construction')
            elif k == 'block':
                if how_forced == 'block_all':
                    refs = [('c', i) for i in range(len(chunks)) if chunks[i] is not None]
                    content = [chunks[i] for _, i in refs]
                elif last_list is not None and rng.random() < 0.3:
                    content, refs = last_list           # the very same list object as an earlier block
                    feats.add('one list object handed to two blocks')
                else:
                    refs = [('c', i) for i in range(len(chunks)) if chunks[i] is not None and rng.random() < 0.5] + \
                           [('l', i) for i in range(len(loops)) if rng.random() < 0.5]
                    rng.shuffle(refs)
                    content = [chunks[i] if kk == 'c' else loops[i] for kk, i in refs]
                last_list = (content, refs)
                name = rand_name(rng)
                blocks.append(cif.Block(name, content if content or rng.random() < 0.5 else None, comment=rand_comment(rng)))
                ops.append({'op': 'block', 'name': T.cps(name), 'content': [{'k': kk, 'i': i + 1} for kk, i in refs]})
            elif k == 'add':
                b = rng.randrange(len(blocks))
                cands = [('c', i) for i in range(len(chunks)) if chunks[i] is not None] + [('l', i) for i in range(len(loops))]
                if not cands:
                    continue
                kk, i = rng.choice(cands)
                blocks[b].add(chunks[i] if kk == 'c' else loops[i])
                ops.append({'op': 'add', 'b': b + 1, 'k': kk, 'i': i + 1})
                feats.add('add after construction')
            elif k == 'adddict':
                b = rng.randrange(len(blocks))
                d = {tag(): value() for _ in range(rng.choice([1, 1, 2]))}
                if rng.random() < 0.5:
                    blocks[b].add(d, comment=rand_comment(rng))
                else:
                    blocks[b].add(list(d.items()))
                chunks.append(None)         # the chunk made by add() is not reachable from outside; keeps the numbering
                ops.append({'op': 'adddict', 'b': b + 1, 'pairs': pairs_of(d)})
                feats.add('mapping handed to Block.add')
            elif k == 'copy':
                b = rng.randrange(len(blocks))
                blocks.append(blocks[b].copy())
                ops.append({'op': 'copy', 'b': b + 1})
                feats.add('Block.copy')
        except Exception as e:  # noqa: BLE001
            ctx.violation(f'objects: {k} operation raised {type(e).__name__} for admissible input', {'ops': [o['op'] for o in ops], 'exc': repr(e)[:300]})
            return tid
        if k != 'write':
            continue
        which = rng.sample(range(len(blocks)), rng.choice([1, 1, 1, min(2, len(blocks))]))
        wops = [*ops, {'op': 'write', 'blocks': [b + 1 for b in which]}]
        text, exc = None, None
        try:
            buf = io.StringIO()
            arg = blocks[which[0]] if len(which) == 1 and rng.random() < 0.7 else [blocks[b] for b in which]
            if isinstance(arg, list) and rng.random() < 0.3:
                arg = tuple(arg) if rng.random() < 0.5 else (b for b in arg)      # any iterable of blocks
            cif.save_cif(buf, arg, comment=rand_comment(rng))
            text = buf.getvalue()
        except Exception as e:  # noqa: BLE001
            exc = f'{type(e).__name__}: {e}'[:300]
        events.append({'tid': tid, 'api': 'objects', 'out': 'text' if text is not None else 'raised',
                       'text': T.cps(text) if text is not None else [], 'blocks': [], 'name': [], 'calls': [],
                       'ops': _strip_private(wops, text)})
        metas[tid] = {'api': 'objects', 'text': text, 'exc': exc, 'exc_type': exc.split(':')[0] if exc else None,
                      'ops': [o['op'] for o in wops], 'features': sorted(feats), 'strings': list(strings), 'flavour': flavour,
                      'phase': 'main', 'orig': None}
        ctx.case(nontrivial_id=('o', tid) if len(wops) >= 4 else None)
        tid += 1
    return tid


# ------------------------------------------------------------------------------------------ verdicts
def _tag_of(meta, val):
    for _, items in meta['exp']:
        for kind, tags, vals in items:
            if kind == 'pair' and vals[0] is val:
                return tags[0]
    return None


def _culprit_lowlevel(meta, b, j, c):
    exp = meta['exp']
    if 1 <= b <= len(exp) and 1 <= j <= len(exp[b - 1][1]):
        vals = exp[b - 1][1][j - 1][2]
        return vals[min(max(c, 1), len(vals)) - 1]
    return None


def _awkward(vals):
    return [v for v in vals if v.kind == 's' and v.cls() in T.DEFECT_CLASSES]


def _syntax_only_key(api, le, pe, text, awkward):
    """The token structure is as supplied but the text is not valid CIF 1.1."""
    if le == 'non_ascii_character' and text is not None:
        i = next(k for k, ch in enumerate(text) if ord(ch) > 126)
        line = text[text.rfind('\n', 0, i) + 1:i + 1]
        if line.startswith('#'):
            where = 'file comment' if text.find('data_') > i else 'comment'
            return f'{api}: non-ASCII text in {where} written without escaping', None
        return f'{api}: non-ASCII character written into a value', None
    if len(awkward) == 1:
        return None, awkward[0]
    if le == 'reserved_opener' and text is not None:
        toks, _, at = T.py_lex(text, with_error_index=True)
        bad = toks[at][1] if at is not None and at < len(toks) else None
        hit = [v for v in awkward if T.escaped(v.v) == bad]
        if hit:
            return None, hit[0]
    return f'{api}: text is not valid CIF 1.1 ({le or pe}) although the token structure is as supplied', None


def _key_for(api, clause, val, text, tag=None):
    cls = val.cls()
    how = T.how_written(text, val.v, tag) if (val.kind == 's' and text is not None) else 'as number token'
    if cls in T.DEFECT_CLASSES:
        return f'{T.CLASS_TEXT[cls]} written {how}'
    return f'{api}: {clause} at {T.CLASS_TEXT[cls]} written {how}'


def _cell_to_val(cell):
    """Supplied cell printed by TLC -> Val (strings only; other cells give None)."""
    if isinstance(cell, dict) and cell.get('t') == 's':
        return S(''.join(map(chr, cell.get('s') or [])))
    return None


def judge_rejects(ctx, rejects, metas):
    rejected_tids = {r[2] for r in rejects}
    # smallest files first: the details kept per key (5) are then the minimal reproducers
    for rej in sorted(rejects, key=lambda r: (len(metas[r[2]]['text'] or ''), r[2])):
        _, _line, tid, clause, b, j, c, le, pe, cell = rej
        meta = metas[tid]
        text = meta['text']
        detail = {'clause': clause, 'where': [b, j, c], 'lex_error': le, 'parse_error': pe, 'text': (text or '')[:500]}
        # a case that was accepted when it ran first and is rejected when it runs again later: the history matters
        later = ' [only when written again later, in another order]' if meta.get('orig') is not None and meta['orig'] not in rejected_tids else ''
        if text is not None and '\r' in text and all(
                text[text.rfind('\n', 0, i) + 1:i].lstrip(' \t').startswith('#') for i, ch_ in enumerate(text) if ch_ == '\r'):
            # every CR of the file stands in a comment line: it comes from comment text (CR / CR LF line ends)
            ctx.violation(f'{meta["api"]}: comment text with CR or CR LF line ends: the CR is written into the comment line '
                          '(CIF ends the line there, what follows is read as data)' + later, detail)
            continue
        if clause == 'version_identifier_is_not_CIF_1.1':
            ctx.violation(f'{meta["api"]}: the file announces a CIF version other than 1.1 in its first line', detail)
            continue
        if meta['api'] == 'objects':
            detail |= {'operations': meta['ops'], 'strings': meta['strings'][:12], 'exc': meta['exc']}
            feats = ', '.join(meta['features']) or 'construction only'
            if clause == 'exception_for_representable_content':
                ctx.violation(f'objects: {meta["exc_type"]} raised by save_cif for representable content ({feats})', detail)
            else:
                what = clause if clause != 'syntax' else f'syntax ({le or pe})'
                ctx.violation(f'objects: {what} in a program with: {feats}', detail)
            continue
        if meta['api'] == 'lowlevel':
            doc = meta['doc']
            allvals = [v for _, items in meta['exp'] for _, _, vs in items for v in vs]
            detail['doc'] = doc.label
            if clause == 'exception_for_representable_content' and meta.get('exc_type') == 'DTypeError' and \
                    any(v.kind == 'n' and isinstance(v.v, int) for v in allvals):
                refused_int(ctx)      # integer-typed number among the operands: refusal accepted (lead decision)
                continue
            if clause == 'exception_for_representable_content':
                val = doc.special
                cls = val.cls() if val is not None else 'several values'
                ctx.violation(f'lowlevel: {meta["exc_type"]} raised for representable content ({T.CLASS_TEXT.get(cls, cls)})',
                              detail | {'value': val.show() if val else None, 'exc': meta['exc']})
                continue
            if clause == 'syntax':
                key, val = _syntax_only_key('lowlevel', le, pe, text, [doc.special] if doc.special is not None and
                                            doc.special.cls() in T.DEFECT_CLASSES else _awkward(allvals))
                if key is None:
                    key = _key_for('lowlevel', clause, val, text, _tag_of(meta, val))
            else:
                val = _culprit_lowlevel(meta, b, j, c)
                if val is None:
                    key = f'lowlevel: {clause} outside the supplied items'
                else:
                    key = _key_for('lowlevel', clause, val, text, _tag_of(meta, val))
            ctx.violation(key + later, detail | {'value': val.show() if val else None, 'reproduce': _repro_lowlevel(val, doc)})
        else:
            bs = meta['bs']
            ops = [c['op'] for c in bs.calls]
            detail['calls'] = ops
            awkward = _awkward([S(s) for s in bs.strings])
            if clause == 'exception_for_representable_content' and meta.get('exc_type') == 'DTypeError' and \
                    any(c.get('_int') for c in bs.calls):
                refused_int(ctx)
                continue
            if clause == 'exception_for_representable_content':
                ctx.violation(f'builder: {meta["exc_type"]} raised by save() for representable content',
                              detail | {'exc': meta['exc'], 'strings': bs.strings[:20]})
                continue
            if clause in ('author_and_role_ids_inconsistent', 'role_id_without_exactly_one_author_id'):
                ctx.violation(f'builder: {clause}' + later, detail)
                continue
            if clause == 'block_name':
                ctx.violation('builder: the block does not carry the name this builder was given (constructor, or name setter used '
                              'on it)' + later, detail | {'saved_with': meta.get('how')})
                continue
            val = None
            if clause == 'syntax':
                key, val = _syntax_only_key('builder', le, pe, text, awkward)
                if key is None:
                    key = _key_for('builder', clause, val, text)
            else:
                val = _cell_to_val(cell)
                if val is not None and val.cls() in T.DEFECT_CLASSES:
                    key = _key_for('builder', clause, val, text)
                elif val is not None:
                    tag = ''.join(map(chr, cell.get('tag') or []))
                    key = f'builder: {clause} at {T.CLASS_TEXT[val.cls()]} cell of item _{tag}'
                else:
                    kind = cell.get('t') if isinstance(cell, dict) else 'none'
                    tag = ''.join(map(chr, cell.get('tag') or [])) if isinstance(cell, dict) else ''
                    kname = {'n': 'number', 'i': 'id', 'x': 'unprescribed-token', 'm': 'missing-value',
                             'none': 'no'}.get(kind, kind)
                    key = f'builder: {clause} at {kname} cell of item _{tag}' if tag else \
                        f'builder: {clause}: items missing or added at the end of the block'
            ctx.violation(key + later, detail | {'value': val.show() if val else None, 'awkward_strings': [v.v for v in awkward][:5],
                                                 'saved_with': meta.get('how')})


def _repro_lowlevel(val, doc):
    if val is None or doc.special is None:
        return None
    arg = repr(val.v) if val.var is None else f'sc.scalar({val.v!r}, variance={val.var!r})'
    return ("from scippneutron.io import cif; import io, scipp as sc; b = io.StringIO(); "
            f"cif.save_cif(b, cif.Block('b', [{{'c14.t': {arg}, 'c14.u': 'z'}}])); print(b.getvalue())")


# ------------------------------------------------------------------------------------------ TLC runs
def validate_in_parallel(ctx, events, nproc, timeout):
    """Split the events into nproc NDJSON files of similar size and let one TLC (1 worker, linear
    trace) judge each.  Returns the REJECT tuples with global line numbers removed (tid is global)."""
    if not events:
        return []
    # longest-processing-time-first packing; cost grows faster than linearly with the size of a file
    # (TLC copies sequences on Append)
    cost = [len(e['text']) + 200 + len(e['text']) ** 2 // 4000 for e in events]
    nproc = max(1, min(nproc, len(events)))
    chunks = [[] for _ in range(nproc)]
    load = [0] * nproc
    for i in sorted(range(len(events)), key=lambda i: -cost[i]):
        k = load.index(min(load))
        chunks[k].append(events[i])
        load[k] += cost[i]
    chunks = [c for c in chunks if c]
    results = [None] * len(chunks)
    errors = []

    def work(i):
        try:
            tf = ctx.tmp / f'c14-{i}.ndjson'
            write_ndjson(tf, chunks[i])
            results[i] = ctx.tlc('textio/Trace_Cif.tla', workers=1, env={'TRACE_FILE': str(tf)}, timeout=timeout)
            tf.unlink(missing_ok=True)
        except Exception as e:  # noqa: BLE001
            errors.append(e)

    threads = []
    for i in range(len(chunks)):
        t = threading.Thread(target=work, args=(i,))
        t.start()
        threads.append(t)
        time.sleep(0.25)   # distinct metadir names (tlc.run derives them from the clock)
    for t in threads:
        t.join()
    if errors:
        raise errors[0] if isinstance(errors[0], MachineryError) else MachineryError(repr(errors[0]))
    rejects = []
    for i, res in enumerate(results):
        require_ok(ctx, res, f'Trace_Cif chunk {i}')
        done = res.tagged('DONE')
        if not done or done[0][1] != len(chunks[i]):
            raise MachineryError(f'Trace_Cif chunk {i}: validation incomplete: {done} vs {len(chunks[i])} events')
        nrej = res.tagged('REJECT')
        if len(nrej) != done[0][2]:
            raise MachineryError(f'Trace_Cif chunk {i}: {done[0][2]} rejected events but {len(nrej)} REJECT lines parsed')
        rejects += nrej
    return rejects


def run(ctx):
    ctx.rule = RULE
    ctx.assume('blanks = SP, HT, LF: "strings are recovered up to surrounding blanks" is read with LF as a blank '
               '(weakest reading); CR LF and bare CR are line ends like LF (CIF 1.1): values are compared up to the spelling '
               'of their line ends; bare ? and . are accepted unquoted (DESIGN 3.4)')
    ctx.assume('strings containing LF immediately followed by ";" cannot be carried by CIF 1.1 (TLC: NoValueHasLfSemi): '
               'an exception is accepted for them, as is any text that still reads back')
    ctx.assume('words that merely start with loop_ / stop_ / global_ (e.g. loop_x) are not generated: whether they are '
               'reserved is read differently by different CIF parsers')
    ctx.assume('value(su) notation is exercised for |x| in {0} u [1e-15,1e15] and su/|x| in [1e-15,1e6]; outside, the '
               "compact formatter of scipp (format spec 'c', not part of scippneutron) prints float artefacts or 'inf(..)'")
    ctx.assume('block names and tags are non-empty strings of non-blank printable ASCII (not in the quantifier); '
               'uniqueness of data names is not demanded (repeating with_beamline repeats names by construction)')
    ctx.assume('builder: column order name, email, address, id_orcid, id and the order audit / authors / roles / content '
               'as shown in the module docstring of io/cif.py; a field is written iff some author of the category has it; '
               'facility names that trigger the undocumented probe/device deduction are not used without a Source')
    ctx.assume('non-ASCII: only "the output is ASCII, the token structure is unchanged and the ASCII parts survive in '
               'order" is demanded, not a particular escape')
    ctx.assume('comments may contain CR / CR LF line ends (CIF 1.1 counts a bare CR as a line terminator: what follows a CR '
               'inside a comment is data)')
    ctx.assume('a version identifier in the first line is optional, but if the file starts with #\\#CIF_ it must say 1.1')
    ctx.assume('single-precision numbers are generated outside 1e7 <= |x| < 1e16, where numpy pads the shortest identifying '
               'digits with zeros (-42670174208 is printed as -42670174000.0); integer and single-precision numbers only '
               'without variances')
    ctx.assume('a scipp DTypeError raised by a builder / Loop / Chunk call that was handed at least one integer-typed numeric '
               'operand is an accepted refusal (no document is produced; same reading as C07, C16); every document that is '
               'produced from integer-typed data is judged in full; any other exception, or a DTypeError without an integer '
               'operand, is a violation')
    ctx.assume('object programs: a pair or column is only ever added under a new data name (what overwriting an existing '
               'name does to the order is not specified); whether a block starts with the dictionary-conformance loop is '
               'not judged for object programs (Block.copy adds the coreCIF schema)')
    th = ctx.thorough
    nw = int(os.environ.get('VERIF_TLC_WORKERS', '16'))   # developers on a shared machine set this lower

    # ---------------------------------------------------------------- 1. design: TLC exhaustive + negative controls
    # (started now, running next to the generation of the conformance events, joined before the verdicts)
    maxlen = 5 if th else 4
    suffix = '_thorough.cfg' if th else '.cfg'
    model_runs = [('textio/MC_CifLexer.tla', 'MC_CifLexer' + suffix, False), ('textio/MC_CifDoc.tla', 'MC_CifDoc' + suffix, False),
                  ('textio/CifDocBuilder.tla', 'MC_CifDocBuilder' + suffix, False),
                  ('textio/MC_CifObjects.tla', 'MC_CifObjects' + suffix, False), ('textio/MC_CifObjects.tla', 'Neg_CifObjects_copylist.cfg', True),
                  ('textio/MC_CifLexer.tla', 'Neg_CifLexer_naive.cfg', True), ('textio/MC_CifLexer.tla', 'Neg_CifLexer_lfsemi.cfg', True),
                  ('textio/MC_CifDoc.tla', 'Neg_CifDoc.cfg', True), ('textio/CifDocBuilder.tla', 'Neg_CifDocBuilder.cfg', True)]
    model_results, model_errors = {}, []

    def model_worker(i):
        mod, cfg, neg = model_runs[i]
        try:
            model_results[i] = ctx.tlc(mod, cfg, workers=2 if neg else max(2, nw // 3), timeout=1500, expect_error=neg, count=False)
        except Exception as e:  # noqa: BLE001
            model_errors.append(e)

    model_threads = []
    for i in range(len(model_runs)):
        t = threading.Thread(target=model_worker, args=(i,))
        t.start()
        model_threads.append(t)
        time.sleep(0.3)   # distinct metadir names (tlc.run derives them from the clock)

    # ---------------------------------------------------------------- 2. conformance, low-level API (M1)
    rng = ctx.rng
    events, metas = [], {}
    tid = 0

    written_docs = []

    def add(doc, phase='main', orig=None):
        nonlocal tid
        ev, meta = lowlevel_event(ctx, tid, doc, ctx.tmp)
        meta['phase'], meta['orig'] = phase, orig
        if phase == 'main':
            written_docs.append((doc, tid))
        events.append(ev)
        metas[tid] = meta
        vals = [v for _, items in meta['exp'] for _, _, vs in items for v in vs]
        nt = doc.special.nontrivial() if doc.special is not None else any(v.nontrivial() for v in vals)
        ctx.case(nontrivial_id=('l', tuple((v.kind, v.v, v.var) for v in vals[:40])) if nt else None)
        tid += 1

    # (a) the string set of the exhaustive model
    for n in range(maxlen + 1):
        for chars in itertools.product(ALPHABET, repeat=n):
            add(single_value_doc(S(''.join(chars)), label='exhaustive alphabet string in pair + 2x2 loop'))
    # (b) reserved words, special tokens, random printable / non-ASCII / long strings, numbers
    for kw in KEYWORDS + ['?', '.', '', '1.5', '-3', '1.0(2)', '\xb5m', 'Unicode: \xb5\xc5', '日本 語']:
        for wrap in ('raw', 'scalar'):
            add(single_value_doc(S(kw, wrap=wrap), label='reserved word / special token in pair + 2x2 loop'))
    for _ in range(6000 if th else 700):
        add(single_value_doc(S(rand_any(rng, 30), wrap=rng.choice(['raw', 'scalar'])), label='random string in pair + 2x2 loop'))
    for where in ('file', 'block', 'chunk', 'loop'):
        for com in ('\xb5m', 'caf\xe9\nsecond line \u65e5\u672c', '_tag loop_ \U0001f600'):
            d = single_value_doc(S('v'), label=f'non-ASCII comment on {where}')
            d.special = None
            if where == 'file':
                d.comment = com
            elif where == 'block':
                d.blocks[0]['comment'] = com
            else:
                d.blocks[0]['items'][0 if where == 'chunk' else 1]['comment'] = com
            add(d)
    for x in _SPECIAL_FLOATS:
        add(single_value_doc(Val('n', x), label='number in pair + loop'))
    for _ in range(3000 if th else 400):
        add(single_value_doc(rand_number(rng), label='number in pair + loop'))
    # (c) random blocks: chunks and loops of 1..50 rows x 1..6 columns
    counter = [0]
    for i in range(2400 if th else 240):
        add(rand_doc(rng, ('clean', 'one', 'clean', 'one', 'clean', 'all')[i % 6], counter))
    ctx.extra['integer_operands_refused_with_DTypeError'] = 0
    ctx.extra['lowlevel_files'] = tid
    n_low = tid

    # ---------------------------------------------------------------- 3. conformance, builder (M2)
    saved_builders = []
    for force in ({'force_op': 'data', 'force_cdt': 'int64'}, {'force_op': 'data', 'force_ydt': 'int64'},
                  {'force_op': 'calib', 'force_caldt': 'int64'}, {'force_op': 'data', 'force_cdt': 'int32', 'force_ydt': 'float32'},
                  {'force_op': 'data', 'force_cdt': 'float32', 'force_ydt': 'int32'}, {'force_op': 'calib', 'force_caldt': 'float32'}):
        tid = run_builder_program(ctx, rng, 'clean', tid, events, metas, keep=saved_builders, force=force)
    for i in range(1500 if th else 150):
        tid = run_builder_program(ctx, rng, ('clean', 'one', 'clean', 'all')[i % 4], tid, events, metas, keep=saved_builders)
    ctx.extra['builder_saves'] = tid - n_low

    # ---------------------------------------------------------------- 3b. conformance, programs over Chunk / Loop / Block objects
    n_before = tid
    for i in range(2500 if th else 260):
        tid = run_object_program(ctx, rng, ('clean', 'clean', 'one', 'all')[i % 4], tid, events, metas)
    ctx.extra['object_program_writes'] = tid - n_before

    # ---------------------------------------------------------------- 3c. a sample of all cases again, in another order (HARDENING 6):
    # the same plans / the same builder objects, written once more after everything else has happened
    n_before = tid
    again = rng.sample(written_docs, min(len(written_docs), 2500 if th else 260))
    for doc, otid in reversed(again):
        add(doc, phase='again', orig=otid)
    again_b = rng.sample(saved_builders, min(len(saved_builders), 1500 if th else 160))
    rng.shuffle(again_b)
    for target, flavour, otid in again_b:
        record_builder_save(ctx, rng, tid, target, flavour, events, metas, phase='again', orig=otid)
        tid += 1
    ctx.extra['written_again_in_another_order'] = tid - n_before
    ctx.extra['characters_lexed_by_tlc'] = sum(len(e['text']) for e in events)
    for e in (events[300], events[n_low - 1], events[-1]):
        ctx.sample({k: (v if k not in ('text',) else ''.join(map(chr, v))[:300]) for k, v in e.items()
                    if k not in ('blocks', 'calls')} | {'n_items': sum(len(b['items']) for b in e['blocks']) or len(e['calls'])})

    # ---------------------------------------------------------------- join the model runs
    for t in model_threads:
        t.join()
    if model_errors:
        raise model_errors[0] if isinstance(model_errors[0], MachineryError) else MachineryError(repr(model_errors[0]))
    for i, (mod, cfg, neg) in enumerate(model_runs):
        r = model_results[i]
        if not neg:
            require_ok(ctx, r, f'{mod} / {cfg}')
            ctx.states += r.generated
            ctx.distinct_states += r.distinct
            ctx.transitions += max(r.generated - 1, 0)
    nstrings = sum(len(ALPHABET) ** k for k in range(maxlen + 1))
    if model_results[0].distinct != nstrings:
        raise MachineryError(f'CifLexer explored {model_results[0].distinct} strings, expected {nstrings}')

    # ---------------------------------------------------------------- 4. TLC judges every file
    rejects = validate_in_parallel(ctx, events, nproc=min(nw, 12), timeout=2400)
    ctx.traces(len(events))
    ctx.extra['files_rejected_by_tlc'] = len(rejects)
    judge_rejects(ctx, rejects, metas)

    # ---------------------------------------------------------------- 5. ORCID iD check character of author ids
    # (spec/metadata/Orcid.tla; the ids end up in _audit_author.id_orcid)
    from .. import lib_orcid
    ctx.run_growth(lambda c: lib_orcid.run(c, prefix='orcid'), 'lib_orcid')
    # whose is the file handle save_cif writes to (spec/textio/Growth_FileHandles.tla)
    from .. import lib_growth_filehandles
    ctx.run_growth(lib_growth_filehandles.run, 'lib_growth_filehandles')


META = {
    'design_ref': 'DESIGN.md §5 C14',
    'technique': 'TLA+ specification of the CIF 1.1 lexical grammar, document parser and builder; TLC model-checks '
                 'quoting/round-trip/id invariants exhaustively and judges every file written by the real code '
                 '(text handed to TLC as code points)',
    'text': 'TLC proves on all strings up to length 5 over the CIF-significant alphabet that a faithful quoting exists '
            'exactly for strings without LF+";" and that comments never become tokens, and on bounded documents / builder '
            'call sequences / programs over Chunk, Loop and Block objects that the reference writer reads back, every role '
            'id names exactly one author and copies are independent. The real '
            'Chunk/Loop/Block/save_cif and the CIF builder are then driven with that string set, reserved words, numbers '
            'with/without variances (64- and 32-bit, numpy scalars, strided columns), non-ASCII text, comments with CR, '
            'loops up to 50x6, random builder programs and random object programs, and a sample is written again at the '
            'end in another order; TLC lexes and parses '
            'every produced file with the specification and compares it with what was supplied.',
    'note': 'Trusted: TLC, the JSON transport, scipp. Numeric closeness of number tokens (printed precision, su = '
            'sqrt(variance)) is decided by the harness with exact rationals/mpmath and bound to the token TLC sees. '
            'Strings with LF+";" may be refused; value(su) notation only in a moderate magnitude range.',
}
