------------------------------ MODULE Plateaus ------------------------------
(* Plateau finding, collapsing and in-phase filtering (scippneutron.chopper.filtering).   *)
(*                                                                                          *)
(* A series is grown one point at a time (action AddPoint), exactly as the implementation's  *)
(* cumulative sum walks over the successive slopes.  Two definitions live side by side:    *)
(*   - gid      : the implementation-shaped group id = running count of exceeding slopes  *)
(*   - MaxRuns  : the declarative set of maximal runs whose successive slopes stay within  *)
(*                the tolerance                                                             *)
(* and the invariants say they describe the same partition.  All arithmetic is exact:      *)
(* values and coordinate steps are integers, the tolerance is a rational <<num, den>>.     *)
EXTENDS PlateauDefs, TLC

CONSTANTS MaxLen,   \* maximal number of points
          Vals,     \* set of integer data values
          Steps,    \* set of positive integer coordinate steps
          Atols,    \* set of tolerances <<num, den>>, den > 0
          Bug       \* "none" | "ge" : negative control (>= instead of >)

VARIABLES ys,    \* data values
          dxs,   \* dxs[i] = x[i+1] - x[i]
          atol,  \* tolerance of this behaviour
          gid    \* group id per point as computed by the cumulative sum

vars == <<ys, dxs, atol, gid>>

Exceeds(i) == ExceedsOf(ys, dxs, atol, i)

ImplExceeds(i) ==
    IF Bug = "ge" THEN Abs(ys[i+1] - ys[i]) * atol[2] >= atol[1] * dxs[i]
    ELSE Exceeds(i)

-----------------------------------------------------------------------------
MaxRuns == MaxRunsOf(ys, dxs, atol)

-----------------------------------------------------------------------------
(* Implementation-shaped: groups induced by the running count.                  *)
ImplGroups ==
    { <<a, b>> \in (1..Len(gid)) \X (1..Len(gid)) :
        /\ a <= b
        /\ \A i \in a..b : gid[i] = gid[a]
        /\ (a = 1 \/ gid[a-1] # gid[a])
        /\ (b = Len(gid) \/ gid[b+1] # gid[b]) }

Init == /\ atol \in Atols
        /\ \E y \in Vals : ys = <<y>>
        /\ dxs = <<>>
        /\ gid = <<0>>

AddPoint(dx, y) ==
    /\ Len(ys) < MaxLen
    /\ ys' = Append(ys, y)
    /\ dxs' = Append(dxs, dx)
    /\ LET n == Len(ys)
           ex == IF Bug = "ge"
                 THEN Abs(y - ys[n]) * atol[2] >= atol[1] * dx
                 ELSE Abs(y - ys[n]) * atol[2] >  atol[1] * dx
       IN gid' = Append(gid, gid[n] + (IF ex THEN 1 ELSE 0))
    /\ UNCHANGED atol

Next == \E dx \in Steps, y \in Vals : AddPoint(dx, y)

Spec == Init /\ [][Next]_vars

-----------------------------------------------------------------------------
(* Properties                                                                  *)
GroupsAreMaxRuns == ImplGroups = MaxRuns

(* the runs partition the input: disjoint, none missing *)
Partition ==
    /\ \A i \in 1..Len(ys) : \E r \in MaxRuns : r[1] <= i /\ i <= r[2]
    /\ \A r, q \in MaxRuns : r # q => (r[2] < q[1] \/ q[2] < r[1])

(* ids grow monotonically, by at most one: groups come in input order *)
GidMonotone == \A i \in 1..(Len(gid)-1) : gid[i+1] - gid[i] \in {0, 1}

(* Collapsing: x coordinates are partial sums of the steps; the half-open interval     *)
(* [x_a, next(x_b)) contains all points of the run and does not reach the next run.    *)
RECURSIVE XAt(_)
XAt(i) == IF i = 1 THEN 0 ELSE XAt(i-1) + dxs[i-1]
CollapseDisjoint ==
    \A r, q \in MaxRuns : r[2] < q[1] => XAt(r[2]) + 1 <= XAt(q[1])   \* integer "next after"

TypeOK == /\ Len(gid) = Len(ys) /\ Len(dxs) = Len(ys) - 1

(* export of complete behaviours for replay into the implementation (-simulate, -workers 1) *)
EmitCase == (Len(ys) = MaxLen) => PrintT(<<"CASE", ys, dxs, atol, SortRuns(MaxRuns)>>)

-----------------------------------------------------------------------------
=============================================================================
