SPECIFICATION Spec
CONSTANTS
  K = 8
  SlitSets <- MC_NegSets
  Bug = "smallarcs"
INVARIANT FlagsRight
CHECK_DEADLOCK FALSE
