------------------------------ MODULE QVecDefs ------------------------------
(* Momentum-transfer vector and hkl algebra (scippneutron.conversion.tof), state-free.    *)
(*   Q = (2 pi / lambda) (e_i - e_f),   e_i = b1/|b1|, e_f = b2/|b2|                       *)
(* A beam is a record [v, n]: an integer vector together with its integer norm            *)
(* (axis vectors, Pythagorean triples and quadruples, their signed permutations, integer   *)
(* multiples and images under rational rotations), so the unit vectors are rational:       *)
(*   e_i - e_f = QDirN / QDirD.   The factor 2 pi / lambda is applied by the harness.      *)
(* Rotations are QuatMat(q)/QuatN(q) for small integer quaternions (Lattice).              *)
(*   Q_lab = 2 pi R U B hkl;  with R = MR/NR, U = MU/NU and integer B:                     *)
(*   Q_lab / (2 pi) = A hkl / D,   A = MR MU B (integer),  D = NR NU                       *)
(*   hkl = D Adj(A) (Q_lab / 2 pi) / Det(A)                 (Cramer's rule)                *)
EXTENDS Lattice

IsBeam(b) == b.n > 0 /\ b.n * b.n = Norm2(b.v)

(* e_i - e_f = (n2 b1 - n1 b2) / (n1 n2) *)
QDirN(b1, b2) == VSub(VScale(b2.n, b1.v), VScale(b1.n, b2.v))
QDirD(b1, b2) == b1.n * b2.n
(* canonical form: componentwise reduced rationals *)
RatVec(v, d)  == <<Reduce(v[1], d), Reduce(v[2], d), Reduce(v[3], d)>>
QDir(b1, b2)  == RatVec(QDirN(b1, b2), QDirD(b1, b2))

(* |e_i - e_f|^2 = 2 - 2 cos(2theta) = 4 sin^2(theta) = (Q lambda / 2 pi)^2,               *)
(* cos(2theta) = b1.b2/(n1 n2) being the cosine of C03's angle class (scalar route, C01)   *)
FourSin2(b1, b2) == Reduce(2 * (QDirD(b1, b2) - Dot(b1.v, b2.v)), QDirD(b1, b2))

(* rotation of a rational vector v/d by the rational rotation QuatMat(q)/QuatN(q) *)
RotRat(q, v, d) == RatVec(MatVec(QuatMat(q), v), QuatN(q) * d)
(* rotating a beam: the numerator matrix is applied, M b has norm N |b|; by length         *)
(* independence this is as good as the rotated beam itself                                 *)
RotBeam(q, b)   == [v |-> MatVec(QuatMat(q), b.v), n |-> QuatN(q) * b.n]
ScaleBeam(k, b) == [v |-> VScale(k, b.v), n |-> k * b.n]

IsRotation(q) == /\ MatMul(QuatMat(q), Transpose(QuatMat(q))) = MatScale(QuatN(q) * QuatN(q), Identity3)
                 /\ Det3(QuatMat(q)) = QuatN(q) * QuatN(q) * QuatN(q)

(* ------------------------------------------------------------------------- hkl *)
UBNum(qu, B)      == MatMul(QuatMat(qu), B)                              \* U B = UBNum / QuatN(qu)
RUBNum(qr, qu, B) == MatMul(QuatMat(qr), UBNum(qu, B))                   \* A = MR (MU B)
RUBDen(qr, qu)    == QuatN(qr) * QuatN(qu)                               \* D
(* Q_lab/(2 pi) for given hkl, as numerator vector over D *)
QLabNum(qr, qu, B, h) == MatVec(RUBNum(qr, qu, B), h)
(* Cramer: the solution x of (A/D) x = v/dv  is  D Adj(A) v / (Det(A) dv) *)
Solve(A, D, v, dv) ==
    LET w == MatVec(Adj3(A), v)  g == GCD(VGcd(w), Det3(A))          \* divide first: 32 bit
    IN  RatVec(VScale(D, <<w[1] \div g, w[2] \div g, w[3] \div g>>), (Det3(A) \div g) * dv)

(* hkl straight from the beams (the coordinate-graph route wavelength -> Qx,Qy,Qz -> Q_vec   *)
(* -> hkl_vec -> h,k,l):  Q/(2 pi) = (e_i - e_f)/lambda, hence                                *)
(*   lambda * hkl = Solve(R UB, e_i - e_f)       (a rational vector; the harness divides by   *)
(* the wavelength).                                                                          *)
HklTimesLambda(qr, qu, B, b1, b2) ==
    Solve(RUBNum(qr, qu, B), RUBDen(qr, qu), QDirN(b1, b2), QDirD(b1, b2))

(* beams of the graph-route cases (exported by QVecCases, quantified over by QVecHkl!GraphRoute) *)
GInc == { [v |-> <<0, 0, 1>>, n |-> 1], [v |-> <<2, -1, 2>>, n |-> 3] }
GSc  == { [v |-> <<1, 0, 0>>, n |-> 1], [v |-> <<0, 0, 1>>, n |-> 1], [v |-> <<1, 2, 2>>, n |-> 3],
          [v |-> <<0, -3, 4>>, n |-> 5], [v |-> <<-2, 2, -1>>, n |-> 3] }

(* ---- operand forms of one call: how the same mathematical case may be supplied            *)
(*   wavelength dtype (integer-typed wavelengths are exact rationals like any float), unit    *)
(*   (Q comes out in its reciprocal), layout relative to the detector dim; the two beams in   *)
(*   the same or different length units (only directions matter);  Qx/Qy/Qz handed to the     *)
(*   reassembly with their dims listed in different orders;                                   *)
(*   hkl: Q and UB in the same or in different reciprocal length units (hkl then carries a    *)
(*   scale in its unit: value * scale is the index), R / U / B one matrix each or one per     *)
(*   peak, and the same UB used again with another goniometer rotation.                       *)
WlDTypes   == {"float64", "int64", "int32", "float32"}
WlLayouts  == {"outer", "grid", "grid_transposed", "scalar"}
RecipUnits == {"angstrom", "nm"}
QForms     == [dtype : WlDTypes, unit : RecipUnits, layout : WlLayouts, beam_units : {"same", "mixed"},
               element_dims : {"same_order", "mixed_order"}]
HklVars    == {"matrix", "rotation3", "per_peak_arrays", "same_ub_other_rotation"}

(* splitting a vector into components and reassembling it *)
Split(v) == [x |-> v[1], y |-> v[2], z |-> v[3]]
Join(c)  == <<c.x, c.y, c.z>>
=============================================================================
