SPECIFICATION Spec
CONSTANTS
  NPix = {0, 1, 2, 8, 9, 10, 11, 20}
  Chunks = {1, 2, 9, 10, 100}
  Shapes <- MC_Shapes
  RegSize <- MC_RegSize
  ByteOrders <- MC_BO_both
  Prev <- MC_Prev_none
  MaxGen = 1
  Bug = "none"
INVARIANT TypeOK
INVARIANT HeaderFirst
INVARIANT Sequential
INVARIANT BlockAtDeclaredPosition
INVARIANT Tiling
INVARIANT NothingSurvives
INVARIANT EachBlockOnce
INVARIANT CanonicalOrder
INVARIANT PixBytes
INVARIANT KindsAndSizes
INVARIANT ByteOrderReopened
INVARIANT EmitBehaviour
CHECK_DEADLOCK FALSE
