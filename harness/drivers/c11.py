"""C11 — chopper-cascade frames are exactly the set of transmitted neutrons.

Spec: spec/chopper/ChopperCascadeDefs.tla (neutron layer + polygon layer), ChopperCascade.tla (state
machine Chop / PropagateTo holding both layers, invariants Agree, AliveIsTransmitted, Band, Regular,
OrderIndependent, TwoStepEqualsOneStep, SplitPropagation), Emit_ChopperCascade.tla (spec -> code),
Trace_ChopperCascade.tla (code -> spec).

1. TLC, exhaustive: all cascades of <= 2 (quick) / <= 3 (thorough) choppers at distances {2,4,6} with 1..2
   windows over an edge grid that makes windows cut, contain, miss and exactly touch the frames, for 2..3
   pulse rectangles, with intermediate propagations: a grid neutron is alive iff strictly inside a polygon
   of the clipping algorithm; polygons stay in the wavelength band and are regular; listing order and
   one-step/two-step evaluation do not matter.  Thorough adds random deep walks (-simulate: 5 distances,
   <= 5 choppers, <= 3 windows).  Ten negative controls (clip orientation, absolute instead of relative
   shear, windows applied to the first subframe only, unsorted choppers, tie-breaking interpolation,
   extrapolating interpolation, absolute propagation, loop over the windows stopped at the first late one,
   magnitude of the distance difference, __getitem__ always taking the last frame) must be rejected.
2. spec -> code (M1): every Stride-th cascade of that model is replayed into FrameSequence.from_source_pulse /
   chop (whole list in shuffled order; one chopper per call; with a propagate_to in between) / propagate_to /
   __getitem__ in physical units.  Each observed frame becomes one NDJSON event: the reported vertices mapped
   onto the integer lattice of the model, and for *every* grid neutron of the pulse whether it lies strictly
   inside a reported polygon.  TLC (Trace_ChopperCascade) decides: neutron layer for the membership, polygon
   layer for the vertices (as convex regions), flags for band / regularity / bounds.
3. code -> spec (M2): seeded random physical cascades (0..5 choppers at any even distance up to 100 units,
   also equal distances, 1..4 windows each, cutting / containing / missing / exactly touching, random programs
   of chop / propagate_to / __getitem__ calls), sampled grid neutrons (random + next to every reported vertex),
   judged by the neutron layer only.

Hardening round (HARDENING.md; what was added and why it cannot alarm on correct code):
 * model: the windows of a chopper are applied in the order they are listed (a reversed window pair is part of the
   exhaustive chopper set; negative control "breaksorted" = the seeded change); PropagateTo also goes back towards
   the source, not behind the last chopper (negative control "absdelta"; the driver comes back to a distance
   strictly beyond the frame it started from - a float round trip d -> far -> d cannot restore the exact time ties
   that Subframe.is_regular relies on at d, which is not something floating point can promise); __getitem__(distance) is the operator
   GetAt on the frame sequence with invariant GetAtAgrees (MC_ChopperCascade_getat.cfg, negative control "getlast").
 * spellings of the same cascade (make_chopper / Scale): window arrays as strided views, choppers selected with
   Chopper.__getitem__ from a chopper with two more far-away windows, int64 metres where whole, final and asked
   distances in cm / mm, a uniformly tiny (tick 31 ns) and a large (tick 1 ms) scale also for the exact vertex
   comparison, pulses that start before time zero.
 * call shapes: Frame.chop / Frame.propagate_to without a FrameSequence, chop([]), propagation beyond the next
   chopper and back, propagate_to with a 1-d variable of distances (every slice is observed as a frame of its own),
   the source sequence observed again after it was used.
 * second use: every seventh task of a worker process is replayed at its end in the reverse order with the same
   seed (keys get a suffix); the first call of a worker process is never a judged one.
 * integer-typed operands in ANOTHER unit than the code works in (pulse bounds in int ms / us, propagate_to and
   __getitem__ distances in int cm): converted in integer arithmetic - genuine defects, one key per call site
   (mutants/C11/PROPOSED_FIX_int_*.diff).  A dtype error for integer-typed operands counts as unsupported.
 * frames with non-finite / missing vertices become a violation with its own key, not a crash.
 Not judged (observation only): after propagate_to with a distance in cm, __getitem__ with a distance in m raises
 UnitError (the frame keeps the caller's unit) - a refusal, not a wrong answer.

Numeric steps outside TLC (stated once): times are divided by the tick tau = D0*lam0*m_n/h (exact rational
from the floats scipp exposes), wavelengths by lam0.  A reported vertex counts as a lattice point if it is
within 1e-9 of the largest coordinate of the frame (float error of the code: < 1e-13 relative).  Membership
of a grid neutron in the reported polygons is computed in exact integer arithmetic on the reported floats
(scaled by 2^32) after merging vertices closer than 1e-7 ticks (distinct vertices of a cascade with
distances <= 100 are >= 1e-4 ticks apart; grid neutrons are >= 0.5/sqrt(1+d^2) >= 0.005 ticks from every
edge, so rounding cannot change the answer).  Band: wavelengths within 1e-9 relative of the source band.
Regular / bounds: exact float comparisons on the reported vertices, as the property states.
Chopper window times are handed over in seconds (DESIGN 3.4).
"""

from __future__ import annotations

import json
import os
import time
from fractions import Fraction

import numpy as np
import scipp as sc

from ..core import MachineryError
from ..refmap import H, MN, check_constants
from ..tlc import require_actions, require_ok, write_ndjson
from ..lib_chopper import Background, Collector, chunked, merge_results, run_chunks

W = int(os.environ.get('VERIF_TLC_WORKERS', '16'))
PROCS = int(os.environ.get('VERIF_PROCS', '6'))

RULE = ('cascade = pulse rectangle x 0..5 choppers (even distances in model units, 1..4 disjoint windows each) x '
        'program of chop / propagate_to / __getitem__ calls x physical scale (distance unit, wavelength unit); '
        'non-trivial = some but not all grid neutrons are transmitted, or a window exactly touches the frame')

FIX = 1 << 32          # fine integer lattice for exact membership tests
MERGE = 1e-7           # ticks: vertices closer than this are one vertex
LATTICE_TOL = 1e-9     # relative to the largest coordinate of the frame
BAND_TOL = 1e-9


class Scale:
    """Physical meaning of the model units: distance D0 [m], wavelength lam0 [angstrom], time tau [s]."""

    def __init__(self, d0: Fraction, lam0: Fraction):
        self.d0, self.lam0 = d0, lam0
        self.tau = d0 * lam0 * Fraction(1, 10**10) * MN / H      # seconds per tick
        self.tau_f = float(self.tau)
        self.lam0_f = float(lam0)

    @classmethod
    def with_tick(cls, tau: Fraction, lam0: Fraction):
        """The scale whose time tick is exactly `tau` seconds (the distance unit follows; distances are then
        rounded to the nearest float, a relative 1e-16 that no grid neutron can notice)."""
        return cls(tau / (lam0 * Fraction(1, 10**10) * MN / H), lam0)

    def time(self, ticks, unit='s', as_int=False):
        f = {'s': 1, 'ms': 1000, 'us': 10**6}[unit]
        v = ticks * self.tau * f
        if as_int:
            if v.denominator != 1:
                raise AssertionError('time is not a whole number in its unit')
            return sc.scalar(int(v), unit=unit, dtype='int64')
        return sc.scalar(float(v), unit=unit)

    def wavelength(self, w, unit='angstrom'):
        f = {'angstrom': Fraction(1), 'nm': Fraction(1, 10)}[unit]
        return sc.scalar(float(w * self.lam0 * f), unit=unit)

    def distance(self, d, unit='m', as_int=False):
        v = d * self.d0 * {'m': 1, 'cm': 100, 'mm': 1000}[unit]
        if as_int:
            if Fraction(v).denominator != 1:
                raise AssertionError('distance is not a whole number in its unit')
            return sc.scalar(int(v), unit=unit, dtype='int64')
        return sc.scalar(float(v), unit=unit)

    def whole(self, d, unit='m'):
        return Fraction(d * self.d0 * {'m': 1, 'cm': 100, 'mm': 1000}[unit]).denominator == 1

    def distances(self, ds):
        return sc.array(dims=['distance'], values=[float(d * self.d0) for d in ds], unit='m')


def listed(win, mode):
    """The windows of one chopper in the order they are listed in the Chopper object: the API does not
    ask for sorted windows (from_disk_chopper lists an anticlockwise multi-slit disk in decreasing
    order within a rotation), and which neutrons pass does not depend on the listing order."""
    win = list(win)
    if mode % 3 == 1:
        win.reverse()
    elif mode % 3 == 2 and len(win) > 1:
        win = win[1:] + win[:1]
    return win


FAR = 10**7     # ticks: a window that no neutron of any generated pulse can reach


def make_chopper(cc, sc_, d, win, mode=0, dist=None):
    """mode picks how the same chopper is spelled: listing order of the windows (mode % 3), memory layout of the
    window arrays ((mode // 3) % 3: contiguous | strided views of one interleaved array | selected with
    Chopper.__getitem__ from a chopper that has two more windows far away), integer-typed distance in metres
    where it is a whole number ((mode // 9) % 2)."""
    win = listed(win, mode)
    layout = (mode // 3) % 3
    if dist is None:
        dist = sc_.distance(d, as_int=(mode // 9) % 2 == 1 and sc_.whole(d))
    if layout == 2:
        win = [(-FAR - 5, -FAR)] + win + [(FAR, FAR + 5)]
    opens, closes = [float(o * sc_.tau) for o, _ in win], [float(c * sc_.tau) for _, c in win]
    if layout == 1:
        edges = sc.array(dims=['cutout'], values=[x for oc in zip(opens, closes) for x in oc], unit='s')
        return cc.Chopper(distance=dist, time_open=edges[::2], time_close=edges[1::2])
    ch = cc.Chopper(distance=dist, time_open=sc.array(dims=['cutout'], values=opens, unit='s'),
                    time_close=sc.array(dims=['cutout'], values=closes, unit='s'))
    return ch[1:-1] if layout == 2 else ch


def source(cc, sc_, pulse, i=0, int_time=None):
    t0, t1, w0, w1 = pulse
    tu = ('s', 'ms', 'us')[i % 3] if int_time is None else int_time
    wu = ('angstrom', 'nm')[i % 2]
    return cc.FrameSequence.from_source_pulse(
        time_min=sc_.time(t0, tu, int_time is not None), time_max=sc_.time(t1, tu, int_time is not None),
        wavelength_min=sc_.wavelength(w0, wu), wavelength_max=sc_.wavelength(w1, wu))


# --------------------------------------------------------------------------- observation of a frame
class Malformed(Exception):
    """What the implementation returned is not a frame of finite polygons."""


def _vertices(frame, sc_):
    """[(t_ticks ndarray, w_ticks ndarray)] per subframe, from the reported floats."""
    out = []
    try:
        for sub in frame.subframes:
            t = np.asarray(sub.time.to(unit='s', copy=False).values, dtype='float64').ravel() / sc_.tau_f
            w = np.asarray(sub.wavelength.to(unit='angstrom', copy=False).values, dtype='float64').ravel() / sc_.lam0_f
            if len(t) == 0 or len(t) != len(w):
                raise Malformed(f'subframe with {len(t)} times and {len(w)} wavelengths')
            if not (np.all(np.isfinite(t)) and np.all(np.isfinite(w))):
                raise Malformed('non-finite vertex')
            if max(float(np.max(np.abs(t))), float(np.max(np.abs(w)))) > 1e12:
                raise Malformed('vertex beyond 1e12 ticks')
            out.append((t, w))
    except Malformed:
        raise
    except Exception as e:  # noqa: BLE001
        raise Malformed(f'{type(e).__name__}: {e}') from None
    return out


def frame_at(cc, frame, j):
    """The frame at the j-th distance of a frame that was propagated to a 1-d variable of distances
    (HARDENING 7): real Frame / Subframe objects made of slices of the reported arrays."""
    subs = []
    for sub in frame.subframes:
        extra = [dim for dim in sub.time.dims if dim not in sub.wavelength.dims]
        if len(extra) != 1:
            raise Malformed(f'time dims {sub.time.dims} vs wavelength dims {sub.wavelength.dims}')
        subs.append(cc.Subframe(time=sub.time[extra[0], j], wavelength=sub.wavelength))
    dist = frame.distance
    return cc.Frame(distance=dist[dist.dims[0], j] if dist.ndim == 1 else dist, subframes=subs)


def _fixed_polys(verts):
    """Vertices on the fine integer lattice, consecutive near-duplicates merged."""
    polys = []
    for t, w in verts:
        pts = []
        for a, b in zip(t, w):
            if pts and abs(a - pts[-1][2]) < MERGE and abs(b - pts[-1][3]) < MERGE:
                continue
            pts.append((int(round(a * FIX)), int(round(b * FIX)), a, b))
        while len(pts) > 1 and abs(pts[0][2] - pts[-1][2]) < MERGE and abs(pts[0][3] - pts[-1][3]) < MERGE:
            pts.pop()
        polys.append([(p[0], p[1]) for p in pts])
    return polys


def _inside(polys, te2, w2, d):
    """Grid neutron strictly inside one of the convex polygons? exact integers (doubled coordinates)."""
    px = (te2 + d * w2) * FIX      # 2 * t * FIX
    py = w2 * FIX
    for poly in polys:
        m = len(poly)
        if m < 3:
            continue
        pos = neg = False
        for i in range(m):
            ax, ay = poly[i]
            bx, by = poly[(i + 1) % m]
            cr = (2 * bx - 2 * ax) * (py - 2 * ay) - (2 * by - 2 * ay) * (px - 2 * ax)
            if cr > 0:
                pos = True
            elif cr < 0:
                neg = True
            else:
                pos = neg = True
                break
            if pos and neg:
                break
        if pos != neg:
            return True
    return False


def observe(frame, sc_, pulse, choppers, dist, L, pts, verts_wanted):
    """Event for one frame reported by the code. `choppers`: [(d, win)] applied so far (listed order)."""
    t0, t1, w0, w1 = pulse
    verts = _vertices(frame, sc_)
    fixed = _fixed_polys(verts)
    ev = {'ev': 'frame', 'L': L, 'pulse': list(pulse), 'dist': dist,
          'choppers': [{'d': d, 'win': [list(x) for x in win]} for d, win in choppers],
          'pts': [[a, b, _inside(fixed, a, b, dist)] for a, b in pts]}
    # -- vertices on the model lattice
    ev['verts'] = bool(verts_wanted)
    onl, polys = True, []
    if verts_wanted:
        big = max([1.0] + [float(np.max(np.abs(t))) for t, _ in verts] + [float(np.max(np.abs(w))) for _, w in verts])
        for t, w in verts:
            x, y = t * L, w * L
            rx, ry = np.rint(x), np.rint(y)
            if np.any(np.abs(x - rx) > LATTICE_TOL * big * L) or np.any(np.abs(y - ry) > LATTICE_TOL * big * L):
                onl = False
            polys.append([[int(a), int(b)] for a, b in zip(rx, ry)])
    ev['onlattice'], ev['polys'] = onl, polys
    # -- band (up to rounding)
    tol = BAND_TOL * max(1.0, float(w1))
    ev['band'] = all(bool(np.all(w >= w0 - tol) and np.all(w <= w1 + tol)) for _, w in verts)
    # -- regular: extreme time and extreme wavelength at the same vertex (exact, as the property says)
    reg = True
    for sub in frame.subframes:
        t = np.asarray(sub.time.values).ravel()
        w = np.asarray(sub.wavelength.values).ravel()
        reg &= bool(np.any((t == t.min()) & (w == w.min())) and np.any((t == t.max()) & (w == w.max())))
    ev['regular'] = reg
    # -- bounds available and equal to the extremes of the reported vertices
    ok = True
    detail = None
    if frame.subframes:
        try:
            b = frame.bounds()
            sb = frame.subbounds()
            ts = [np.asarray(s.time.values).ravel() for s in frame.subframes]
            ws = [np.asarray(s.wavelength.values).ravel() for s in frame.subframes]
            ok &= bool(b['time'].values[0] == min(t.min() for t in ts) and b['time'].values[1] == max(t.max() for t in ts))
            ok &= bool(b['wavelength'].values[0] == min(w.min() for w in ws)
                       and b['wavelength'].values[1] == max(w.max() for w in ws))
            st, sw = np.asarray(sb['time'].values), np.asarray(sb['wavelength'].values)
            ok &= st.shape == (len(ts), 2) and sw.shape == (len(ws), 2)
            if ok:
                for k in range(len(ts)):
                    ok &= bool(st[k, 0] == ts[k].min() and st[k, 1] == ts[k].max()
                               and sw[k, 0] == ws[k].min() and sw[k, 1] == ws[k].max())
        except Exception as e:  # noqa: BLE001
            ok = False
            detail = repr(e)
    ev['bounds'] = bool(ok)
    return ev, detail, verts


def grid_neutrons(pulse):
    t0, t1, w0, w1 = pulse
    return [(a, b) for a in range(2 * t0 + 1, 2 * t1, 2) for b in range(2 * w0 + 1, 2 * w1, 2)]


def transmitted(n, choppers):
    """Input generation only (which cascades are interesting) - never used as an oracle."""
    return all(any(2 * o < n[0] + d * n[1] < 2 * c for o, c in win) for d, win in choppers)


def _guard(ctx, shape, desc, fn):
    try:
        return fn()
    except Malformed as e:
        ctx.violation(f'{shape}: the reported frame has non-finite or malformed vertices', {**desc, 'problem': str(e)})
        return None
    except Exception as e:  # noqa: BLE001
        if desc.get('integer_typed_operands') and isinstance(e, (sc.DTypeError, TypeError)):
            return None        # refusing integer-typed operands is not a wrong answer (weakest reading)
        ctx.violation(f'{shape}: raised {type(e).__name__} on an admissible cascade', {**desc, 'exc': repr(e)})
        return None


# --------------------------------------------------------------------------- M1: enumerated cascades
class _Fixed:
    """Probes of one root cause: whatever they report is filed under one fixed key per call site."""

    def __init__(self, ctx, key):
        self.ctx, self.key = ctx, key

    def violation(self, key, detail=None):
        self.ctx.violation(self.key, {**(detail or {}), 'what': key})

    def case(self, *a, **k):
        self.ctx.case(*a, **k)


def record(ctx, rec, cc, frame, sc_, pulse, choppers, dist, L, pts, verts_wanted, shape, desc, fixed_key=None):
    """One observed frame -> one event (or a violation if what was returned is not a frame of finite polygons)."""
    try:
        ev, bdetail, verts = observe(frame, sc_, pulse, choppers, dist, L, pts, verts_wanted)
    except Malformed as e:
        ctx.violation(f'{shape}: the reported frame has non-finite or malformed vertices', {**desc, 'problem': str(e)})
        return None
    inf = {'shape': shape, 'desc': {**desc, 'bounds_exception': bdetail,
                                    'reported_vertices_ticks': [[t.tolist(), w.tolist()] for t, w in verts]}}
    if fixed_key:
        inf['fixed_key'] = fixed_key
    rec.add(ev, inf)
    return ev


INT_TIME_KEY = ('from_source_pulse: integer-typed time bounds in another unit than seconds are converted in integer '
                'arithmetic')
INT_DIST_KEY = ('integer-typed distance in another unit than the frame distance is converted in integer arithmetic')


def replay_enumerated(ctx, rec, cc, case, idx, rng, probe=None):
    """probe = None: an ordinary replay.  'int_ms' / 'int_us': the pulse is handed over as integer-typed
    milli- / microseconds (HARDENING 1 + 5; the tick is then exactly 1 ms).  'int_cm': the distances of
    propagate_to / __getitem__ are integer-typed centimetres that are not whole metres."""
    pulse = case['pulse']
    chs = [(c['d'], [tuple(w) for w in c['win']]) for c in case['choppers']]
    L, dfin = case['L'], case['dfinal']
    if probe in ('int_ms', 'int_us'):
        sc_ = Scale.with_tick(Fraction(1, 1000), Fraction(1, 2))
        ctx = _Fixed(ctx, INT_TIME_KEY)
    elif probe == 'int_cm':
        sc_ = Scale(Fraction(1, 2), Fraction(2))
    elif probe == 'int_chop_cm':
        sc_ = Scale(Fraction(1, 4), Fraction(2))      # choppers at even model distances = x.5 m = whole centimetres
        ctx = _Fixed(ctx, 'chop: chopper ' + INT_DIST_KEY)
    else:
        # four ordinary scales and (HARDENING 4) a uniformly tiny one (tick = 31 ns) and a large one (tick = 1 ms)
        sc_ = Scale(*[(Fraction(1), Fraction(1)), (Fraction(1, 2), Fraction(2)), (Fraction(5, 2), Fraction(1, 2)),
                      (Fraction(3), Fraction(1, 10)), (Fraction(1, 64), Fraction(1, 128)), (Fraction(4), Fraction(1))][idx % 6])
    fixed = INT_TIME_KEY if probe in ('int_ms', 'int_us') else 'chop: chopper ' + INT_DIST_KEY if probe == 'int_chop_cm' else None
    pts = grid_neutrons(pulse)
    desc = {'pulse': pulse, 'choppers': case['choppers'], 'distance_unit_m': str(sc_.d0),
            'wavelength_unit_angstrom': str(sc_.lam0), 'expected_polygons_at_dfinal_scaled_by_L': case['expect']}
    if probe:
        desc['handed_over_as'] = {'int_ms': 'pulse times as int64 milliseconds', 'int_us': 'pulse times as int64 microseconds',
                                  'int_cm': 'propagate_to / __getitem__ distances as int64 centimetres',
                                  'int_chop_cm': 'chopper distances as int64 centimetres (not whole metres)'}[probe]
    desc['integer_typed_operands'] = bool(probe) or any(
        ((idx + 5 * j) // 9) % 2 == 1 and sc_.whole(d) for j, (d, _) in enumerate(chs)) or any(
        (idx + k) % 3 != 2 and (idx + k) % 2 == 1 and sc_.whole(([0] + [d for d, _ in chs])[k] + (1 if k < len(chs) else 3))
        for k in range(len(chs) + 1))
    real = _guard(ctx, 'Chopper()', desc, lambda: [
        make_chopper(cc, sc_, d, win, idx + 5 * j, dist=sc_.distance(d, 'cm', True) if probe == 'int_chop_cm' else None)
        for j, (d, win) in enumerate(chs)])
    if real is None:
        return
    n = len(chs)

    def obs(frame, k, dist, shape, extra=None, key=None):
        record(ctx, rec, cc, frame, sc_, pulse, chs[:k], dist, L, pts, True, shape, {**desc, **(extra or {})},
               fixed_key=key or fixed)

    # shape A: whole list at once, in shuffled order
    order = list(range(n))
    rng.shuffle(order)
    fs0 = _guard(ctx, 'from_source_pulse', desc,
                 lambda: source(cc, sc_, pulse, idx, {'int_ms': 'ms', 'int_us': 'us'}.get(probe)))
    if fs0 is None:
        return
    fsA = _guard(ctx, 'chop(list)', desc, lambda: fs0.chop([real[i] for i in order]))
    if fsA is not None:
        if len(fsA) != n + 1:
            ctx.violation('chop(list): number of frames is not number of choppers + 1', desc)
        elif probe == 'int_cm':
            # odd model distances are x.5 m = whole centimetres
            cx = _Fixed(ctx, 'propagate_to: ' + INT_DIST_KEY)
            dodd = dfin + 1
            fin = _guard(cx, 'propagate_to', desc, lambda: fsA.propagate_to(sc_.distance(dodd, 'cm', True)))
            if fin is not None:
                obs(fin[-1], n, dodd, 'chop(list);propagate_to', key='propagate_to: ' + INT_DIST_KEY)
                # ... and on from there: the frame now carries whatever the caller's integer-typed distance became
                cx2 = _Fixed(ctx, 'propagate_to from a frame at an integer-typed distance: ' + INT_DIST_KEY)
                far = dodd + 3
                fin2 = _guard(cx2, 'propagate_to', desc, lambda: fin.propagate_to(sc_.distance(far)))
                if fin2 is not None:
                    obs(fin2[-1], n, far, 'chop(list);propagate_to;propagate_to',
                        key='propagate_to from a frame at an integer-typed distance: ' + INT_DIST_KEY)
            stops = [0] + [d for d, _ in chs]
            cx = _Fixed(ctx, '__getitem__(distance): ' + INT_DIST_KEY)
            for k in range(n + 1):
                dq = stops[k] + 1
                fr = _guard(cx, '__getitem__(distance)', desc, lambda dq=dq: fsA[sc_.distance(dq, 'cm', True)])
                if fr is not None:
                    obs(fr, k, dq, '__getitem__(distance)', {'asked_distance': dq},
                        key='__getitem__(distance): ' + INT_DIST_KEY)
            ctx.case(nontrivial_id=('p', probe, idx))
            return
        else:
            for k in range(n + 1):
                obs(fsA[k], k, chs[k - 1][0] if k else 0, 'chop(list)', {'listed_order': order, 'frame': k})
            # the final distance in metres, or (HARDENING 5) in centimetres / millimetres
            du = ('m', 'cm', 'm', 'mm')[idx % 4]
            fin = _guard(ctx, 'propagate_to', desc, lambda: fsA.propagate_to(sc_.distance(dfin, du)))
            if fin is not None:
                obs(fin[-1], n, dfin, 'chop(list);propagate_to', {'distance_unit': du})
            # __getitem__ by distance: between the choppers and beyond the last
            stops = [0] + [d for d, _ in chs]
            for k in range(n + 1):
                dq = stops[k] + 1 if k < n else stops[k] + 3
                qu = ('m', 'm', 'cm')[(idx + k) % 3]
                qi = qu == 'm' and (idx + k) % 2 == 1 and sc_.whole(dq)         # integer-typed whole metres
                fr = _guard(ctx, '__getitem__(distance)', desc, lambda dq=dq, qu=qu, qi=qi: fsA[sc_.distance(dq, qu, qi)])
                if fr is not None:
                    obs(fr, k, dq, '__getitem__(distance)', {'asked_distance': dq, 'distance_unit': qu})
            # HARDENING 7: propagated to a 1-d variable of distances (towards the detector bank) - every slice is a frame
            if idx % 3 == 0:
                ds = [stops[-1], stops[-1] + 1, dfin + 5]
                many = _guard(ctx, 'propagate_to(1-d distances)', desc, lambda: fsA.propagate_to(sc_.distances(ds))[-1])
                if many is not None:
                    for j, dj in enumerate(ds):
                        fj = _guard(ctx, 'propagate_to(1-d distances)', desc, lambda j=j: frame_at(cc, many, j))
                        if fj is not None:
                            obs(fj, n, dj, 'chop(list);propagate_to(1-d distances)', {'distances': ds, 'slice': j})
    # shape B: one chopper per call; shape C: a propagation in between (beyond the chopper and back, or short of it)
    if n >= 1:
        def stepwise(with_prop):
            fs = fs0
            for k in range(n):
                prev = chs[k - 1][0] if k else 0
                if with_prop and (idx + k) % 4 == 2:
                    fs = fs.propagate_to(sc_.distance(chs[k][0] + 3))           # beyond the next chopper ...
                    fs = fs.propagate_to(sc_.distance(prev + 1))                 # ... and back, just after the previous one
                elif with_prop and chs[k][0] - prev >= 2:
                    fs = fs.propagate_to(sc_.distance(chs[k][0] - 1))
                fs = fs.chop([real[k]])
            return fs.propagate_to(sc_.distance(dfin))
        fsB = _guard(ctx, 'chop;chop', desc, lambda: stepwise(False))
        if fsB is not None:
            obs(fsB[-1], n, dfin, 'chop;chop;propagate_to')
        if idx % 2 == 0:
            fsC = _guard(ctx, 'propagate_to;chop', desc, lambda: stepwise(True))
            if fsC is not None:
                obs(fsC[-1], n, dfin, 'propagate_to;chop;propagate_to')
        else:
            # shape D: Frame.chop / Frame.propagate_to directly, without a FrameSequence
            def frames_only():
                fr = fs0[0]
                for k in range(n):
                    fr = fr.chop(real[k])
                return fr.propagate_to(sc_.distance(dfin))
            frD = _guard(ctx, 'Frame.chop', desc, frames_only)
            if frD is not None:
                obs(frD, n, dfin, 'Frame.chop;Frame.propagate_to')
    else:
        fsE = _guard(ctx, 'chop([])', desc, lambda: fs0.chop([]))
        if fsE is not None:
            obs(fsE[-1], 0, 0, 'chop([])')
    # HARDENING 6 / 9: the source sequence has been chopped and propagated several times - it still is the pulse
    if not probe:
        obs(fs0[0], 0, 0, 'source frame after it was used')
        if len(fs0) != 1:
            ctx.violation('the source FrameSequence grew while it was used', desc)
    alive = sum(transmitted(p, chs) for p in pts)
    touch = any(o in _corner_times(pulse, d) or c in _corner_times(pulse, d) for d, win in chs for o, c in win)
    ctx.case(nontrivial_id=(('p', probe, idx) if probe else ('e', idx)) if 0 < alive < len(pts) or touch else None)


def _corner_times(pulse, d):
    t0, t1, w0, w1 = pulse
    return {t0 + d * w0, t1 + d * w0, t1 + d * w1, t0 + d * w1}


# --------------------------------------------------------------------------- M2: random physical cascades
def random_cascade(rng):
    t0 = rng.randrange(-200, 200)                     # "all pulse rectangles": also emission before the reference time
    t1 = t0 + rng.choice([1, 2, 7, 40, 300, 1500, 3000])
    w0 = rng.choice([0, 0, 1, 5, 40, 200])
    w1 = w0 + rng.choice([1, 2, 9, 60, 400, 700])
    pulse = (t0, t1, w0, w1)
    # a sample of neutrons to steer the windows (input generation only)
    samp = [(2 * rng.randrange(t0, t1) + 1, 2 * rng.randrange(w0, w1) + 1) for _ in range(60)]
    n = rng.choice([0, 1, 1, 2, 2, 3, 3, 4, 5])
    dists = sorted(2 * rng.randrange(1, 51) for _ in range(n))
    if n >= 2 and rng.random() < 0.15:
        dists[1] = dists[0]                       # two choppers at the same distance
    chs = []
    touching = False
    for d in dists:
        lo, hi = t0 + d * w0, t1 + d * w1
        arr = sorted((a + d * b) // 2 for a, b in samp) or [lo, hi]
        span = max(hi - lo, 4)
        nwin = rng.randrange(1, 5)
        edges = set()
        kind = rng.random()
        if kind < 0.2:                            # containing everything that is left
            cand = [(min(arr[0], lo) - rng.randrange(0, 5), max(arr[-1], hi) + 1 + rng.randrange(0, 5))]
        elif kind < 0.3:                          # missing
            cand = [(hi + 1 + rng.randrange(0, 9), hi + 10 + rng.randrange(1, 50))]
            if rng.random() < 0.5:
                cand = [(lo - 60, lo - 1 - rng.randrange(0, 9))]
        else:                                     # cutting, with exactly touching edges mixed in
            special = [lo, hi, t0 + d * w1, t1 + d * w0] + [e for pd, pw in chs for w in pw for e in w]
            while len(edges) < 2 * nwin:
                r = rng.random()
                if r < 0.25:
                    edges.add(rng.choice(special))
                    touching = True
                elif r < 0.8:
                    edges.add(rng.choice(arr) + rng.randrange(-2, 3))
                else:
                    edges.add(lo + rng.randrange(-span // 4 - 2, span + span // 4 + 3))
            es = sorted(edges)
            cand = [(es[2 * i], es[2 * i + 1]) for i in range(nwin)]
        chs.append((d, cand))
        samp = [p for p in samp if transmitted(p, [(d, cand)])]
    dfin = (dists[-1] if dists else 0) + rng.choice([0, 1, 2, 7, 30, 111])
    return pulse, chs, dfin, touching


def run_program(ctx, rng, cc, sc_, pulse, chs, dfin, desc):
    """Random program of chop / propagate_to calls over the sorted cascade.  Returns the FrameSequence, for each
    of its frames (distance, number of choppers applied), the calls, and whether the frame distances never
    decrease (only then __getitem__(distance) has a meaning)."""
    fs = source(cc, sc_, pulse, rng.randrange(6))
    meta = [(0, 0)]
    k = 0
    n = len(chs)
    calls = []
    monotone = True
    while k < n:
        take = rng.randrange(1, n - k + 1)
        # equal distances must stay in one call or in listed order: both are fine, the sort is stable
        group = list(range(k, k + take))
        rng.shuffle(group)
        r = rng.random()
        if r < 0.35 and chs[k][0] > meta[-1][0]:
            dmid = rng.randrange(meta[-1][0], chs[k][0] + 1)
            if dmid > meta[-1][0] or rng.random() < 0.3:
                fs = fs.propagate_to(sc_.distance(dmid))
                meta.append((dmid, meta[-1][1]))
                calls.append(['propagate_to', dmid])
        elif r < 0.5 and chs[k][0] > meta[-1][0]:
            # beyond the next chopper(s) and back: "any sequence of calls".  Back to a distance strictly beyond the
            # frame the excursion started from: exactly there the vertices on a clip line (or on the pulse edges at
            # the source) are tied in time, and a float round trip d -> far -> d cannot restore exact ties, which
            # Subframe.is_regular compares exactly - not something floats can promise, so it is not asked for.
            last = meta[-1][0]
            far = chs[k][0] + rng.randrange(1, 40)
            back = rng.randrange(last + 1, chs[k][0] + 1)
            for dd in (far, back):
                fs = fs.propagate_to(sc_.distance(dd))
                meta.append((dd, meta[-1][1]))
                calls.append(['propagate_to', dd])
            monotone = False
        fs = fs.chop([make_chopper(cc, sc_, *chs[i], mode=rng.randrange(18)) for i in group])
        calls.append(['chop', group])
        for j in range(k, k + take):
            meta.append((chs[j][0], j + 1))
        k += take
    return fs, meta, calls, monotone


SCALES_D = [Fraction(1, 4), Fraction(1, 2), Fraction(1)]
SCALES_W = [Fraction(1, 64), Fraction(1, 32), Fraction(1, 100)]


def replay_random(ctx, rec, cc, t, rng):
    pulse, chs, dfin, touching = random_cascade(rng)
    if t % 4 == 3:
        # HARDENING 4: the same kind of cascade on a uniformly tiny (tick = 30 ns) / large (tick = 1 ms) scale
        sc_ = Scale(*rng.choice([(Fraction(1, 64), Fraction(1, 128)), (Fraction(4), Fraction(1))]))
    else:
        sc_ = Scale(rng.choice(SCALES_D), rng.choice(SCALES_W))
    desc = {'pulse': pulse, 'choppers': [{'d': d, 'win': w} for d, w in chs], 'dfinal': dfin,
            'distance_unit_m': str(sc_.d0), 'wavelength_unit_angstrom': str(sc_.lam0)}
    desc['integer_typed_operands'] = any(sc_.whole(d) for d, _ in chs)      # make_chopper may then use int64 metres
    out = _guard(ctx, 'random program of chop/propagate_to', desc, lambda: run_program(ctx, rng, cc, sc_, pulse, chs, dfin, desc))
    if out is None:
        return
    fs, meta, calls, monotone = out
    desc['calls'] = calls
    if len(fs) != len(meta):
        ctx.violation('random program: unexpected number of frames', desc)
        return
    t0, t1, w0, w1 = pulse
    base = [(2 * rng.randrange(t0, t1) + 1, 2 * rng.randrange(w0, w1) + 1) for _ in range(120)]

    def pts_for(frame, dist):
        pts = set(base)
        for tt, ww in _vertices(frame, sc_):          # the grid neutrons next to every reported vertex
            for a, b in zip(tt, ww):
                wb = int(np.floor(b))
                for w2 in (2 * wb - 1, 2 * wb + 1, 2 * wb + 3):
                    te = a - dist * (w2 / 2.0)
                    tb = int(np.floor(te))
                    for te2 in (2 * tb - 1, 2 * tb + 1, 2 * tb + 3):
                        if 2 * t0 < te2 < 2 * t1 and 2 * w0 < w2 < 2 * w1:
                            pts.add((te2, w2))
        lst = sorted(pts)
        return lst[::len(lst) // 400 + 1]

    observed = []
    du = rng.choice(['m', 'm', 'cm', 'mm'])
    last = _guard(ctx, 'propagate_to', desc, lambda: fs.propagate_to(sc_.distance(dfin, du))[-1])
    if last is not None:
        observed.append((last, len(chs), dfin, 'program;propagate_to'))
    # a stored frame (not one between two choppers at the same distance: which of the two the code applies first
    # is not determined by the property)
    unamb = [j for j, (_, k) in enumerate(meta) if not (0 < k < len(chs) and chs[k - 1][0] == chs[k][0])]
    j = rng.choice(unamb)
    observed.append((fs[j], meta[j][1], meta[j][0], 'program;frames[k]'))
    # __getitem__ by distance (the frame in force at that distance)
    if monotone:
        dq = 2 * rng.randrange(0, dfin // 2 + 2) + 1      # odd: never exactly at a chopper (even distances)
        kq = max(i for i, (d, _) in enumerate(meta) if d <= dq)
        fr = _guard(ctx, '__getitem__(distance)', desc, lambda: fs[sc_.distance(dq, rng.choice(['m', 'cm']))])
        if fr is not None:
            observed.append((fr, meta[kq][1], dq, 'program;__getitem__(distance)'))
    # the last frame propagated to a 1-d variable of distances: one slice
    if t % 5 == 1:
        ds = sorted({meta[-1][0], dfin + 1, dfin + rng.randrange(2, 60)})
        many = _guard(ctx, 'propagate_to(1-d distances)', desc, lambda: fs.propagate_to(sc_.distances(ds))[-1])
        if many is not None:
            jj = rng.randrange(len(ds))
            fj = _guard(ctx, 'propagate_to(1-d distances)', desc, lambda: frame_at(cc, many, jj))
            if fj is not None:
                observed.append((fj, len(chs), ds[jj], 'program;propagate_to(1-d distances)'))
    nt = False
    for frame, k, dist, shape in observed:
        try:
            pts = pts_for(frame, dist)
        except Malformed as e:
            ctx.violation(f'{shape}: the reported frame has non-finite or malformed vertices', {**desc, 'problem': str(e)})
            continue
        ev = record(ctx, rec, cc, frame, sc_, pulse, chs[:k], dist, 1, pts, False, shape, {**desc, 'observed_distance': dist})
        if ev is not None:
            ins = sum(1 for p in ev['pts'] if p[2])
            nt |= 0 < ins < len(pts)
    ctx.case(nontrivial_id=('r', t) if nt or touching else None)


def _count_simulated(ctx, res):
    """States checked by a -simulate run (tlc.py only parses the summary line of exhaustive runs)."""
    import re

    m = re.findall(r'The number of states generated: (\d+)', res.out)
    if m:
        ctx.extra['simulated_states'] = ctx.extra.get('simulated_states', 0) + int(m[-1])
        ctx.states += int(m[-1])
        ctx.transitions += int(m[-1])


def worker(tasks):
    """Replay a chunk of tasks in this process; at the end a sample of them once more, in the reverse order
    (HARDENING 6: the same seeds, so a history-free implementation gives the same frames again)."""
    import random

    from scippneutron.tof import chopper_cascade as cc

    col = Collector()

    def one(kind, case, i, seed):
        if kind == 'enum':
            replay_enumerated(col, col, cc, case, i, random.Random(seed))
        elif kind == 'probe':
            replay_enumerated(col, col, cc, case[1], i, random.Random(seed), probe=case[0])
        else:
            replay_random(col, col, cc, i, random.Random(seed))

    if tasks:
        # the first use of the library in this process is not one that is judged first (nothing of it is kept)
        keep, col = col, Collector()
        one(*tasks[-1])
        col = keep
    for task in tasks:
        one(*task)
    n1, c1 = len(col.events), len(col.cases)
    for task in reversed(tasks[2::7]):
        one(*task)
    del col.cases[c1:]
    for inf in col.info[n1:]:
        inf['again'] = True
    return col.export()


def run(ctx):
    check_constants()
    ctx.rule = RULE
    ctx.assume('chopper window times are passed in seconds and chopper distances in metres (unit handling of '
               'Chopper is not part of the property)')
    ctx.assume('grid neutrons (half-integer emission time and wavelength, even distances) are at least 0.005 ticks '
               'away from every polygon edge, so float rounding of the reported vertices cannot change membership')
    ctx.assume('windows of one chopper are disjoint; frames without subframes are not asked for bounds')
    th = ctx.thorough
    # ------------------------------------------------------------------ 1. design (runs while 2. and 3. replay)
    def design():
        res = ctx.tlc('chopper/MC_ChopperCascade.tla', 'MC_ChopperCascade.cfg', workers=W, timeout=1800,
                      coverage=True)
        require_ok(ctx, res, 'ChopperCascade model')
        require_actions(res, ['ChopAny', 'PropagateTo'])
        # __getitem__(distance) on the frame sequence of every cascade of the smaller chopper set
        res = ctx.tlc('chopper/MC_ChopperCascade.tla', 'MC_ChopperCascade_getat.cfg', workers=4, timeout=900)
        require_ok(ctx, res, 'ChopperCascade model (__getitem__)')
        if th:
            res = ctx.tlc('chopper/MC_ChopperCascade.tla', 'MC_ChopperCascade_thorough.cfg', workers=W, timeout=2400)
            require_ok(ctx, res, 'ChopperCascade model (thorough bounds)')
        if th:
            sim = ctx.tlc('chopper/MC_ChopperCascade.tla', 'MC_ChopperCascade_sim.cfg', workers=W, timeout=900,
                          simulate='num=2000', depth=9, extra=['-seed', str(ctx.seed + 11)])
            require_ok(ctx, sim, 'ChopperCascade deep random walks')
            _count_simulated(ctx, sim)

    def controls():
        for bug in ('orientation', 'absdist', 'firstonly', 'nosort', 'tiebreak', 'interpsign', 'propabs', 'breaksorted',
                    'absdelta', 'getlast'):
            ctx.tlc('chopper/MC_ChopperCascade.tla', f'Neg_ChopperCascade_{bug}.cfg', workers=2, expect_error=True,
                    timeout=600)

    with Background(design), Background(controls):
        # ------------------------------------------------------------------ 2. spec -> code
        out = str(ctx.tmp / 'c11-cases.ndjson')
        em = ctx.tlc('chopper/MC_Emit_ChopperCascade.tla',
                     'MC_Emit_ChopperCascade_thorough.cfg' if th else 'MC_Emit_ChopperCascade.cfg',
                     workers=2, env={'OUT_CASES': out}, timeout=900, count=False)
        require_ok(ctx, em, 'Emit_ChopperCascade')
        cases = [json.loads(line) for line in open(out) if line.strip()]
        emitted = em.tagged('EMITTED')
        if not emitted or emitted[0][1] != len(cases):
            raise MachineryError(f'emitted cases incomplete: {emitted} vs {len(cases)}')
        ctx.extra['emitted_cascades'] = len(cases)
        rng = ctx.rng
        tasks = [('enum', case, i, rng.getrandbits(48)) for i, case in enumerate(cases)]
        # integer-typed operands in another unit than the code works in (HARDENING 1 + 5), on a few enumerated cascades
        some = [c for c in cases if c['choppers']][:: max(1, len(cases) // 8)][:8]
        for i, case in enumerate(some):
            tasks.append(('probe', (('int_ms', 'int_cm', 'int_us', 'int_chop_cm')[i % 4], case), i, rng.getrandbits(48)))
        n_enum = len(tasks)
        # -------------------------------------------------------------- 3. code -> spec, random physical cascades
        tasks += [('random', None, t, rng.getrandbits(48)) for t in range(2500 if th else 400)]
        t_rep = time.time()
        results = run_chunks(worker, chunked(tasks[:n_enum], 60) + chunked(tasks[n_enum:], 50), PROCS)
        events, info, _ = merge_results(ctx, results)
        ctx.extra['replay_wall_s'] = round(time.time() - t_rep, 1)
        n_m1 = sum(len(r['events']) for r in results[:len(chunked(tasks[:n_enum], 60))])
    ctx.extra['events_enumerated'] = n_m1
    ctx.extra['events_random'] = len(events) - n_m1
    for e in events[5:6] + events[n_m1 // 2:n_m1 // 2 + 1] + events[-1:]:
        ctx.sample(e)
    # ------------------------------------------------------------------ 4. TLC judges every observed frame
    tf = ctx.tmp / 'c11.ndjson'
    write_ndjson(tf, events)
    tr = ctx.tlc('chopper/Trace_ChopperCascade.tla', workers=1, env={'TRACE_FILE': str(tf)}, timeout=2400)
    require_ok(ctx, tr, 'Trace_ChopperCascade')
    done = tr.tagged('DONE')
    if not done or done[0][1] != len(events):
        raise MachineryError(f'trace validation incomplete: {done} vs {len(events)} events')
    ctx.traces(len(events))
    for _, line, _tid, clause in tr.tagged('REJECT'):
        ev, inf = events[line - 1], info[line - 1]
        if clause.startswith('driver_error') or clause == 'unknown_event':
            raise MachineryError(f'bad event {ev}: {clause}')
        if inf.get('fixed_key'):
            key = inf['fixed_key']                   # probes of one root cause: one key per call site
        elif clause in ('subframe_not_regular', 'bounds_unavailable_or_wrong', 'polygon_leaves_wavelength_band'):
            key = f'{clause} (frame produced by FrameSequence.chop)'
        else:
            key = f'{inf["shape"]}: {clause}'
        if inf.get('again') and not inf.get('fixed_key'):
            key += ' [replayed later in the same process, in another order]'
        ctx.violation(key, {'event': ev, 'shape': inf['shape'], 'clause': clause, **inf['desc']})
    # ------------------------------------------------------------------ 5. the judge is sensitive
    rejected = {line for _, line, _t, _c in tr.tagged('REJECT')}
    good = [e for i, e in enumerate(events) if (i + 1) not in rejected and e['pts']
            and any(len({tuple(v) for v in p}) >= 3 for p in e['polys'])]
    if good:
        import copy
        a, b = copy.deepcopy(good[0]), copy.deepcopy(good[len(good) // 2])
        a['pts'][len(a['pts']) // 2][2] = not a['pts'][len(a['pts']) // 2][2]
        k = next(i for i, p in enumerate(b['polys']) if len({tuple(v) for v in p}) >= 3)
        b['polys'][k][0][0] += 5 * b['L']
        tf2 = ctx.tmp / 'c11-corrupted.ndjson'
        write_ndjson(tf2, [good[0], a, b])
        tr2 = ctx.tlc('chopper/Trace_ChopperCascade.tla', workers=1, env={'TRACE_FILE': str(tf2)}, timeout=600,
                      count=False)
        bad = sorted(r[1] for r in tr2.tagged('REJECT'))
        if bad != [2, 3]:
            raise MachineryError(f'trace specification is not sensitive: corrupted events 2, 3 -> rejected {bad}')
        ctx.extra['corrupted_events_rejected'] = [r[3] for r in tr2.tagged('REJECT')]

    # ---------------------------------------------------------------- growth: NeXus chopper field validation
    # (extract_chopper_from_nexus / DiskChopper.from_nexus), derived quantities of cascade frames (bounds,
    # subbounds, start/end times, propagate_by, acceptance diagram) on the cascade model of this check, SVG slit
    # geometry (spec/chopper/Growth_*.tla; deviations are GROWTH-FINDINGs, not violations of C11)
    from .. import lib_growth_chopper
    ctx.run_growth(lib_growth_chopper.run, 'lib_growth_chopper')


META = {
    'design_ref': 'DESIGN.md §5 C11',
    'technique': 'TLA+ state machine (ChopperCascade) holding a neutron-by-neutron transmission model and the '
                 'polygon-clipping procedure side by side, model-checked by TLC; TLC-enumerated cascades replayed '
                 'into FrameSequence / Frame and every observed frame judged by a TLC trace specification',
    'text': 'TLC proves, for all cascades of up to 3 choppers with 1..2 windows on an edge grid that cuts, contains, '
            'misses and exactly touches the frames (plus random deep walks up to 5 choppers), that a grid neutron is '
            'transmitted iff it is strictly inside a polygon of the shear-and-clip procedure, that the polygons stay in '
            'the wavelength band and are regular, and that listing order and one-step/two-step evaluation do not '
            'matter, also for windows listed in decreasing order, propagation back towards the source and __getitem__ by '
            'distance; ten wrong variants are rejected.  The real FrameSequence API is driven with the enumerated '
            'cascades (several call shapes, physical units) and with seeded random physical cascades of 0..5 choppers '
            'and random programs; for each observed frame TLC decides the membership of grid neutrons (neutron layer), '
            'the vertices as convex regions on the model lattice (polygon layer), band, regularity and bounds.',
    'note': 'Trusted: TLC, the exact-integer point-in-polygon test of the harness on the reported floats, the mapping '
            'of vertices onto the model lattice within 1e-9 relative.  Chopper times in seconds, distances in metres; '
            'windows of one chopper disjoint; empty frames are not asked for bounds.',
}
