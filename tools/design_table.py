#!/usr/bin/env python3
"""Print the per-property numbers of DESIGN.md §10 from the evidence files (quick tier, current tree)."""
import json
for i in range(1, 21):
    pid = f'C{i:02d}'
    e = json.load(open(f'/verif/evidence/{pid}.json'))
    c = e['coverage']
    neg = sum(1 for r in c['tlc_runs'] if r.get('negative_control'))
    print(f"| {pid} | {c['states']:,} | {neg} | {c['traces_validated_against_impl']:,} | {c['evaluations']:,} / {c['distinct_nontrivial']:,} | {e['wall_s']:.0f} s |".replace(',', ' '))
