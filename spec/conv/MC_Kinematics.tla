--------------------------- MODULE MC_Kinematics ---------------------------
EXTENDS Kinematics
(* sin(theta) grid: theta in (0, pi/2], i.e. two_theta in (0, pi] *)
MC_SinQuick == {<<1, 2>>, <<3, 5>>, <<1, 1>>}
MC_SinFull  == {<<1, 2>>, <<3, 5>>, <<4, 5>>, <<5, 13>>, <<12, 13>>, <<1, 1>>}
ASSUME PrintT(<<"DIM", PhysDim, SinExp>>)
=============================================================================
