---------------------------- MODULE CylinderDefs ----------------------------
(* State-free exact geometry of a closed solid cylinder (scippneutron.absorption.Cylinder).   *)
(*                                                                                            *)
(* Everything is integer arithmetic:                                                          *)
(*   rational            <<p, q>>        = p/q,  q > 0                                       *)
(*   vector / point      <<x, y, z, d>>  = (x, y, z)/d,  d > 0                               *)
(*   rotation            integer quaternion q = <<a,b,c,d>> # 0 :  R(q) = QM(q)/QN(q)        *)
(*                       (Euler-Rodrigues; every rational rotation arises this way)          *)
(*   cylinder            [m, k, b, r, h] : frame R = m/k (columns e1, e2, axis), b = centre  *)
(*                       of the bottom cap (vector), r radius, h height (positive integers   *)
(*                       in lattice units; physical units are a scale factor chosen by the   *)
(*                       harness).  The axis (third column of m over k) is a rational unit  *)
(*                       vector, i.e. a Pythagorean quadruple with any sign pattern.         *)
(*   ray                 [s, n] : start point (vector) and rational unit direction           *)
(*                                                                                            *)
(* The solid is closed:                                                                      *)
(*   Inside(c, p) <=> 0 <= (p-b).a <= h  /\  |p-b|^2 - ((p-b).a)^2 <= r^2                    *)
(* PathLength(c, ray) is the length of {t >= 0 : Inside(c, s + t n)}.  Its closed form (line  *)
(* against infinite cylinder and slab, clipped to t >= 0) is derived below; module Cylinder   *)
(* lets TLC confirm it against pointwise membership along the ray.                            *)
EXTENDS Integers, Sequences, FiniteSets

Abs(x) == IF x < 0 THEN -x ELSE x
Sq(x) == x * x
Sgn(x) == IF x < 0 THEN -1 ELSE IF x = 0 THEN 0 ELSE 1

RECURSIVE GcdN(_, _)
GcdN(x, y) == IF y = 0 THEN x ELSE GcdN(y, x % y)        \* x, y >= 0
Gcd(x, y) == GcdN(Abs(x), Abs(y))

(* floor of the square root by bisection; n >= 0 *)
RECURSIVE IsqrtB(_, _, _)
IsqrtB(n, lo, hi) ==                                      \* invariant lo^2 <= n < hi^2
    IF hi - lo <= 1 THEN lo
    ELSE LET mid == (lo + hi) \div 2
         IN IF mid * mid <= n THEN IsqrtB(n, mid, hi) ELSE IsqrtB(n, lo, mid)
Isqrt(n) == IF n < 4 THEN (IF n = 0 THEN 0 ELSE 1) ELSE IsqrtB(n, 1, 46341)   \* 46341^2 > 2^31
IsSquare(n) == n >= 0 /\ Sq(Isqrt(n)) = n

-----------------------------------------------------------------------------
(* rationals *)
RNorm(x) == LET g == Gcd(x[1], x[2]) IN IF g = 0 THEN x ELSE <<x[1] \div g, x[2] \div g>>
RLe(x, y) == x[1] * y[2] <= y[1] * x[2]
RLt(x, y) == x[1] * y[2] <  y[1] * x[2]
REq(x, y) == x[1] * y[2] =  y[1] * x[2]
RSub(x, y) == RNorm(<<x[1] * y[2] - y[1] * x[2], x[2] * y[2]>>)
RMax(x, y) == IF RLe(x, y) THEN y ELSE x
RMin(x, y) == IF RLe(x, y) THEN x ELSE y
RZero == <<0, 1>>
(* a rational with positive denominator from a possibly negative one *)
RMk(p, q) == IF q < 0 THEN RNorm(<<-p, -q>>) ELSE RNorm(<<p, q>>)

-----------------------------------------------------------------------------
(* vectors *)
Dot3(u, v) == u[1] * v[1] + u[2] * v[2] + u[3] * v[3]          \* numerators only
Cross3(u, v) == <<u[2] * v[3] - u[3] * v[2], u[3] * v[1] - u[1] * v[3], u[1] * v[2] - u[2] * v[1]>>
VNorm(v) == LET g == Gcd(Gcd(v[1], v[2]), Gcd(v[3], v[4]))
            IN <<v[1] \div g, v[2] \div g, v[3] \div g, v[4] \div g>>
VAdd(u, v) == VNorm(<<u[1] * v[4] + v[1] * u[4], u[2] * v[4] + v[2] * u[4], u[3] * v[4] + v[3] * u[4], u[4] * v[4]>>)
(* numerators of u - v over the denominator u[4]*v[4], not reduced *)
DiffNum(u, v) == <<u[1] * v[4] - v[1] * u[4], u[2] * v[4] - v[2] * u[4], u[3] * v[4] - v[3] * u[4]>>
IsUnit(n) == n[4] > 0 /\ Sq(n[1]) + Sq(n[2]) + Sq(n[3]) = Sq(n[4])

-----------------------------------------------------------------------------
(* rotations from integer quaternions *)
QN(q) == Sq(q[1]) + Sq(q[2]) + Sq(q[3]) + Sq(q[4])
QM(q) == LET a == q[1] b == q[2] c == q[3] d == q[4] IN
    << <<a*a + b*b - c*c - d*d, 2*(b*c - a*d),         2*(b*d + a*c)>>,
       <<2*(b*c + a*d),         a*a - b*b + c*c - d*d, 2*(c*d - a*b)>>,
       <<2*(b*d - a*c),         2*(c*d + a*b),         a*a - b*b - c*c + d*d>> >>
MCol(m, j) == <<m[1][j], m[2][j], m[3][j]>>
MMul(x, y) == << <<Dot3(x[1], MCol(y, 1)), Dot3(x[1], MCol(y, 2)), Dot3(x[1], MCol(y, 3))>>,
                 <<Dot3(x[2], MCol(y, 1)), Dot3(x[2], MCol(y, 2)), Dot3(x[2], MCol(y, 3))>>,
                 <<Dot3(x[3], MCol(y, 1)), Dot3(x[3], MCol(y, 2)), Dot3(x[3], MCol(y, 3))>> >>
MGcd(m) == Gcd(Gcd(Gcd(m[1][1], m[1][2]), Gcd(m[1][3], m[2][1])),
               Gcd(Gcd(m[2][2], m[2][3]), Gcd(Gcd(m[3][1], m[3][2]), m[3][3])))
MDiv(m, g) == << <<m[1][1] \div g, m[1][2] \div g, m[1][3] \div g>>,
                 <<m[2][1] \div g, m[2][2] \div g, m[2][3] \div g>>,
                 <<m[3][1] \div g, m[3][2] \div g, m[3][3] \div g>> >>
(* apply the rotation m/k to the vector v *)
MApply(m, k, v) == VNorm(<<Dot3(m[1], v), Dot3(m[2], v), Dot3(m[3], v), k * v[4]>>)
Det3(m) == Dot3(m[1], Cross3(m[2], m[3]))
(* m/k is a proper rotation *)
IsRotation(m, k) ==
    /\ k > 0
    /\ \A i, j \in 1..3 : Dot3(m[i], m[j]) = (IF i = j THEN k * k ELSE 0)
    /\ Det3(m) = k * k * k
FlipM == << <<1, 0, 0>>, <<0, -1, 0>>, <<0, 0, -1>> >>          \* rotation by pi about e1

-----------------------------------------------------------------------------
(* the solid *)
MkCyl(q, b, r, h) ==
    LET g == Gcd(MGcd(QM(q)), QN(q)) IN [m |-> MDiv(QM(q), g), k |-> QN(q) \div g, b |-> VNorm(b), r |-> r, h |-> h]
Axis(c) == MCol(c.m, 3)                      \* over c.k

(* Inside with the solid enlarged by the slack sl/p[4] (sl >= 0 an integer, in units of the     *)
(* point's own denominator) in radius and at both caps; sl = 0 is the solid itself.            *)
InsideSl(c, p, sl) ==
    LET v  == DiffNum(p, c.b)                \* over D = p[4]*c.b[4]
        bd == c.b[4]
        T  == Dot3(v, Axis(c))               \* (p-b).a over D*k
    IN /\ -sl * bd * c.k <= T
       /\ T <= (c.h * p[4] + sl) * bd * c.k
       /\ Dot3(v, v) * Sq(c.k) - Sq(T) <= Sq(c.r * p[4] + sl) * Sq(bd) * Sq(c.k)
Inside(c, p) == InsideSl(c, p, 0)

(* rigid motion  p -> R(q) p + tau  of a point and of a cylinder *)
MovePt(q, tau, p) == VAdd(MApply(QM(q), QN(q), p), tau)
MoveCyl(q, tau, c) ==
    LET mm == MMul(QM(q), c.m)
        kk == QN(q) * c.k
        g  == Gcd(MGcd(mm), kk)
    IN [m |-> MDiv(mm, g), k |-> kk \div g, b |-> MovePt(q, tau, c.b), r |-> c.r, h |-> c.h]
(* the same solid described from its other end: base + h*axis, axis reversed (frame stays a   *)
(* proper rotation: e2 is reversed as well)                                                   *)
OtherEndCyl(c) ==
    [m |-> MMul(c.m, FlipM), k |-> c.k,
     b |-> VAdd(c.b, VNorm(<<c.h * c.m[1][3], c.h * c.m[2][3], c.h * c.m[3][3], c.k>>)),
     r |-> c.r, h |-> c.h]

-----------------------------------------------------------------------------
(* the same configuration expressed in a length unit f times finer (f a positive integer): every   *)
(* length is multiplied by f, directions and the frame are unchanged.  "In any length unit" of the  *)
(* property means: membership is unchanged and every path length is multiplied by f               *)
(* (Cases_Cylinder lets TLC confirm both on all cases of the model); the harness uses it to hand   *)
(* the moved copy of a transmission set-up to the code in another unit than the original.          *)
ScaleVec(f, v) == VNorm(<<f * v[1], f * v[2], f * v[3], v[4]>>)
ScaleCyl(f, c) == [m |-> c.m, k |-> c.k, b |-> ScaleVec(f, c.b), r |-> f * c.r, h |-> f * c.h]
ScaleRay(f, ray) == [s |-> ScaleVec(f, ray.s), n |-> ray.n]
RScale(f, x) == RNorm(<<f * x[1], x[2]>>)

(* ways in which a batch of rays can be handed to beam_intersection (the result must not depend on  *)
(* it): every ray on its own as 0-d operands, 1-d lists (also in reversed order), a 0-d start with  *)
(* a list of directions, a list of starts with a 0-d direction, starts x directions broadcast to a  *)
(* 2-d grid, and the same grid with both operands transposed (non-contiguous) 2-d arrays            *)
RayLayouts == {"1d", "1d_reversed", "0d", "start0d", "dir0d", "2d", "2d_transposed"}
(* number types of radius and height: the same numbers as float64, float32 or int64                 *)
SizeTypes == {"float64", "float32", "int64"}

-----------------------------------------------------------------------------
(* rays.  With w = s - b (over D), a = axis (over k), n (over nd):                              *)
(*   slab      0 <= w.a + t n.a <= h                                                          *)
(*   cylinder  A t^2 + 2 B t + C <= 0,  A = 1-(n.a)^2 = |n x a|^2,  B = w.n - (w.a)(n.a),      *)
(*             C = |w|^2 - (w.a)^2 - r^2,  and by Lagrange's identity                         *)
(*             B^2 - A C = A r^2 - ((w x n).a)^2                                              *)
(* All quantities below are the integer numerators over the stated denominators.             *)
RayParts(c, ray) ==
    LET k  == c.k
        nd == ray.n[4]
        D  == ray.s[4] * c.b[4]
        w  == DiffNum(ray.s, c.b)
        a  == Axis(c)
        n  == <<ray.n[1], ray.n[2], ray.n[3]>>
        NA == Dot3(n, a)                      \* n.a      over nd*k
        WA == Dot3(w, a)                      \* w.a      over D*k
        WN == Dot3(w, n)                      \* w.n      over D*nd
        X  == Dot3(Cross3(w, n), a)           \* (w x n).a over D*nd*k
    IN [k |-> k, nd |-> nd, D |-> D, NA |-> NA, WA |-> WA,
        An |-> Sq(nd) * Sq(k) - Sq(NA),       \* A over nd^2 k^2
        Bn |-> WN * Sq(k) - WA * NA,          \* B over D nd k^2
        Cs |-> Sgn(Dot3(w, w) * Sq(k) - Sq(WA) - Sq(c.r) * Sq(D) * Sq(k)),   \* sign of C
        dn |-> (Sq(nd) * Sq(k) - Sq(NA)) * Sq(c.r) * Sq(D) - Sq(X)]           \* disc over D^2 nd^2 k^2

(* intervals of the ray parameter: [kind |-> "none"], [kind |-> "all"], [kind |-> "iv", lo, hi] *)
None == [kind |-> "none"]
All  == [kind |-> "all"]
Iv(lo, hi) == [kind |-> "iv", lo |-> lo, hi |-> hi]
Inter(I, J) == IF I.kind = "none" \/ J.kind = "none" THEN None
               ELSE IF I.kind = "all" THEN J
               ELSE IF J.kind = "all" THEN I
               ELSE Iv(RMax(I.lo, J.lo), RMin(I.hi, J.hi))

SlabIv(c, P) ==
    IF P.NA = 0 THEN (IF 0 <= P.WA /\ P.WA <= c.h * P.D * P.k THEN All ELSE None)
    ELSE LET t0 == RMk(-P.WA * P.nd, P.NA * P.D)
             t1 == RMk((c.h * P.D * P.k - P.WA) * P.nd, P.NA * P.D)
         IN Iv(RMin(t0, t1), RMax(t0, t1))

(* roots  t = nd (-Bn -/+ k sqrt(dn)) / (D An);  `sq` stands for sqrt(dn): the exact root when  *)
(* dn is a perfect square, otherwise its floor (inner interval) or ceiling (outer interval).   *)
CylIv(c, P, sq) ==
    IF P.An = 0 THEN (IF P.Cs <= 0 THEN All ELSE None)
    ELSE IF P.dn < 0 THEN None
    ELSE Iv(RMk(P.nd * (-P.Bn - P.k * sq), P.D * P.An), RMk(P.nd * (-P.Bn + P.k * sq), P.D * P.An))

(* part of the ray (t >= 0) inside the solid, for a given stand-in of the square root;        *)
(* the ...P variants take the RayParts record so that it is computed once per case             *)
HitIvP(c, P, sq) ==
    LET I == Inter(SlabIv(c, P), CylIv(c, P, sq))
    IN IF I.kind = "none" THEN None
       ELSE LET lo == RMax(I.lo, RZero) IN IF RLt(lo, I.hi) THEN Iv(lo, I.hi) ELSE None
HitIv(c, ray, sq) == HitIvP(c, RayParts(c, ray), sq)
(* closed version: a single touching point (lo = hi) is kept *)
ClosedHitP(c, P, sq) ==
    LET I == Inter(SlabIv(c, P), CylIv(c, P, sq))
    IN IF I.kind = "none" THEN None
       ELSE LET lo == RMax(I.lo, RZero) IN IF RLe(lo, I.hi) THEN Iv(lo, I.hi) ELSE None
LenOf(I) == IF I.kind = "none" THEN RZero ELSE RSub(I.hi, I.lo)

SqLoP(P) == IF P.dn < 0 THEN 0 ELSE Isqrt(P.dn)
SqHiP(P) == IF P.dn < 0 THEN 0 ELSE LET r == Isqrt(P.dn) IN IF Sq(r) = P.dn THEN r ELSE r + 1
SqLo(c, ray) == SqLoP(RayParts(c, ray))
SqHi(c, ray) == SqHiP(RayParts(c, ray))
(* the length is rational exactly when the discriminant is a perfect square (or plays no role) *)
ExactP(P) == P.An = 0 \/ P.dn < 0 \/ IsSquare(P.dn)
ExactCase(c, ray) == ExactP(RayParts(c, ray))
InnerIv(c, ray) == LET P == RayParts(c, ray) IN HitIvP(c, P, SqLoP(P))
OuterIv(c, ray) == LET P == RayParts(c, ray) IN HitIvP(c, P, SqHiP(P))
PathLength(c, ray) == LenOf(InnerIv(c, ray))                       \* meaningful when ExactCase

(* measure-zero configurations in which the length is a discontinuous function of the inputs   *)
(* (ray inside a cap plane; ray along the lateral surface): excluded from every comparison     *)
GrazingP(c, P) ==
    \/ (P.NA = 0 /\ (P.WA = 0 \/ P.WA = c.h * P.D * P.k))
    \/ (P.An = 0 /\ P.Cs = 0)
Grazing(c, ray) == GrazingP(c, RayParts(c, ray))

(* classes of rays.  "undecided": the integer bounds of the square root do not settle whether  *)
(* the ray meets the solid (only possible for irrational roots).                               *)
ClassP(c, ray, P, inner, outer) ==
    IF P.An = 0 THEN (IF inner.kind = "iv" THEN "parallel_hit" ELSE "parallel_miss")
    ELSE IF P.dn = 0 THEN "tangent"
    ELSE IF P.dn < 0 THEN "miss_line"
    ELSE IF inner.kind = "iv" THEN (IF Inside(c, ray.s) THEN "from_inside" ELSE "from_outside")
    ELSE IF outer.kind = "none" THEN "miss_solid"
    ELSE "undecided"
RayClass(c, ray) ==
    LET P == RayParts(c, ray)
    IN ClassP(c, ray, P, HitIvP(c, P, SqLoP(P)), HitIvP(c, P, SqHiP(P)))
(* everything about one ray, computed once *)
RaySummary(c, ray) ==
    LET P == RayParts(c, ray)
        inner == HitIvP(c, P, SqLoP(P))
        outer == HitIvP(c, P, SqHiP(P))
    IN [cls |-> ClassP(c, ray, P, inner, outer), exact |-> ExactP(P), len |-> LenOf(inner),
        grazing |-> GrazingP(c, P), inner |-> inner, closedOuter |-> ClosedHitP(c, P, SqHiP(P))]
RayClasses == {"from_inside", "from_outside", "parallel_hit", "parallel_miss", "tangent",
               "miss_line", "miss_solid"}
ZeroClasses == {"parallel_miss", "tangent", "miss_line", "miss_solid"}

(* point of the ray at parameter j/K *)
RayPoint(ray, j, K) ==
    LET nd == ray.n[4] sd == ray.s[4]
    IN <<ray.s[1] * nd * K + j * ray.n[1] * sd, ray.s[2] * nd * K + j * ray.n[2] * sd,
         ray.s[3] * nd * K + j * ray.n[3] * sd, sd * nd * K>>
InIv(I, t) == I.kind = "iv" /\ RLe(I.lo, t) /\ RLe(t, I.hi)

-----------------------------------------------------------------------------
(* exact moments of the solid in its own frame, centred at the centre:                          *)
(*   int x^a y^b z^c dV = pi * r^(a+b+2) * DiskMoment(a,b) * (h/2)^(c+1) * LineMoment(c)       *)
(*   DiskMoment(2i,2j) = (2i-1)!!(2j-1)!! / (2^(i+j) (i+j+1)!)   (0 for odd a or b)            *)
(*   LineMoment(c)     = 2/(c+1) for even c, 0 for odd c                                        *)
RECURSIVE DFact(_)
DFact(n) == IF n <= 1 THEN 1 ELSE n * DFact(n - 2)
RECURSIVE Fact(_)
Fact(n) == IF n <= 1 THEN 1 ELSE n * Fact(n - 1)
RECURSIVE Pow(_, _)
Pow(x, e) == IF e = 0 THEN 1 ELSE x * Pow(x, e - 1)
DiskMoment(a, b) ==
    IF a % 2 = 1 \/ b % 2 = 1 THEN RZero
    ELSE LET i == a \div 2 j == b \div 2
         IN RNorm(<<DFact(2*i - 1) * DFact(2*j - 1), Pow(2, i + j) * Fact(i + j + 1)>>)
LineMoment(c) == IF c % 2 = 1 THEN RZero ELSE RNorm(<<2, c + 1>>)
VolumeOverPi(c) == Sq(c.r) * c.h
=============================================================================
