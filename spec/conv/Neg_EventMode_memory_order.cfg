SPECIFICATION Spec
CONSTANTS
  MaxEvents = 3
  Shapes <- MC_ShapesQuick
  FullPermBins = 4
  MaxCalls = 1
  Bug = "memory_order"
INVARIANT ResultPerEvent
