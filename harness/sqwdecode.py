"""Independent decoder for SQW v4.0 containers (used by the C12 / C13 checks).

Written from the container layout as documented in /repo/docs/developer/file-formats/sqw.md, the
literal header fixtures in /repo/tests/io/sqw/sqw_read_test.py / sqw_write_test.py and the Horace
`hlp_serialize` conventions quoted in the module docstrings of scippneutron.io.sqw:

* file header: char array (u32 length + bytes) 'horace', f64 4.0, u32 file type, u32 n_dims
* block allocation table: u32 size, u32 n_blocks, n_blocks descriptors
  (char array block type, char array name, char array level-2 name, u64 position, u32 size,
  u32 locked)
* regular block = one object array: u8 type tag, u8 rank, rank x u32 extents, payload in
  column-major order; rank 0 = no elements; tag 32 ("serializes itself") is a prefix without a
  shape in front of the struct; struct payload = u32 field count, field-name lengths (u32 each),
  field names, then ONE cell array (tag 23) holding the values of all structs, field-major;
  cell payload = one object array per element
* pix block: u32 n_rows, u64 n_pixels, f32[n_rows x n_pixels] column-major
* dnd block: u32 rank, rank x u32 extents, f64 values, f64 errors, u64 counts

This module deliberately shares no code with the package: it must NOT import scippneutron.io.sqw.
Everything is decoded strictly inside the [begin, end) window handed in; running out of the
window raises `Overrun` (the caller records it: "block does not decode within its extent").
"""

from __future__ import annotations

import struct as _struct
from dataclasses import dataclass, field

import numpy as np

TAGS = {
    0: ('logical', 1, '?'),
    1: ('char', 1, None),
    3: ('f64', 8, 'f8'),
    4: ('f32', 4, 'f4'),
    5: ('i8', 1, 'i1'),
    6: ('u8', 1, 'u1'),
    9: ('i32', 4, 'i4'),
    10: ('u32', 4, 'u4'),
    11: ('i64', 8, 'i8'),
    12: ('u64', 8, 'u8'),
    23: ('cell', 0, None),
    24: ('struct', 0, None),
}
SELF_SERIALIZING = 32


class Overrun(Exception):
    """Decoding needed bytes beyond the window (extent or file end)."""


class Malformed(Exception):
    """Bytes that are not a valid object of the documented format."""


@dataclass
class Node:
    ty: str                     # 'char', 'f64', ..., 'cell', 'struct'
    shape: tuple                # extents as stored (column-major)
    value: object = None        # str | np.ndarray (Fortran-shaped) | list[Node] | list[dict]
    fields: tuple = ()          # struct only
    self_serializing: bool = False
    begin: int = 0
    end: int = 0

    # convenience ---------------------------------------------------------------------------
    def struct(self, i: int = 0) -> dict:
        if self.ty != 'struct':
            raise Malformed(f'expected struct, found {self.ty}')
        return self.value[i]

    def scalar(self):
        if self.ty == 'char':
            return self.value
        arr = np.asarray(self.value)
        if arr.size != 1:
            raise Malformed(f'expected one element, found shape {self.shape}')
        return arr.reshape(-1)[0].item()


class Cursor:
    def __init__(self, data: bytes, begin: int, end: int, bo: str):
        self.d = data
        self.p = begin
        self.end = min(end, len(data))
        self.hard_end = end
        self.bo = '<' if bo == 'little' else '>'

    def take(self, n: int) -> bytes:
        if n < 0:
            raise Malformed('negative length')
        if self.p + n > self.end:
            raise Overrun(f'need {n} bytes at {self.p}, window ends at {self.end}')
        b = self.d[self.p:self.p + n]
        self.p += n
        return b

    def u8(self):
        return self.take(1)[0]

    def u32(self):
        return _struct.unpack(self.bo + 'I', self.take(4))[0]

    def u64(self):
        return _struct.unpack(self.bo + 'Q', self.take(8))[0]

    def f64(self):
        return _struct.unpack(self.bo + 'd', self.take(8))[0]

    def f64_raw(self):
        b = self.take(8)
        return _struct.unpack(self.bo + 'd', b)[0], b

    def chars(self, n):
        b = self.take(n)
        try:
            return b.decode('ascii')
        except UnicodeDecodeError:
            return b.decode('latin-1')

    def char_array(self):
        return self.chars(self.u32())


def _count(shape) -> int:
    if len(shape) == 0:
        return 0
    n = 1
    for s in shape:
        n *= int(s)
    return n


def read_object(c: Cursor, depth: int = 0) -> Node:
    if depth > 40:
        raise Malformed('nesting too deep')
    begin = c.p
    tag = c.u8()
    selfser = False
    if tag == SELF_SERIALIZING:
        selfser = True
        tag = c.u8()
        if tag != 24:
            raise Malformed(f'self-serializing object must be a struct, found tag {tag} at {c.p - 1}')
    if tag not in TAGS:
        raise Malformed(f'unknown type tag {tag} at {c.p - 1}')
    name, size, dt = TAGS[tag]
    rank = c.u8()
    shape = tuple(c.u32() for _ in range(rank))
    n = _count(shape)
    node = Node(ty=name, shape=shape, self_serializing=selfser, begin=begin)
    if name == 'char':
        if rank == 0:
            node.value = ''
        elif rank == 1 or n == shape[0]:
            node.value = c.chars(n)
        else:  # char matrix: column-major, first extent = string length (as the package writes it)
            node.value = [c.chars(shape[0]) for _ in range(n // max(shape[0], 1))]
    elif name == 'cell':
        node.value = [read_object(c, depth + 1) for _ in range(n)]
    elif name == 'struct':
        if n == 0:
            node.value = []
        else:
            nf = c.u32()
            if nf > 10_000:
                raise Malformed(f'implausible field count {nf}')
            lens = [c.u32() for _ in range(nf)]
            names = tuple(c.chars(k) for k in lens)
            cell = read_object(c, depth + 1)
            if cell.ty != 'cell':
                raise Malformed('struct values are not a cell array')
            want = (nf, 1) if n == 1 else (nf, 1, *shape)
            if _count(cell.shape) != nf * n:
                raise Malformed(f'struct cell shape {cell.shape} does not hold {nf} fields x {n} structs')
            node.fields = names
            node.value = [dict(zip(names, cell.value[i * nf:(i + 1) * nf], strict=True)) for i in range(n)]
            node.cell_shape = cell.shape  # type: ignore[attr-defined]
            node.cell_shape_expected = want  # type: ignore[attr-defined]
    else:
        raw = c.take(n * size)
        arr = np.frombuffer(raw, dtype=np.dtype(dt).newbyteorder(c.bo) if dt != '?' else np.dtype('u1'))
        if dt == '?':
            arr = arr != 0
        else:
            arr = arr.astype(np.dtype(dt))  # native order copy
        node.value = arr.reshape(shape, order='F') if rank else arr
    node.end = c.p
    return node


# ------------------------------------------------------------------------------------------ file
@dataclass
class BatEntry:
    block_type: str
    name: tuple
    position: int
    size: int
    locked: int


@dataclass
class Decoded:
    byteorder: str = ''
    byteorder_candidates: tuple = ()
    prog_name: str = ''
    prog_version: float = float('nan')
    prog_version_bytes: bytes = b''
    sqw_type: int = -1
    n_dims: int = -1
    header_len: int = 0
    bat_size_field: int = -1
    bat_begin: int = 0          # offset of the size field
    bat_end: int = 0            # first byte after the last descriptor
    entries: list = field(default_factory=list)
    file_len: int = 0
    blocks: dict = field(default_factory=dict)   # name -> dict(kind, consumed, ok, error, node/...)
    error: str = ''


def _try_header(data: bytes, bo: str):
    c = Cursor(data, 0, len(data), bo)
    n = c.u32()
    if n > 64:
        raise Malformed('program name too long')
    name = c.chars(n)
    ver, verb = c.f64_raw()
    ty = c.u32()
    nd = c.u32()
    return name, ver, verb, ty, nd, c.p


def find_byteorder(data: bytes):
    """Byte orders under which the file header is the documented header (independent of the
    package's heuristic): program name length plausible and the version a finite number >= 1."""
    ok = []
    for bo in ('little', 'big'):
        try:
            name, ver, _, ty, nd, _ = _try_header(data, bo)
        except (Overrun, Malformed):
            continue
        if name.isprintable() and 1.0 <= ver < 1e6 and ty in (0, 1) and nd <= 64:
            ok.append(bo)
    return tuple(ok)


def decode_file(data: bytes, max_pix_keep: int | None = None) -> Decoded:
    out = Decoded(file_len=len(data))
    cands = find_byteorder(data)
    out.byteorder_candidates = cands
    if len(cands) != 1:
        out.error = f'byte order not determined: {cands}'
        return out
    bo = cands[0]
    out.byteorder = bo
    name, ver, verb, ty, nd, p = _try_header(data, bo)
    out.prog_name, out.prog_version, out.prog_version_bytes = name, ver, verb
    out.sqw_type, out.n_dims, out.header_len = ty, nd, p
    c = Cursor(data, p, len(data), bo)
    out.bat_begin = p
    try:
        out.bat_size_field = c.u32()
        nblocks = c.u32()
        if nblocks > 1000:
            raise Malformed(f'implausible block count {nblocks}')
        for _ in range(nblocks):
            bt = c.char_array()
            n1 = c.char_array()
            n2 = c.char_array()
            pos = c.u64()
            size = c.u32()
            locked = c.u32()
            out.entries.append(BatEntry(bt, (n1, n2), pos, size, locked))
        out.bat_end = c.p
    except (Overrun, Malformed) as e:
        out.error = f'block allocation table: {e}'
        return out
    for i, e in enumerate(out.entries):
        out.blocks[i] = decode_block(data, e, bo)
    return out


def decode_block(data: bytes, e: BatEntry, bo: str) -> dict:
    """Decode one block strictly inside its declared extent."""
    res = {'kind': e.block_type, 'consumed': -1, 'ok': False, 'error': '', 'decoded_type': '',
           'past_eof': e.position + e.size > len(data)}
    c = Cursor(data, e.position, e.position + e.size, bo)
    try:
        if e.block_type == 'data_block':
            node = read_object(c)
            res['node'] = node
            res['decoded_type'] = 'object:' + node.ty
            if node.ty == 'struct' and len(node.value) == 1 and 'serial_name' in node.value[0]:
                sn = node.value[0]['serial_name']
                res['serial_name'] = sn.value if sn.ty == 'char' else ''
        elif e.block_type == 'pix_data_block':
            nrows = c.u32()
            npix = c.u64()
            res['n_rows'], res['n_pixels'] = nrows, npix
            need = nrows * npix * 4
            if c.p + need > c.end and 0 < nrows <= 64:
                # short block: keep the complete pixels that ARE there (diagnostics for the caller)
                k = (c.end - c.p) // (4 * nrows)
                part = np.frombuffer(c.d[c.p:c.p + k * 4 * nrows], dtype=np.dtype('f4').newbyteorder(c.bo))
                res['pix_partial'] = part.astype('f4').reshape((nrows, k), order='F')
            raw = c.take(need)
            arr = np.frombuffer(raw, dtype=np.dtype('f4').newbyteorder(c.bo)).astype('f4')
            res['pix'] = arr.reshape((nrows, npix), order='F')
            res['decoded_type'] = 'pix'
        elif e.block_type == 'dnd_data_block':
            rank = c.u32()
            if rank > 16:
                raise Malformed(f'implausible dnd rank {rank}')
            shape = tuple(c.u32() for _ in range(rank))
            n = 1
            for s in shape:
                n *= s
            res['shape'] = shape
            vals = np.frombuffer(c.take(8 * n), dtype=np.dtype('f8').newbyteorder(c.bo))
            errs = np.frombuffer(c.take(8 * n), dtype=np.dtype('f8').newbyteorder(c.bo))
            cnts = np.frombuffer(c.take(8 * n), dtype=np.dtype('u8').newbyteorder(c.bo))
            res['dnd'] = (vals, errs, cnts)
            res['decoded_type'] = 'dnd'
        else:
            raise Malformed(f'unknown block type {e.block_type!r}')
        res['consumed'] = c.p - e.position
        res['ok'] = True
    except Overrun as ex:
        res['error'] = 'overrun: ' + str(ex)
        res['consumed'] = c.p - e.position
    except Malformed as ex:
        res['error'] = 'malformed: ' + str(ex)
        res['consumed'] = c.p - e.position
    except (ValueError, TypeError, KeyError, IndexError, OverflowError, MemoryError, RecursionError,
            _struct.error) as ex:
        # bytes that trip the decoder in an unforeseen way are still a verdict about the file
        # ("does not decode within its extent"), never a crash of the check
        res['error'] = f'malformed: {type(ex).__name__}: {ex}'
        res['consumed'] = c.p - e.position
    return res


# ------------------------------------------------------------------------- typed views of blocks
def field_str(st: dict, name: str) -> str:
    n = st[name]
    if n.ty != 'char' or not isinstance(n.value, str):
        raise Malformed(f'field {name} is not a string')
    return n.value


def field_num(st: dict, name: str):
    n = st[name]
    if n.ty in ('char', 'cell', 'struct'):
        raise Malformed(f'field {name} is not numeric')
    return n.scalar()


def field_arr(st: dict, name: str) -> np.ndarray:
    n = st[name]
    if n.ty in ('char', 'cell', 'struct'):
        raise Malformed(f'field {name} is not an array')
    return np.asarray(n.value)


def field_strs(st: dict, name: str) -> list:
    n = st[name]
    if n.ty != 'cell':
        raise Malformed(f'field {name} is not a cell array')
    return [x.value for x in n.value]


def unique_container(node: Node) -> dict:
    """unique_references_container -> its one unique_objects_container -> (objects, idx)."""
    top = node.struct()
    inner_node = top['unique_objects']
    inner = inner_node.struct()
    objs = inner['unique_objects']
    if objs.ty != 'cell':
        raise Malformed('unique_objects is not a cell array')
    return {
        'serial_name': field_str(top, 'serial_name'),
        'stored_baseclass': field_str(top, 'stored_baseclass'),
        'global_name': field_str(top, 'global_name'),
        'inner_serial_name': field_str(inner, 'serial_name'),
        'baseclass': field_str(inner, 'baseclass'),
        'objects': objs.value,
        'idx': field_arr(inner, 'idx').reshape(-1, order='F'),
        'idx_shape': inner['idx'].shape,
    }
