-------------------------- MODULE Trace_PeakModels --------------------------
(* Judges recorded observations of the real models against PeakModelsDefs.  One NDJSON     *)
(* line per observation; a rejected line prints <<"REJECT", line, tid, clause>>, the run    *)
(* ends with <<"DONE", n, nbad>>.  Events (field `ev`):                                      *)
(*  names   param_names of a constructed model expression, or the refusal to construct it   *)
(*  call    model(x, **params) with a given key set: accepted or refused                    *)
(*  aux     keys of guess() and param_bounds                                                *)
(*  poly    integer polynomial: coefficients, points, values returned (exact), together     *)
(*          with the evaluation variant (element type of x `xd` and of every coefficient     *)
(*          `cds`, layout of x, order of the keyword arguments)                              *)
(*  unit    unit of the result (or refusal) for given parameter / coordinate units          *)
(*  sum     unit of a composite from the units of its parts                                 *)
(*  flags   numeric comparisons made by the harness against 50-digit closed forms           *)
(*          (point values, symmetry, half maximum, FWHM, integral, bitwise equalities,       *)
(*          evaluation variants, second use of the same objects); a refused evaluation      *)
(*          carries the element types of its operands (`types`) and the class of the        *)
(*          exception (`exc`): a DTypeError with an integer-typed operand is accepted as    *)
(*          "unsupported element types" (weakest reading), everything returned is judged     *)
(*  replay  a case evaluated a second time at the end of the run, in another order:         *)
(*          `second` is judged like any event and must equal the first observation          *)
EXTENDS PeakModelsDefs, TLC, Json, IOUtils

Tr == ndJsonDeserialize(IOEnv.TRACE_FILE)
VARIABLES ln, nbad
tvars == <<ln, nbad>>

SeqToSet(s) == {s[i] : i \in 1..Len(s)}

JudgeNames(e) ==
    LET mm == e.model
        clash == mm.kind = "comp" /\ ComposeOutcome(mm.left, mm.right) = "refused"
    IN IF clash THEN (IF e.out = "refused" THEN "ok" ELSE "overlapping_names_not_refused")
       ELSE IF e.out = "refused" THEN "composition_refused_without_overlap"
       ELSE IF Len(e.names) # Cardinality(SeqToSet(e.names)) THEN "duplicate_names"
       ELSE IF SeqToSet(e.names) # Names(mm) THEN "param_names_differ"
       ELSE "ok"

JudgeCall(e) ==
    LET want == CallOutcome(e.model, SeqToSet(e.keys))
    IN IF e.out = want THEN "ok"
       ELSE IF want = "refused" THEN "missing_or_unknown_parameters_accepted"
       ELSE "exact_parameters_refused"

JudgeAux(e) ==
    IF SeqToSet(e.guess_keys) # Names(e.model) THEN "guess_keys_are_not_the_parameter_names"
    ELSE IF ~(SeqToSet(e.bounds_keys) \subseteq Names(e.model)) THEN "bounds_keys_are_not_parameter_names"
    ELSE IF ~e.guess_same THEN "guess_depends_on_prefix"
    ELSE IF ~e.bounds_same THEN "bounds_depend_on_prefix"
    ELSE "ok"

JudgePoly(e) ==
    IF e.xd \notin DTypes \/ ~(SeqToSet(e.cds) \subseteq DTypes) \/ Len(e.cds) # Len(e.coefs)
       \/ e.layout \notin XLayouts \/ e.order \notin KeyOrders THEN "unknown_variant"
    ELSE IF e.out = "refused" THEN
        \* a scipp DTypeError for a call with an integer-typed operand is "unsupported", not a verdict
        (IF e.exc = "DTypeError" /\ (\E d \in SeqToSet(e.cds) \cup {e.xd} : IsIntType(d)) THEN "ok"
         ELSE IF e.layout # "1d" THEN "polynomial_refused_for_this_layout_of_x"
         ELSE "polynomial_refused")
    ELSE IF e.out = "nonfinite" THEN "polynomial_value_is_not_finite"
    ELSE IF e.out # "ok" THEN "polynomial_is_not_sum_a_i_x_i"
    ELSE IF Len(e.got) # Len(e.xs) THEN "polynomial_shape"
    ELSE IF \E i \in 1..Len(e.xs) : e.got[i] # PolyValue(e.coefs, e.xs[i]) THEN "polynomial_is_not_sum_a_i_x_i"
    ELSE IF ~e.args_same THEN "evaluation_modified_its_arguments"
    ELSE IF ~e.again_same THEN "second_evaluation_with_the_same_objects_differs"
    ELSE IF ~e.kept THEN "earlier_result_changed_by_a_later_evaluation"
    ELSE "ok"

JudgeUnit(e) ==
    LET want == ResultUnit(e.kind, e.pu, e.ux)
    IN IF e.out = want THEN "ok"
       ELSE IF want = URefused THEN "inconsistent_units_accepted"
       ELSE IF e.out = URefused THEN "consistent_units_refused"
       ELSE "result_unit_differs"

JudgeSum(e) ==
    LET want == SumUnit(e.a, e.b)
    IN IF e.out = want THEN "ok"
       ELSE IF want = URefused THEN "inconsistent_units_accepted"
       ELSE IF e.out = URefused THEN "consistent_units_refused"
       ELSE "result_unit_differs"

JudgeFlags(e) ==
    IF e.out # "ok" THEN
        \* a scipp DTypeError for a call with an integer-typed operand is "unsupported", not a verdict
        (IF e.exc = "DTypeError" /\ (\E d \in SeqToSet(e.types) : IsIntType(d)) THEN "ok"
         ELSE "evaluation_refused")
    ELSE IF \E i \in 1..Len(e.flags) : ~e.flags[i][2] THEN
        (LET i0 == CHOOSE i \in 1..Len(e.flags) : ~e.flags[i][2] /\ \A j \in 1..(i-1) : e.flags[j][2]
         IN e.flags[i0][1])
    ELSE "ok"

Judge1(e) == CASE e.ev = "names" -> JudgeNames(e)
              [] e.ev = "call" -> JudgeCall(e)
              [] e.ev = "aux" -> JudgeAux(e)
              [] e.ev = "poly" -> JudgePoly(e)
              [] e.ev = "unit" -> JudgeUnit(e)
              [] e.ev = "sum" -> JudgeSum(e)
              [] e.ev = "flags" -> JudgeFlags(e)
              [] OTHER -> "unknown_event"

(* a replayed case: the second observation is judged on its own, then against the first *)
Judge(e) == IF e.ev = "replay"
            THEN (LET v == Judge1(e.second) IN
                  IF v # "ok" THEN v
                  ELSE IF ~e.same THEN "replayed_case_differs_from_its_first_evaluation"
                  ELSE "ok")
            ELSE Judge1(e)

TInit == ln = 1 /\ nbad = 0
TNext == /\ ln <= Len(Tr)
         /\ ln' = ln + 1
         /\ LET v == Judge(Tr[ln]) IN
            /\ nbad' = IF v = "ok" THEN nbad ELSE nbad + 1
            /\ (v = "ok" \/ PrintT(<<"REJECT", ln, Tr[ln].tid, v>>))
TSpec == TInit /\ [][TNext]_tvars
Done == (ln = Len(Tr) + 1) => PrintT(<<"DONE", ln - 1, nbad>>)
=============================================================================
