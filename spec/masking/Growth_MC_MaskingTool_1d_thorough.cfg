SPECIFICATION Spec
CONSTANTS
  NX = 2
  NY = 1
  NDim = 1
  Bug = "none"
  ClickX <- MC_OneXThorough
  ClickY <- MC_OrdY
  DragD <- MC_OneDrag
  MaxShapes = 2
  Names <- MC_OneNamesThorough
  Sim = FALSE
  SimLen = 0
INVARIANT TypeOK
INVARIANT AtMostOneActive
INVARIANT OnlyAllowedKinds
INVARIANT PendingNeedsTool
INVARIANT Coherent
INVARIANT MaskIsClosedBox
INVARIANT CornerOrderIrrelevant
INVARIANT OnPointIsMasked
INVARIANT DocWellFormed
INVARIANT SaveEnabledIffName
INVARIANT SavedFileWellFormed
PROPERTY ToggleKeepsMasks
PROPERTY ActivationIsExclusive
PROPERTY RemoveKeepsTheRest
PROPERTY EditsAreLocal
PROPERTY MasksFollowShapes
PROPERTY GrowthOnlyBySecondClick
CHECK_DEADLOCK FALSE
