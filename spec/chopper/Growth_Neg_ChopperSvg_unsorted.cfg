SPECIFICATION Spec
CONSTANTS
  K = 8
  SlitSets <- MC_NegSets
  Bug = "unsorted"
INVARIANT OneTurn
CHECK_DEADLOCK FALSE
