"""C08 — Q-vector and hkl conversions satisfy their defining algebra.

Spec: spec/conv/QVecDefs.tla (beams with integer norm => rational unit vectors; e_i - e_f as an
exact rational vector; rational rotations from integer quaternions; R U B as integer matrix over an
integer denominator; Cramer inverse), QVec.tla (state machine on the two beams: rescale either beam,
rotate the beamline; invariants NormIdentity / Direction / Rotations, action properties
LengthIndependent / Covariant), QVecHkl.tla (state machine on goniometer, orientation, lattice
matrix; invariants HklInverse, UBProduct, RotationKeepsNorm, Lossless), QVecCases.tla (export),
Trace_QVec.tla (judge of recorded executions).

1. TLC, exhaustive: |e_i - e_f|^2 = 4 sin^2(theta) with cos(2theta) the cosine of C03's angle class,
   independence of the beam lengths, covariance under every rational rotation, Solve(R UB, Q) = hkl
   for every (R, U, B, hkl) of the grid, (R U) B = R (U B), adjugate anti-multiplicativity, split /
   reassemble.  Negative controls: unnormalised beams, k_f - k_i; wrong order of R and U, R dropped.
2. spec -> code (M1): TLC writes the cases; the driver replays them into
   Q_elements_from_wavelength, Q_vec_from_Q_elements, Q_from_wavelength + two_theta (scalar route),
   ub_matrix_from_u_and_b, hkl_vec_from_Q_vec, hkl_elements_from_hkl_vec with scalar and array
   operands, wavelengths 0.01..100 angstrom, beams rescaled by exactly representable factors,
   B rescaled column-wise by powers of ten up to condition numbers of 1e6, R as rotation3 and as
   matrix.
3. Every replay is one NDJSON event judged by TLC (Trace_QVec): TLC recomputes the harness' own
   exact rationals / integer matrices with the spec operators and judges the measured errors.

Numeric part (not decidable by TLC): the factor 2 pi / lambda and the rounding of the floats.  The
driver multiplies the spec's exact rational by 2 pi / lambda in mpmath (60 digits, exact rational of
the wavelength float) and compares.  Bounds (eps = 2^-52, k = 2 pi / lambda):
  Q components: unit vectors 3.5 eps each, difference 9 eps, k = 2*pi/lambda 2.2 eps, product
      1 eps  -> 16 eps k absolute (the components can cancel to zero, so the bound is absolute);
  |Q_vec| and 4 pi sin(theta)/lambda (with theta from two_theta, 3e-15 rad, C03): 24 eps k;
  R * Q(b1, b2) against Q(R b1, R b2): both sides 16 eps k plus the rounded quaternion: 48 eps k;
  hkl: forward error of the explicit inverse of the rounded product R*UB applied to Q: the product
      perturbs the matrix by 3 eps |R||UB|, the cofactor inverse adds ~4 eps cond, the matrix-vector
      product 3 eps cond, the division by 2 pi 2 eps: <= 32 eps cond_2(R UB) |hkl| (48 when R is
      given as a quaternion that scipp converts itself).  The reference hkl is the exact rational
      solution for the float matrices actually passed, divided by 2 pi in mpmath.
  U*B with integer entries is exact (bit-for-bit); split/reassemble is bit-for-bit.
B matrices with condition number 1e6 exceed TLC's 32-bit integers (stated limit): TLC decides the
small integer B, the harness rescales columns by powers of ten and solves exactly with Python
rationals using the same Cramer formula.

Hardening round (HARDENING.md items 1, 2, 5-11):
4. Operand forms of the Q kernels (QVecDefs!QForms, checked by Trace_QVec): every other group of cases uses a
   non-default form - integer-typed (int64 / int32) and float32 wavelengths (float32 judged in units of
   2^-24), wavelength in nm (Q in 1/nm), 2-d in both dim orders and 0-d, the two beams in different length
   units, Qy handed to the reassembly with its dims in the other order; operands compared bit-for-bit after
   the calls.
5. hkl: Q in 1/nm with B in 1/angstrom (hkl carries the scale in its unit: value * scale is judged, +2 units
   for the two extra roundings); the same UB object again with ANOTHER sample rotation (model: variable rused,
   invariant NoHistory, negative control Neg_QVecHkl_stale_rotation); R, U, B as one matrix per peak.
6. The coordinate graph conversion.graph.tof.elastic_hkl on a data array (positions, wavelength, U, B, R as
   coordinates), intermediate Qx/Qy/Qz, Q_vec, ub_matrix, hkl_vec, h/k/l kept and judged; lambda * hkl is the
   exact rational vector QVecDefs!HklTimesLambda exported by TLC ("graph" cases, invariant GraphRoute).
7. Split / reassembly: NaN payloads, strided, 2-d and transposed operands, scaled dimensionless units.
8. Second use: a sample of the hkl and Q groups is evaluated again at the end in reverse order.
Malformed results (non-finite U*B, wrong number of vectors, unexpected dims) are violations with their own key.
"""

from __future__ import annotations

import json
import math
import os
from fractions import Fraction

import mpmath
import numpy as np
import scipp as sc

from .. import lib_geom as G
from ..core import MachineryError
from ..tlc import require_ok, write_ndjson

WORKERS = min(8, int(os.environ.get('VERIF_TLC_WORKERS', '8') or 8))
HALF = 2.0 ** -53
RULE = ('beams = signed permutations of (1,0,0), (1,2,2), (0,3,4), (2,3,6), (1,4,8) rescaled by exactly '
        'representable factors; rotations from integer quaternions; integer B rescaled column-wise by powers '
        'of ten (cond <= 2e6); integer hkl; wavelengths 0.01..100 angstrom; non-trivial = kernels returned; '
        'identity = (case integers, variant)')
LAMS = [0.01, 0.37, 1.0, 4.5, 100.0]
SCALINGS = [(1.0, 1.0), (3.0, 2.0 ** -12), (2.0 ** 15, 7.0)]


def _rvec(fr3):
    return [G.reduce_frac(x.numerator, x.denominator) for x in fr3]


def _isqrt_exact(n):
    r = math.isqrt(n)
    if r * r != n:
        raise MachineryError(f'beam without integer norm: {n}')
    return r


def _units_abs(err, k):
    """|err| / (2^-53 * k) rounded up."""
    return G.units_of(err / k, HALF)


# ------------------------------------------------------------------------------ Q vector
def _q_reference(b1, b2, quat):
    """The harness' own Euclidean evaluation with exact rationals."""
    n1, n2 = _isqrt_exact(sum(x * x for x in b1)), _isqrt_exact(sum(x * x for x in b2))
    ei = tuple(Fraction(x, n1) for x in b1)
    ef = tuple(Fraction(x, n2) for x in b2)
    q = G.vsub(ei, ef)
    m, n = G.quat_mat(quat)
    rot = tuple(tuple(Fraction(x, n) for x in row) for row in m)
    rq = G.matvec(rot, q)
    r1, r2 = G.matvec(m, b1), G.matvec(m, b2)  # integer beams N * R b
    cos = Fraction(sum(a * b for a, b in zip(b1, b2)), n1 * n2)
    return {'q': q, 'rq': rq, 'r1': r1, 'r2': r2, 'four_sin2': 2 * (1 - cos), 'rot': rot, 'n': n}


# operand forms of the Q kernels (QVecDefs!QForms); every other group of cases uses the first (default) one
Q_FORMS = [
    {'dtype': 'float64', 'unit': 'angstrom', 'layout': 'outer', 'beam_units': 'same', 'element_dims': 'same_order'},
    {'dtype': 'int64', 'unit': 'angstrom', 'layout': 'outer', 'beam_units': 'mixed', 'element_dims': 'mixed_order'},
    {'dtype': 'float64', 'unit': 'nm', 'layout': 'grid', 'beam_units': 'same', 'element_dims': 'same_order'},
    {'dtype': 'float32', 'unit': 'angstrom', 'layout': 'grid_transposed', 'beam_units': 'mixed', 'element_dims': 'same_order'},
    {'dtype': 'int32', 'unit': 'nm', 'layout': 'scalar', 'beam_units': 'same', 'element_dims': 'same_order'},
    {'dtype': 'float64', 'unit': 'angstrom', 'layout': 'scalar', 'beam_units': 'mixed', 'element_dims': 'same_order'},
    {'dtype': 'float64', 'unit': 'angstrom', 'layout': 'grid_transposed', 'beam_units': 'same', 'element_dims': 'mixed_order'},
    {'dtype': 'int64', 'unit': 'nm', 'layout': 'grid', 'beam_units': 'same', 'element_dims': 'mixed_order'},
]
# wavelengths inside 0.01..100 angstrom in the unit / dtype of the form (all exactly representable in the dtype)
LAMS_OF = {('float64', 'angstrom'): LAMS, ('float64', 'nm'): [0.001, 0.037, 0.1, 0.45, 10.0],
           ('int64', 'angstrom'): [1, 3, 7, 100], ('int64', 'nm'): [1, 2, 5, 10],
           ('int32', 'angstrom'): [1, 2, 5, 100], ('int32', 'nm'): [1, 3, 10],
           ('float32', 'angstrom'): [0.015625, 0.375, 1.0, 4.5, 100.0]}
F32 = 2.0 ** -24


def _bits(v):
    return np.array(v.values, copy=True).tobytes()


def _replay_q(ctx, cases, events, stats, only_groups=None, use='first'):
    from scippneutron.conversion import beamline as bl
    from scippneutron.conversion import tof

    # group by (b1, quat): scattered beams become a per-pixel array
    groups = {}
    for c in cases:
        groups.setdefault((tuple(c['b1']), tuple(c['quat'])), []).append(c)
    order = list(enumerate(sorted(groups.items())))
    if only_groups is not None:
        order = [order[i] for i in only_groups]
    for gi, ((b1, quat), items) in order:
        form = Q_FORMS[0] if gi % 2 == 0 else Q_FORMS[1 + (gi // 2) % (len(Q_FORMS) - 1)]
        lams_all = LAMS_OF[form['dtype'], form['unit']]
        lams = [lams_all[gi % len(lams_all)]] if form['layout'] == 'scalar' else lams_all
        nd, nl = len(items), len(lams)
        f32 = form['dtype'] == 'float32'
        eu = F32 if f32 else HALF  # error unit: float32 wavelengths are judged at float32 accuracy
        kk = [2 * mpmath.pi / G.to_mpf(Fraction(x)) for x in lams]  # 1/unit
        refs = [_q_reference(b1, tuple(c['b2']), quat) for c in items]
        b2s = np.array([c['b2'] for c in items], dtype='float64')
        r2s = np.array([r['r2'] for r in refs], dtype='float64')
        r1 = np.array(refs[0]['r1'], dtype='float64')
        x, y, z, w = quat[1], quat[2], quat[3], quat[0]
        nq = math.sqrt(refs[0]['n'])
        rvar = sc.spatial.rotation(value=np.array([x, y, z, w], dtype='float64') / nq)
        # beams as plain numbers (unit 'dimensionless', e.g. positions read without a unit) are beams like any other:
        # only their direction enters (their lengths are integers > 1 here)
        unit_b = ('m', 'mm', 'angstrom', 'dimensionless')[gi % 4]
        unit_s = unit_b if form['beam_units'] == 'same' else ('mm', 'm', 'm', 'dimensionless')[gi % 4]
        lv = np.array(lams, dtype=form['dtype'])
        if form['layout'] == 'outer':
            lam = sc.array(dims=['wavelength'], values=lv, unit=form['unit'], dtype=form['dtype'])
        elif form['layout'] == 'grid':
            lam = sc.array(dims=['det', 'wavelength'], values=np.tile(lv, (nd, 1)), unit=form['unit'], dtype=form['dtype'])
        elif form['layout'] == 'grid_transposed':
            lam = sc.array(dims=['wavelength', 'det'], values=np.tile(lv[:, None], (1, nd)), unit=form['unit'], dtype=form['dtype'])
        else:
            lam = sc.scalar(lv[0], unit=form['unit'], dtype=form['dtype'])
        res = {}
        kept = False
        try:
            operands = [lam]
            for si, (s1, s2) in enumerate(SCALINGS):
                ib = sc.vector(np.array(b1, dtype='float64') * s1, unit=unit_b)
                sb = sc.vectors(dims=['det'], values=b2s * s2, unit=unit_s)
                operands += [ib, sb]
                before = [_bits(v) for v in (lam, ib, sb)]
                res['el', si] = tof.Q_elements_from_wavelength(wavelength=lam, incident_beam=ib, scattered_beam=sb)
                kept = (si == 0 or kept) and before == [_bits(v) for v in (lam, ib, sb)]
            el = res['el', 0]
            qy = el['Qy']
            if form['element_dims'] == 'mixed_order' and qy.ndim == 2:
                qy = qy.transpose().copy()  # same elements, dims listed in the other order
            qv = tof.Q_vec_from_Q_elements(Qx=el['Qx'], Qy=qy, Qz=el['Qz'])
            ibr = sc.vector(r1, unit=unit_b)
            sbr = sc.vectors(dims=['det'], values=r2s, unit=unit_s)
            elr = tof.Q_elements_from_wavelength(wavelength=lam, incident_beam=ibr, scattered_beam=sbr)
            qvr = tof.Q_vec_from_Q_elements(Qx=elr['Qx'], Qy=elr['Qy'], Qz=elr['Qz'])
            qrot = rvar * qv
            qnorm = sc.norm(qv)
            ib0 = sc.vector(np.array(b1, dtype='float64'), unit=unit_b)
            sb0 = sc.vectors(dims=['det'], values=b2s, unit=unit_s)
            tt = bl.two_theta(incident_beam=ib0, scattered_beam=sb0)
            qs = None if f32 else tof.Q_from_wavelength(wavelength=lam, two_theta=tt)
            returned, exc = True, None
        except Exception as e:  # noqa: BLE001
            returned, exc = False, repr(e)
            ctx.violation(f'Q-vector kernels raised {type(e).__name__}' + ('' if gi % 2 == 0 else ' (non-default operand form)'),
                          {'exc': exc, 'b1': b1, 'quat': quat, 'form': form})

        if returned and gi % 3 == 0:
            # an ARRAY of incident beams (several source positions: the same direction at two lengths) with a dimension
            # the scattered beam lacks ("scalar and array operands"): every slice is the answer for the single beam
            try:
                ib_src = sc.vectors(dims=['source'], values=np.array([b1, b1], dtype='float64') * np.array([[1.0], [2.0]]),
                                    unit=unit_b)
                sb0_ = sc.vectors(dims=['det'], values=b2s, unit=unit_s)
                els = tof.Q_elements_from_wavelength(wavelength=lam, incident_beam=ib_src, scattered_beam=sb0_)
                one = tof.Q_elements_from_wavelength(wavelength=lam, incident_beam=sc.vector(np.array(b1, dtype='float64'), unit=unit_b),
                                                     scattered_beam=sb0_)
                for n_ in ('Qx', 'Qy', 'Qz'):
                    for k_ in (0, 1):
                        a_, b_ = els[n_]['source', k_], one[n_]
                        if set(a_.dims) != set(b_.dims) or not sc.allclose(
                                a_.transpose(b_.dims), b_, rtol=sc.scalar(1e-6 if f32 else 1e-13),
                                atol=sc.scalar(1e-6 if f32 else 1e-13, unit=b_.unit) * sc.abs(b_).max().value, equal_nan=True):
                            ctx.violation('Q vector: slice of an array of incident beams differs from the single-beam answer',
                                          {'b1': b1, 'form': form, 'component': n_, 'slice': k_})
                            break
            except Exception as e:  # noqa: BLE001
                ctx.violation(f'Q-vector kernels raised {type(e).__name__} for an array of incident beams with a dimension '
                              'the scattered beam lacks', {'exc': repr(e), 'b1': b1, 'form': form})

        def grid(v, vec=False):
            """values as [det, wavelength] (+ component) whatever the order / number of dims of the result"""
            dims = [d for d in ('det', 'wavelength') if d in v.dims]
            if set(v.dims) - {'det', 'wavelength'} or 'det' not in dims:
                raise ValueError(f'result has dims {v.dims}')
            a = np.asarray(v.transpose(dims).values if len(dims) > 1 else v.values)
            if 'wavelength' not in dims:
                if nl != 1:
                    raise ValueError(f'result has dims {v.dims} for {nl} wavelengths')
                a = a.reshape((nd, 1, 3) if vec else (nd, 1))
            if a.shape != ((nd, nl, 3) if vec else (nd, nl)):
                raise ValueError(f'result of shape {a.shape}')
            return a

        if returned:
            try:
                want_unit = sc.Unit('1/' + form['unit'])
                ok_dt = (sc.DType.float64, sc.DType.float32) if f32 else (sc.DType.float64,)
                unit_ok = all(el[n].unit == want_unit and el[n].dtype in ok_dt for n in ('Qx', 'Qy', 'Qz')) \
                    and qv.unit == want_unit and qv.dtype == sc.DType.vector3 and (qs is None or qs.unit == want_unit)
                E = [[grid(res['el', si][n]) for n in ('Qx', 'Qy', 'Qz')] for si in range(len(SCALINGS))]
                ER = [grid(elr[n]) for n in ('Qx', 'Qy', 'Qz')]
                QV, QVR, QROT = grid(qv, True), grid(qvr, True), grid(qrot, True)
                QN = grid(qnorm)
                QS = grid(qs) if qs is not None else None
            except Exception as e:  # noqa: BLE001
                returned = False
                ctx.violation('Q-vector kernels returned a result of unexpected dims / shape'
                              + ('' if gi % 2 == 0 else ' (non-default operand form)'), {'exc': repr(e), 'form': form})
        for i, (c, ref) in enumerate(zip(items, refs)):
            o = {'returned': returned, 'unit_ok': False, 'e_q': 0, 'e_len': 0, 'e_rot': 0, 'e_cov': 0, 'e_norm': 0,
                 'e_scal': 0, 'bits_ok': False, 'inputs_kept': bool(kept)}
            if returned:
                o['unit_ok'] = bool(unit_ok)
                qm = G.mp_vec(ref['q'])
                rqm = G.mp_vec(ref['rq'])
                nrm = mpmath.sqrt(G.to_mpf(ref['four_sin2']))
                bits = True

                def ua(got, want, k):
                    """|got - want| / (eu * k) rounded up; a non-finite result is 2^30 units"""
                    g = float(got)
                    return G.units_of((G.mpf(g) - want) / k, eu) if math.isfinite(g) else 2**30

                for j, k in enumerate(kk):
                    for a in range(3):
                        want = k * qm[a]
                        o['e_q'] = max(o['e_q'], ua(E[0][a][i][j], want, k))
                        for si in range(1, len(SCALINGS)):
                            o['e_len'] = max(o['e_len'], ua(E[si][a][i][j], want, k))
                        o['e_rot'] = max(o['e_rot'], ua(ER[a][i][j], k * rqm[a], k))
                        o['e_cov'] = max(o['e_cov'], ua(QROT[i][j][a], G.mpf(float(QVR[i][j][a])), k)
                                         if math.isfinite(float(QVR[i][j][a])) else 2**30)
                        bits = bits and (float(QV[i][j][a]).hex() == float(E[0][a][i][j]).hex())
                    o['e_norm'] = max(o['e_norm'], ua(QN[i][j], k * nrm, k))
                    if QS is not None:
                        o['e_scal'] = max(o['e_scal'], ua(QS[i][j], G.mpf(float(QN[i][j])), k) if math.isfinite(float(QN[i][j])) else 2**30,
                                          ua(QS[i][j], k * nrm, k))
                o['bits_ok'] = bool(bits)
                if gi % 2 == 0:
                    for key in ('e_q', 'e_len', 'e_rot', 'e_cov', 'e_norm', 'e_scal'):
                        stats[key] = max(stats.get(key, 0), o[key])
            events.append({'ev': 'q', 'tid': len(events), 'b1': list(b1), 'n1': c['n1'], 'b2': c['b2'], 'n2': c['n2'],
                           'quat': list(quat), 'form': form, 'use': use,
                           'want': {'q': _rvec(ref['q']), 'rq': _rvec(ref['rq']),
                                    'four_sin2': G.reduce_frac(ref['four_sin2'].numerator, ref['four_sin2'].denominator)},
                           'o': o, 'unit': unit_b})
            ctx.case(nontrivial_id=repr(('q', b1, tuple(c['b2']), quat, use)) if returned else None)
    return len(groups)


# ------------------------------------------------------------------------------ hkl
def _mat_var(m, unit='dimensionless'):
    return sc.spatial.linear_transform(value=np.array(m, dtype='float64'), unit=unit)


def _frac_mat(a):
    return tuple(tuple(Fraction(float(x)) for x in row) for row in a)


def _solve_exact(A, v):
    """Cramer's rule with exact rationals: x = Adj(A) v / Det(A)."""
    d = G.det3(A)
    w = G.matvec(G.adj3(A), v)
    return tuple(x / d for x in w)


COL_SCALINGS = [(0, 0, 0), (3, 0, -3), (-2, 1, 2), (1, 0, -1), (-3, -3, -3), (-4, -4, -4), (3, 3, 3)]
COL_SCALINGS_THOROUGH = COL_SCALINGS + [(0, -3, 2), (-5, -5, -5), (-2, -3, -4)]
OTHER_ROTATIONS = [(1, 0, 0, 0), (1, 1, 0, 0), (1, 1, 1, 1), (2, 1, 0, 0), (1, 1, 1, 0), (0, 1, -1, 2)]  # = QVecCases!Q6


def _rot_var(q, var):
    m, n = G.quat_mat(q)
    if var == 'rotation3':
        return sc.spatial.rotation(value=np.array([q[1], q[2], q[3], q[0]], dtype='float64') / math.sqrt(n))
    return _mat_var(np.array(m, dtype='float64') / n)


def _hkl_error(hv_row, Aex, q_exact, cond):
    """forward error of one hkl row in units of eps * cond * |hkl| against the exact rational solution of
    (R_f UB_f) x = Q / (2 pi) for the float matrices actually used; Q exact rational in 1/angstrom"""
    two_pi = 2 * mpmath.pi
    xq = _solve_exact(Aex, q_exact)
    xm = [G.to_mpf(v) / two_pi for v in xq]
    nx = mpmath.sqrt(sum(v * v for v in xm))
    if not all(math.isfinite(float(v)) for v in hv_row):
        return 2**30
    err = mpmath.sqrt(sum((G.mpf(float(hv_row[a])) - xm[a]) ** 2 for a in range(3)))
    if nx == 0:
        return 0 if err == 0 else 2**30
    return G.units_of(err / (nx * cond), 2.0 ** -52)


def _q_for(Aex, h):
    """2 pi A h rounded once to floats (1/angstrom)"""
    two_pi = 2 * mpmath.pi
    v = G.matvec(Aex, tuple(Fraction(x) for x in h))
    return [float(two_pi * G.to_mpf(x)) for x in v]


def _replay_hkl(ctx, cases, events, stats, thorough, only_groups=None, use='first'):
    from scippneutron.conversion import tof

    # column-wise powers of ten (condition numbers up to 1e6) and uniform ones: a uniformly small / large B
    # (large / small unit cell) has a tiny / huge determinant at an unchanged condition number, so any
    # absolute threshold on det(UB) shows up
    col_scalings = COL_SCALINGS_THOROUGH if thorough else COL_SCALINGS
    # group by (qr, qu, B): hkl become an array
    groups = {}
    for c in cases:
        groups.setdefault((tuple(c['qr']), tuple(c['qu']), json.dumps(c['B'])), []).append(c)
    order = list(enumerate(sorted(groups.items())))
    if only_groups is not None:
        order = [order[i] for i in only_groups]
    for gi, ((qr, qu, bj), items) in order:
        B = json.loads(bj)
        mr, nr = G.quat_mat(qr)
        mu, nu = G.quat_mat(qu)
        ub_int = G.matmul(mu, B)
        hs = [tuple(c['h']) for c in items]

        def want_for(q_rot):
            m, n = G.quat_mat(q_rot)
            A = G.matmul(m, ub_int)
            return A, {'A': [list(r) for r in A], 'D': n * nu, 'ub': [list(r) for r in ub_int]}

        A_int, want = want_for(qr)
        for vi, var in enumerate(('matrix', 'rotation3')):
            exps = col_scalings[(gi + vi) % len(col_scalings)]
            # Q in 1/angstrom or (every third group) in 1/nm while B stays in 1/angstrom: hkl then carries the
            # scale 0.1 in its unit and value * scale is the index
            q_unit = '1/nm' if (gi + vi) % 3 == 1 else '1/angstrom'
            q_scale = 10.0 if q_unit == '1/nm' else 1.0
            extra = 2 if q_unit == '1/nm' else 0  # two more roundings: the unit scale applied by scipp
            # floats actually passed
            Bf = np.array([[B[r][c_] * 10.0 ** exps[c_] for c_ in range(3)] for r in range(3)])
            Uf = np.array(mu, dtype='float64') / nu
            Rf = np.array(mr, dtype='float64') / nr
            UBf_exact = G.matmul(_frac_mat(Uf), _frac_mat(Bf))
            other = None
            try:
                u_var, r_var = _rot_var(qu, var), _rot_var(qr, var)
                b_var = _mat_var(Bf, unit='1/angstrom')
                ub_var = tof.ub_matrix_from_u_and_b(u_matrix=u_var, b_matrix=b_var)
                ubv = np.array(ub_var.value, dtype='float64')
                # U*B: exact reference for the floats passed (matrix variant) / mpmath (quaternion variant)
                e_ub = 0
                # entrywise bound 3 eps sum_k |u_rk||b_kc| <= 3 eps colsum_c|B| (|u| <= 1); a quaternion
                # operand adds the rounding of the quaternion (entries of U off by a few eps)
                colsum = [sum(abs(Bf[k][c_]) for k in range(3)) for c_ in range(3)]
                for r in range(3):
                    for c_ in range(3):
                        ref = G.to_mpf(UBf_exact[r][c_]) if var == 'matrix' else \
                            sum(G.mpf(mu[r][k]) / nu * G.mpf(float(Bf[k][c_])) for k in range(3))
                        got = float(ubv[r][c_])
                        e_ub = max(e_ub, G.units_of((G.mpf(got) - ref) / colsum[c_], 2.0 ** -52) if math.isfinite(got) else 2**30)
                if e_ub >= 2**30:
                    raise _NonFinite('ub_matrix_from_u_and_b returned a non-finite entry')
                # small dyadic U (N in {1,2,4}) times unscaled integer B: every product and partial sum is
                # exactly representable, so U*B must be bit-for-bit the exact product
                ub_exact_required = var == 'matrix' and nu in (1, 2, 4) and tuple(exps) == (0, 0, 0)
                ub_bits_ok = all(Fraction(float(ubv[r][c_])) == UBf_exact[r][c_] for r in range(3) for c_ in range(3)) \
                    if ub_exact_required else True
                # the Q vectors: exact 2 pi R U B h for the floats of UB and R, rounded once
                ubf = _frac_mat(ubv)
                Aex = G.matmul(_frac_mat(Rf), ubf)
                qf = [[x * q_scale for x in _q_for(Aex, h)] for h in hs]
                q_var = sc.vectors(dims=['peak'], values=np.array(qf), unit=q_unit)
                before = [_bits(v) for v in (q_var, ub_var, r_var)]
                hkl = tof.hkl_vec_from_Q_vec(Q_vec=q_var, ub_matrix=ub_var, sample_rotation=r_var)
                kept = before == [_bits(v) for v in (q_var, ub_var, r_var)]
                raw = np.asarray(hkl.values).reshape(-1, 3)
                hv = np.asarray(hkl.to(unit='dimensionless').values).reshape(-1, 3)
                if hv.shape != (len(hs), 3):
                    raise _NonFinite(f'hkl_vec_from_Q_vec returned {hv.shape[0]} vectors for {len(hs)} peaks')
                parts = tof.hkl_elements_from_hkl_vec(hkl_vec=hkl)
                split_ok = all(np.array_equal(np.ascontiguousarray(parts[n].values).view('int64'),
                                              np.ascontiguousarray(raw[:, a]).view('int64')) and parts[n].unit == hkl.unit
                               for a, n in enumerate(('h', 'k', 'l')))
                # scalar operand
                h0 = tof.hkl_vec_from_Q_vec(Q_vec=sc.vector(qf[0], unit=q_unit), ub_matrix=ub_var, sample_rotation=r_var)
                h0v = np.asarray(h0.to(unit='dimensionless').value)
                scalar_same = np.array_equal(h0v, hv[0]) or bool(np.allclose(h0v, hv[0], rtol=1e-15, atol=0))
                # any unit that converts to 'dimensionless' is accepted for hkl (the conversion above succeeded)
                unit_ok = hkl.dtype == sc.DType.vector3 and ub_var.unit == sc.Unit('1/angstrom')
                cond = float(np.linalg.cond(Rf @ ubv))
                # the same UB object once more with ANOTHER goniometer rotation (a rotating crystal): what was
                # derived from UB in the first call must not be mistaken for something derived from R * UB
                q2 = next(q for q in OTHER_ROTATIONS[gi % len(OTHER_ROTATIONS):] + OTHER_ROTATIONS if tuple(q) != tuple(qr))
                m2, n2 = G.quat_mat(q2)
                R2f = np.array(m2, dtype='float64') / n2
                A2ex = G.matmul(_frac_mat(R2f), ubf)
                h_big = max(hs, key=lambda t: sum(x * x for x in t))
                q2f = [x * q_scale for x in _q_for(A2ex, h_big)]
                h2 = tof.hkl_vec_from_Q_vec(Q_vec=sc.vector(q2f, unit=q_unit), ub_matrix=ub_var, sample_rotation=_rot_var(q2, var))
                cond2 = float(np.linalg.cond(R2f @ ubv))
                other = {'q2': q2, 'A2ex': A2ex, 'q2f': q2f, 'h2v': np.asarray(h2.to(unit='dimensionless').value).reshape(3),
                         'cond2': cond2, 'unit_ok': h2.unit == hkl.unit}
                returned = True
            except Exception as e:  # noqa: BLE001
                returned = False
                ctx.violation(f'hkl kernels raised {type(e).__name__} ({var})' if not isinstance(e, _NonFinite)
                              else f'hkl kernels returned a malformed result ({var})',
                              {'exc': repr(e), 'qr': qr, 'qu': qu, 'B': B, 'exps': exps, 'q_unit': q_unit})
            for i, (c, h) in enumerate(zip(items, hs)):
                o = {'returned': returned, 'unit_ok': False, 'e_ub': 0, 'ub_bits_ok': False, 'e_hkl': 0, 'split_ok': False,
                     'inputs_kept': False}
                if returned:
                    o['unit_ok'] = bool(unit_ok)
                    o['e_ub'] = int(e_ub)
                    o['ub_bits_ok'] = bool(ub_bits_ok)
                    o['split_ok'] = bool(split_ok and (i != 0 or scalar_same))
                    o['inputs_kept'] = bool(kept)
                    if cond <= 2e6:
                        # exact solution for the floats passed: x = (R_f UB_f)^-1 Q_f / (2 pi)
                        o['e_hkl'] = _hkl_error(hv[i], Aex, tuple(Fraction(v) / Fraction(q_scale) for v in qf[i]), cond)
                        if use == 'first':
                            stats['e_hkl'] = max(stats.get('e_hkl', 0), o['e_hkl'])
                            stats['cond_max'] = max(stats.get('cond_max', 0), cond)
                    stats['e_ub'] = max(stats.get('e_ub', 0), o['e_ub'])
                qlab = [int(x) for x in G.matvec(A_int, h)]
                events.append({'ev': 'hkl', 'tid': len(events), 'qr': list(qr), 'qu': list(qu), 'B': B, 'h': list(h),
                               'var': var, 'quat_operands': var == 'rotation3', 'extra': extra, 'use': use, 'q_unit': q_unit,
                               'exps': list(exps), 'want': dict(want, qlab=qlab), 'o': o})
                ctx.case(nontrivial_id=repr(('hkl', qr, qu, bj, h, var, use)) if returned else None)
            if returned and other is not None and use == 'first':
                A2_int, want2 = want_for(other['q2'])
                h = max(hs, key=lambda t: sum(x * x for x in t))
                o = {'returned': True, 'unit_ok': bool(other['unit_ok']), 'e_ub': 0, 'ub_bits_ok': True, 'e_hkl': 0,
                     'split_ok': True, 'inputs_kept': True}
                if other['cond2'] <= 2e6:
                    o['e_hkl'] = _hkl_error(other['h2v'], other['A2ex'], tuple(Fraction(v) / Fraction(q_scale) for v in other['q2f']),
                                            other['cond2'])
                events.append({'ev': 'hkl', 'tid': len(events), 'qr': list(other['q2']), 'qu': list(qu), 'B': B, 'h': list(h),
                               'var': 'same_ub_other_rotation', 'quat_operands': var == 'rotation3', 'extra': extra,
                               'use': use, 'q_unit': q_unit, 'exps': list(exps),
                               'want': dict(want2, qlab=[int(x) for x in G.matvec(A2_int, h)]), 'o': o})
                ctx.case(nontrivial_id=repr(('hkl-other-rotation', qr, qu, bj, var)))
    return len(groups)


class _NonFinite(Exception):
    """a malformed (non-finite, wrongly shaped) result of the implementation noticed by the driver"""


def _replay_hkl_arrays(ctx, cases, events, stats, n):
    """R, U and B as one matrix PER PEAK (arrays of transforms aligned with the Q vectors): a seeded sample of
    the exported (R, U, B, hkl) cases, each with its own column scaling, evaluated in one call."""
    from scippneutron.conversion import tof

    rng = ctx.rng
    sample = [cases[rng.randrange(len(cases))] for _ in range(n)]
    exps_l = [COL_SCALINGS[rng.randrange(len(COL_SCALINGS))] for _ in range(n)]
    Rf, Uf, Bf = [], [], []
    for c, exps in zip(sample, exps_l):
        mr, nr = G.quat_mat(c['qr'])
        mu, nu = G.quat_mat(c['qu'])
        Rf.append(np.array(mr, dtype='float64') / nr)
        Uf.append(np.array(mu, dtype='float64') / nu)
        Bf.append(np.array([[c['B'][r][k] * 10.0 ** exps[k] for k in range(3)] for r in range(3)]))
    try:
        r_var = sc.spatial.linear_transforms(dims=['peak'], values=np.array(Rf))
        u_var = sc.spatial.linear_transforms(dims=['peak'], values=np.array(Uf))
        b_var = sc.spatial.linear_transforms(dims=['peak'], values=np.array(Bf), unit='1/angstrom')
        ub_var = tof.ub_matrix_from_u_and_b(u_matrix=u_var, b_matrix=b_var)
        ubv = np.asarray(ub_var.values, dtype='float64')
        if ubv.shape != (n, 3, 3) or not np.isfinite(ubv).all():
            raise _NonFinite(f'ub_matrix_from_u_and_b returned shape {ubv.shape} / non-finite entries')
        Aex = [G.matmul(_frac_mat(Rf[p]), _frac_mat(ubv[p])) for p in range(n)]
        qf = [_q_for(Aex[p], sample[p]['h']) for p in range(n)]
        q_var = sc.vectors(dims=['peak'], values=np.array(qf), unit='1/angstrom')
        hkl = tof.hkl_vec_from_Q_vec(Q_vec=q_var, ub_matrix=ub_var, sample_rotation=r_var)
        hv = np.asarray(hkl.values).reshape(-1, 3)
        if hv.shape != (n, 3):
            raise _NonFinite(f'hkl_vec_from_Q_vec returned {hv.shape[0]} vectors for {n} peaks')
        parts = tof.hkl_elements_from_hkl_vec(hkl_vec=hkl)
        split_ok = all(np.array_equal(np.ascontiguousarray(parts[nm].values).view('int64'),
                                      np.ascontiguousarray(hv[:, a]).view('int64')) for a, nm in enumerate(('h', 'k', 'l')))
        unit_ok = hkl.unit == sc.Unit('dimensionless') and hkl.dtype == sc.DType.vector3 and ub_var.unit == sc.Unit('1/angstrom')
        returned = True
    except Exception as e:  # noqa: BLE001
        returned = False
        ctx.violation(f'hkl kernels raised {type(e).__name__} (one matrix per peak)' if not isinstance(e, _NonFinite)
                      else 'hkl kernels returned a malformed result (one matrix per peak)', {'exc': repr(e)})
    for p, (c, exps) in enumerate(zip(sample, exps_l)):
        mu, nu = G.quat_mat(c['qu'])
        mr, nr = G.quat_mat(c['qr'])
        ub_int = G.matmul(mu, c['B'])
        A_int = G.matmul(mr, ub_int)
        o = {'returned': returned, 'unit_ok': False, 'e_ub': 0, 'ub_bits_ok': returned, 'e_hkl': 0, 'split_ok': False,
             'inputs_kept': returned}
        if returned:
            o['unit_ok'], o['split_ok'] = bool(unit_ok), bool(split_ok)
            UBx = G.matmul(_frac_mat(Uf[p]), _frac_mat(Bf[p]))
            colsum = [sum(abs(Bf[p][k][c_]) for k in range(3)) for c_ in range(3)]
            o['e_ub'] = max(G.units_of((G.mpf(float(ubv[p][r][c_])) - G.to_mpf(UBx[r][c_])) / colsum[c_], 2.0 ** -52)
                            for r in range(3) for c_ in range(3))
            cond = float(np.linalg.cond(Rf[p] @ ubv[p]))
            if cond <= 2e6:
                o['e_hkl'] = _hkl_error(hv[p], Aex[p], tuple(Fraction(v) for v in qf[p]), cond)
                stats['e_hkl_per_peak'] = max(stats.get('e_hkl_per_peak', 0), o['e_hkl'])
        events.append({'ev': 'hkl', 'tid': len(events), 'qr': c['qr'], 'qu': c['qu'], 'B': c['B'], 'h': c['h'],
                       'var': 'per_peak_arrays', 'quat_operands': False, 'extra': 0, 'use': 'first', 'q_unit': '1/angstrom',
                       'exps': list(exps),
                       'want': {'A': [list(r) for r in A_int], 'D': nr * nu, 'ub': [list(r) for r in ub_int],
                                'qlab': [int(x) for x in G.matvec(A_int, c['h'])]}, 'o': o})
        ctx.case(nontrivial_id=repr(('hkl-per-peak', p)) if returned else None)


def _replay_graph(ctx, gcases, events, stats):
    """The coordinate-graph route of conversion.graph: positions + wavelength + U, B, R as coordinates of a data
    array -> transform_coords(elastic_hkl) -> Qx,Qy,Qz -> Q_vec -> ub_matrix -> hkl_vec -> h,k,l, all
    intermediate coordinates kept and looked at.  lambda * hkl is the exact rational vector of the spec
    (QVecDefs!HklTimesLambda); the float reference solves exactly for the rounded R and the U*B the graph
    itself produced.  Bound: the Q fed to the inversion carries the kernel's own error (<= 16 eps k per
    component, 28 eps k in norm), which the inverse turns into <= 28 eps |A^-1| / lambda, plus the inversion's
    own 32 eps cond |hkl| (48 with quaternion operands): err <= 64 eps (cond |hkl| + |A^-1| / lambda)."""
    from scippneutron.conversion.graph import beamline as gb
    from scippneutron.conversion.graph import tof as gt

    two_pi = 2 * mpmath.pi
    groups = {}
    for c in gcases:
        groups.setdefault((tuple(c['qr']), tuple(c['qu']), json.dumps(c['B']), tuple(c['b1'])), []).append(c)
    for gi, ((qr, qu, bj, b1), items) in enumerate(sorted(groups.items())):
        B = json.loads(bj)
        unit = 'nm' if gi % 4 == 1 else 'angstrom'
        dtype = 'int64' if gi % 5 == 2 else 'float64'
        var = 'rotation3' if gi % 2 else 'matrix'
        lams = LAMS_OF[dtype, unit]
        to_ang = 10 if unit == 'nm' else 1
        mr, nr = G.quat_mat(qr)
        mu, nu = G.quat_mat(qu)
        A_int = G.matmul(mr, G.matmul(mu, B))
        D = nr * nu
        Rf = np.array(mr, dtype='float64') / nr
        smp = np.array([0.5, -1.0, 2.0]) if gi % 2 else np.zeros(3)
        b2s = np.array([c['b2'] for c in items], dtype='float64')
        nd, nl = len(items), len(lams)
        returned = True
        try:
            da = sc.DataArray(
                sc.ones(dims=['det', 'wavelength'], shape=[nd, nl]),
                coords={'position': sc.vectors(dims=['det'], values=smp + 2.0 * b2s, unit='m'),
                        'sample_position': sc.vector(smp, unit='m'),
                        'source_position': sc.vector(smp - 3.0 * np.array(b1, dtype='float64'), unit='m'),
                        'wavelength': sc.array(dims=['wavelength'], values=np.array(lams, dtype=dtype), unit=unit, dtype=dtype),
                        'u_matrix': _rot_var(qu, var), 'b_matrix': _mat_var(np.array(B, dtype='float64'), unit='1/angstrom'),
                        'sample_rotation': _rot_var(qr, var)})
            t = da.transform_coords(['hkl_vec', 'h', 'k', 'l'], graph={**gb.beamline(scatter=True), **gt.elastic_hkl('wavelength')},
                                    keep_intermediate=True, keep_inputs=True, rename_dims=False)
            qv = t.coords['Q_vec']
            hk = t.coords['hkl_vec']
            QV = np.asarray(qv.transpose(['det', 'wavelength']).values)
            HR = np.asarray(hk.transpose(['det', 'wavelength']).values)
            HV = np.asarray(hk.to(unit='dimensionless').transpose(['det', 'wavelength']).values)
            ubv = np.array(t.coords['ub_matrix'].value, dtype='float64')
            if QV.shape != (nd, nl, 3) or HV.shape != (nd, nl, 3) or not np.isfinite(ubv).all():
                raise _NonFinite('graph results of unexpected shape / non-finite U*B')
            split_ok = all(np.array_equal(np.ascontiguousarray(t.coords[n].transpose(['det', 'wavelength']).values).view('int64'),
                                          np.ascontiguousarray(HR[:, :, a]).view('int64')) and t.coords[n].unit == hk.unit
                           for a, n in enumerate(('h', 'k', 'l')))
            elems_ok = all(np.array_equal(np.ascontiguousarray(t.coords[n].transpose(['det', 'wavelength']).values).view('int64'),
                                          np.ascontiguousarray(QV[:, :, a]).view('int64')) for a, n in enumerate(('Qx', 'Qy', 'Qz')))
            unit_ok = qv.unit == sc.Unit('1/' + unit) and qv.dtype == sc.DType.vector3 and hk.dtype == sc.DType.vector3
            M = Rf @ ubv
            sv = np.linalg.svd(M, compute_uv=False)
            cond, inv_norm = float(sv[0] / sv[-1]), float(1.0 / sv[-1])
            Aex = G.matmul(_frac_mat(Rf), _frac_mat(ubv))
        except Exception as e:  # noqa: BLE001
            returned = False
            ctx.violation(f'coordinate graph elastic_hkl raised {type(e).__name__}' if not isinstance(e, _NonFinite)
                          else 'coordinate graph elastic_hkl returned a malformed result',
                          {'exc': repr(e), 'qr': qr, 'qu': qu, 'B': B, 'wavelength_unit': unit, 'dtype': dtype})
        for i, c in enumerate(items):
            n1, n2 = c['n1'], c['n2']
            qdir = tuple(Fraction(a, n1) - Fraction(b, n2) for a, b in zip(b1, c['b2']))
            mine = _solve_exact(tuple(tuple(Fraction(x, D) for x in row) for row in A_int), qdir)
            o = {'returned': returned, 'unit_ok': False, 'e_q': 0, 'e_hkl': 0, 'split_ok': False}
            if returned:
                o['unit_ok'] = bool(unit_ok)
                o['split_ok'] = bool(split_ok and elems_ok)
                xl = _solve_exact(Aex, qdir)  # lambda[angstrom] * hkl for the float matrices used
                for j, lam in enumerate(lams):
                    lam_f = Fraction(lam)
                    k = two_pi / G.to_mpf(lam_f)  # 1/unit
                    for a in range(3):
                        got = float(QV[i][j][a])
                        o['e_q'] = max(o['e_q'], G.units_of((G.mpf(got) - k * G.to_mpf(qdir[a])) / k, HALF) if math.isfinite(got) else 2**30)
                    lam_ang = G.to_mpf(lam_f * to_ang)
                    xm = [G.to_mpf(v) / lam_ang for v in xl]
                    nx = mpmath.sqrt(sum(v * v for v in xm))
                    if not np.isfinite(HV[i][j]).all():
                        o['e_hkl'] = 2**30
                        continue
                    err = mpmath.sqrt(sum((G.mpf(float(HV[i][j][a])) - xm[a]) ** 2 for a in range(3)))
                    o['e_hkl'] = max(o['e_hkl'], G.units_of(err / (cond * nx + inv_norm / lam_ang), 2.0 ** -52))
                stats['e_hkl_graph'] = max(stats.get('e_hkl_graph', 0), o['e_hkl'])
            events.append({'ev': 'graph', 'tid': len(events), 'qr': list(qr), 'qu': list(qu), 'B': B, 'b1': list(b1), 'n1': n1,
                           'b2': c['b2'], 'n2': n2, 'want': {'x': _rvec(mine), 'qdir': _rvec(qdir)}, 'var': var,
                           'wl_unit': unit, 'wl_dtype': dtype, 'o': o})
            ctx.case(nontrivial_id=repr(('graph', qr, qu, bj, b1, tuple(c['b2']))) if returned else None)


def _replay_split(ctx, events, n):
    """Splitting into components and reassembling is lossless: bit patterns (signed zeros, NaN payloads,
    subnormals, infinities), unit (also a scaled 'dimensionless' such as angstrom/nm) and shape, for 0-d, 1-d,
    strided, 2-d and transposed 2-d operands."""
    from scippneutron.conversion import tof

    rng = ctx.rng
    nan_payload = float(np.array([0x7ff8000000000123], dtype='uint64').view('float64')[0])
    neg_nan = float(np.array([0xfff8000000000001], dtype='uint64').view('float64')[0])
    specials = [0.0, -0.0, 5e-324, -2.2250738585072014e-308, 1.7976931348623157e308, math.inf, -math.inf, 1 / 3, math.pi,
                nan_payload, neg_nan]
    units = ('1/angstrom', 'dimensionless', 'angstrom/nm')
    for t in range(n):
        m = rng.choice([1, 2, 7, 64])
        vals = np.array([[rng.choice(specials) if rng.random() < 0.3 else rng.uniform(-1, 1) * 10.0 ** rng.uniform(-300, 300)
                          for _ in range(3)] for _ in range(m)])
        unit = units[t % 3]
        kind = ('scalar', 'flat', 'flat', 'strided', 'grid', 'grid_transposed')[t % 6]
        try:
            if kind == 'scalar':
                v, vv, dims = sc.vector(vals[0], unit=unit), vals[:1], []
            elif kind == 'flat':
                v, vv, dims = sc.vectors(dims=['p'], values=vals, unit=unit), vals, ['p']
            elif kind == 'strided':
                big = np.full((m, 2, 3), 7.25)
                big[:, 0, :] = vals
                v, vv, dims = sc.vectors(dims=['p', 'lane'], values=big, unit=unit)['lane', 0], vals, ['p']
            else:
                g = np.concatenate([vals, vals[::-1]]).reshape(2, m, 3)
                v, vv, dims = sc.vectors(dims=['a', 'p'], values=g, unit=unit), g.reshape(-1, 3), ['a', 'p']
                if kind == 'grid_transposed':
                    v = v.transpose(['p', 'a'])  # a non-contiguous view with the dims in the other order
            before = _bits(v)
            parts = tof.hkl_elements_from_hkl_vec(hkl_vec=v)
            back = tof.Q_vec_from_Q_elements(Qx=parts['h'], Qy=parts['k'], Qz=parts['l'])

            def flat(x, vec):
                x = x.transpose(dims) if len(dims) > 1 else x
                a = np.ascontiguousarray(np.asarray(x.values))
                return a.reshape(-1, 3) if vec else a.reshape(-1)

            if set(back.dims) != set(dims) or any(set(parts[nm].dims) != set(dims) for nm in 'hkl'):
                raise _NonFinite(f'split / reassembly changed the dims: {back.dims}')
            got = flat(back, True)
            ok = got.shape == vv.shape and np.array_equal(got.view('int64'), np.ascontiguousarray(vv).view('int64'))
            ok = ok and all(np.array_equal(flat(parts[nm], False).view('int64'), np.ascontiguousarray(vv[:, a]).view('int64'))
                            for a, nm in enumerate(('h', 'k', 'l')))
            ok = ok and back.unit == v.unit and back.dtype == sc.DType.vector3 and all(parts[nm].unit == v.unit for nm in 'hkl')
            ok = ok and before == _bits(v)
            events.append({'ev': 'split', 'tid': len(events), 'n': int(len(vv)), 'returned': True, 'bits_ok': bool(ok),
                           'kind': kind, 'unit': unit})
        except Exception as e:  # noqa: BLE001
            ctx.violation(f'split/reassemble raised {type(e).__name__}' if not isinstance(e, _NonFinite)
                          else 'split/reassemble returned other dims', {'exc': repr(e), 'kind': kind, 'unit': unit})
            events.append({'ev': 'split', 'tid': len(events), 'n': int(m), 'returned': False, 'bits_ok': False,
                           'kind': kind, 'unit': unit})
        ctx.case(nontrivial_id=repr(('split', t)))


def _key(ev, clause):
    second = '' if ev.get('use', 'first') == 'first' else ' [second use]'
    if ev['ev'] == 'q':
        default = ev['form'] == Q_FORMS[0]
        return f'Q vector: {clause}' + ('' if default else ' [non-default operand form]') + second
    if ev['ev'] == 'hkl':
        if ev['var'] == 'per_peak_arrays':
            return f'hkl (one R, U, B per peak): {clause}'
        if ev['var'] == 'same_ub_other_rotation':
            return f'hkl (same UB again with another sample rotation): {clause}'
        scaled = '' if ev['q_unit'] == '1/angstrom' else ' [Q in 1/nm, B in 1/angstrom]'
        return f'hkl ({ev["var"]} rotation operands): {clause}' + scaled + second
    if ev['ev'] == 'graph':
        return f'coordinate graph elastic_hkl: {clause}'
    return f'{ev["ev"]}: {clause}'


def run(ctx):
    ctx.rule = RULE
    ctx.assume('beams are integer vectors with integer norm times exactly representable factors, so the floats '
               'passed are exactly the spec values; wavelengths are arbitrary floats taken as exact rationals')
    ctx.assume('hkl reference = exact rational solution for the float matrices actually passed (the rounded '
               'rotation and U*B), so only the kernel\'s own arithmetic is judged; cond_2 is estimated with numpy')
    thorough = ctx.thorough

    # ---- 1. design
    res = ctx.tlc('conv/MC_QVec.tla', 'MC_QVec_thorough.cfg' if thorough else 'MC_QVec.cfg', workers=WORKERS, timeout=2400)
    require_ok(ctx, res, 'QVec model')
    res = ctx.tlc('conv/MC_QVecHkl.tla', 'MC_QVecHkl_thorough.cfg' if thorough else 'MC_QVecHkl.cfg', workers=WORKERS,
                  timeout=2400)
    require_ok(ctx, res, 'QVecHkl model')
    for mod, neg in (('MC_QVec', 'Neg_QVec_unnormalised'), ('MC_QVec', 'Neg_QVec_kf_minus_ki'),
                     ('MC_QVecHkl', 'Neg_QVecHkl_order'), ('MC_QVecHkl', 'Neg_QVecHkl_no_rotation'),
                     ('MC_QVecHkl', 'Neg_QVecHkl_stale_rotation')):
        ctx.tlc(f'conv/{mod}.tla', f'{neg}.cfg', workers=WORKERS, expect_error=True, timeout=300)

    # ---- 2. cases
    out = ctx.tmp / 'c08-cases.ndjson'
    cres = ctx.tlc('conv/QVecCases.tla', 'QVecCases_thorough.cfg' if thorough else 'QVecCases.cfg', workers=1,
                   env={'OUT_FILE': str(out)}, timeout=900, count=False)
    require_ok(ctx, cres, 'QVecCases export')
    recs = [json.loads(line) for line in open(out)]
    tag = cres.tagged('CASES')
    if not tag or sum(tag[0][1:]) != len(recs):
        raise MachineryError(f'case export incomplete: {tag} vs {len(recs)}')
    qcases = [r for r in recs if r['kind'] == 'q']
    hcases = [r for r in recs if r['kind'] == 'hkl']
    gcases = [r for r in recs if r['kind'] == 'graph']
    ctx.extra['cases_exported'] = {'q': len(qcases), 'hkl': len(hcases), 'graph': len(gcases)}

    events, stats = [], {}
    n_qgroups = _replay_q(ctx, qcases, events, stats)
    nq = len(events)
    n_hgroups = _replay_hkl(ctx, hcases, events, stats, thorough)
    _replay_hkl_arrays(ctx, hcases, events, stats, 1200 if thorough else 300)
    _replay_graph(ctx, gcases, events, stats)
    _replay_split(ctx, events, 480 if thorough else 120)
    # second use (HARDENING item 6): a sample of this run's own groups once more, in reverse order
    _replay_hkl(ctx, hcases, events, stats, thorough, only_groups=list(range(n_hgroups - 1, -1, -9)), use='again')
    _replay_q(ctx, qcases, events, stats, only_groups=list(range(n_qgroups - 1, -1, -7)), use='again')
    ctx.extra['worst_errors_in_units'] = stats
    ctx.extra['tolerances_in_units'] = {'e_q/e_len/e_rot': 32, 'e_norm/e_scal': 48, 'e_cov': 96, 'e_hkl': '32 (48 rotation3)',
                                        'e_ub': 16}
    for e in (events[0], events[nq], events[-1]):
        ctx.sample(e)

    # ---- 3. TLC judges
    tf = ctx.tmp / 'c08.ndjson'
    write_ndjson(tf, events)
    tr = ctx.tlc('conv/Trace_QVec.tla', workers=1, env={'TRACE_FILE': str(tf)}, timeout=2400)
    require_ok(ctx, tr, 'Trace_QVec')
    done = tr.tagged('DONE')
    if not done or done[0][1] != len(events):
        raise MachineryError(f'trace validation incomplete: {done} vs {len(events)} events')
    ctx.traces(len(events))
    for rej in tr.tagged('REJECT'):
        _, line, _tid, clause = rej
        ev = events[line - 1]
        if clause.startswith('harness_') or clause in ('invalid_case', 'unknown_event', 'cramer_solution_is_not_hkl', 'unknown_form'):
            raise MachineryError(f'harness and specification disagree ({clause}) on event {ev}')
        ctx.violation(_key(ev, clause), {'event': ev})


META = {
    'design_ref': 'DESIGN.md §5 C08',
    'technique': 'TLA+ models of the Q-vector (beams with integer norm, rational rotations) and of the hkl inverse '
                 '(integer R U B over an integer denominator, Cramer) model-checked by TLC; TLC-enumerated cases '
                 'replayed into the real kernels; every replay recorded and judged by TLC (Trace_QVec)',
    'text': 'TLC proves |e_i - e_f|^2 = 4 sin^2 theta, independence of beam lengths, covariance under rational '
            'rotations, Solve(R UB, 2 pi R UB hkl) = hkl, associativity and split/reassemble on the grid.  The '
            'kernels are evaluated on every exported case (scalar and array operands, wavelengths 0.01..100 '
            'angstrom, rescaled beams, B up to cond 1e6, R as quaternion and as matrix) and compared with the '
            'spec\'s exact rationals times 2 pi / lambda (mpmath); TLC re-derives the harness\' references.',
    'note': 'Trusted: TLC, mpmath, scipp, numpy (condition number estimate only). Rounding bounds are checked on '
            'finitely many points; B with cond 1e6 is beyond TLC integers and handled by the harness exactly.',
}
