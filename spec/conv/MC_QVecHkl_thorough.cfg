SPECIFICATION Spec
CONSTANTS
  Quats <- MC_Quats_thorough
  Bs <- MC_Bs
  Hkls <- MC_Hkls_thorough
  Bug = "none"
INVARIANT NonSingular
INVARIANT HklInverse
INVARIANT UBProduct
INVARIANT RotationKeepsNorm
INVARIANT Lossless
INVARIANT NoHistory
INVARIANT GraphRoute
CHECK_DEADLOCK FALSE
