--------------------------- MODULE SqwContentDefs ---------------------------
(* Abstract content of an SQW file, as functions of what was supplied to the builder.         *)
(* Floats never appear: every supplied value is represented by a VALUE-ID.  Pixel p           *)
(* (1-based) of row r (1..9) has id 9 (p-1) + r, which is also its position in the file        *)
(* (the pixel block is a 9 x N column-major array, i.e. pixel-major).  The harness maps the   *)
(* decoded float32 numbers back to ids by bit-exact comparison with the once-rounded expected *)
(* value (refinement mapping, see harness/lib_sqw.py).                                         *)
EXTENDS Integers, Sequences, FiniteSets

NRows == 9
PixId(p, r) == NRows * (p - 1) + r

(* the pixel block, in file order *)
PixelTable(n) == [k \in 1..(NRows * n) |-> k]

(* run-length encoding of a sequence of ids into maximal runs <<first, length>> of consecutive  *)
(* ids, defined declaratively: `runs` encodes `s` iff expanding it gives s and no two          *)
(* neighbouring runs could be merged                                                            *)
RECURSIVE StartOf(_, _)
StartOf(runs, j) == IF j = 1 THEN 0 ELSE StartOf(runs, j - 1) + runs[j-1][2]
TotalOf(runs) == IF runs = <<>> THEN 0 ELSE StartOf(runs, Len(runs)) + runs[Len(runs)][2]
Expand(runs) ==
    [k \in 1..TotalOf(runs) |->
        LET j == CHOOSE i \in 1..Len(runs) : StartOf(runs, i) < k /\ k <= StartOf(runs, i) + runs[i][2]
        IN runs[j][1] + (k - StartOf(runs, j) - 1)]
IsRunsOf(runs, s) ==
    /\ \A j \in 1..Len(runs) : runs[j][2] >= 1
    /\ \A j \in 2..Len(runs) : runs[j][1] # runs[j-1][1] + runs[j-1][2]
    /\ Expand(runs) = s
(* all N pixels, in order, nothing else: a single run <<1, 9N>> *)
ExpectedRuns(n) == IF n = 0 THEN <<>> ELSE << <<1, NRows * n>> >>

(* experiments: run ids are 0-based in the API and 1-based in the file *)
FileRunIds(supplied) == [i \in 1..Len(supplied) |-> supplied[i] + 1]
(* instrument / sample containers: one shared object, referenced (1-based) by every run *)
ContainerIdx(nruns) == [i \in 1..nruns |-> 1]

(* ---- physical dimension each field is WRITTEN in (format description / Horace) ------------- *)
WrittenDim(f) ==
    CASE f \in {"alatt", "proj_alatt"} -> "length"                 \* lattice spacings, angstrom
      [] f \in {"angdeg", "proj_angdeg", "psi", "omega", "dpsi", "gl", "gs"} -> "angle"
      [] f \in {"efix", "en", "img_scales_e", "img_range_e", "axes_offset_e", "proj_offset_e"} -> "energy"
      [] f \in {"img_scales_q", "img_range_q", "axes_offset_q", "proj_offset_q",
                "proj_u", "proj_v", "proj_w"} -> "inverse_length"
      [] f \in {"exp_u", "exp_v"} -> "dimensionless"                 \* supplied without unit
      [] OTHER -> "none"

(* a returned value may carry no unit at all; if it carries one, it has the written dimension *)
DimOK(f, d) == d = "none" \/ d = WrittenDim(f)

Range(s) == {s[i] : i \in 1..Len(s)}
MinOf(S) == CHOOSE x \in S : \A y \in S : x <= y
MaxOf(S) == CHOOSE x \in S : \A y \in S : x >= y
=============================================================================
