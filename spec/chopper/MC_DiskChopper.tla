--------------------------- MODULE MC_DiskChopper ---------------------------
EXTENDS DiskChopper
(* phases over several turns of either sign; beam positions; ratios 1/4 .. 8 plus           *)
(* out-of-phase ratios                                                                      *)
MC_Phases12 == {-17, -5, 0, 7, 30}
MC_PhasesQ  == {-17, 7, 30}
MC_Ratios   == {<<1,4>>, <<1,3>>, <<1,2>>, <<1,1>>, <<2,1>>, <<3,1>>, <<4,1>>, <<8,1>>,
                <<3,2>>, <<2,3>>}
MC_RatiosQ  == {<<1,3>>, <<1,2>>, <<1,1>>, <<2,1>>, <<3,1>>, <<3,2>>}
MC_BeamSim   == 0..359
MC_PhasesSim == (-1080)..1080
=============================================================================
