"""C13 — SQW content is what was supplied: pixels, run metadata, histogram metadata.

Spec: spec/sqw/SqwContentDefs.tla (declarative content on value-ids: pixel table, run-length encoding,
1-based run ids, container indices, physical dimension every field is written in),
SqwContent.tla (how the content reaches the file step by step: metadata, chunked pixel writes, run
records, containers, read-back) and Trace_SqwContent.tla (judge of decoded files).

1. TLC, exhaustive over pixel counts x chunk sizes x run-id lists x value orders: the chunked writer
   produces exactly the declarative pixel table (all pixels, in order, never out of order while
   writing), metadata min/max, 1-based run ids, all-ones container indices with one shared object and
   a loss-free read-back.  Five negative controls must be rejected (loop bounded by the row count,
   stale slice offset, 0-based run ids, 0-based container index, range from the first chunk only).
2. Conformance: every (pixel count, chunk) of the model and seeded random configurations (0..1e5
   pixels of arbitrary finite doubles in input units convertible to the row units, float32 / integer
   rows, chunk 1..1e5 or default, 1..20 runs direct/indirect, deg/rad angles, ASCII strings of any
   length incl. empty, both byte orders, BytesIO and real files) are written with the real builder.
   Each file is decoded twice: by the independent decoder (harness/sqwdecode.py) and by
   Sqw.read_data_block for every block.  Floats are compared by the harness and reach TLC as
   value-ids / flags:
     * pixel values: bit-exact equality with the exact product (binary input x decimal unit factor)
       rounded ONCE to float32; inside a guard band of 2^-46 (relative) around a float32 rounding
       boundary both neighbours are accepted, because the float64 product the code necessarily forms
       first is only accurate to a few ulp(f64) (scipp's own factor for 1/nm -> 1/angstrom is 1 ulp
       off 0.1); same-unit rows need no band.
     * float64 metadata: exact when no conversion is involved, <= 4 ulp(f64) of the exact rational /
       mpmath value otherwise (one rounding of the factor, one of the product, slack 2).
   TLC (Trace_SqwContent) then validates every block event against the declarative content: id runs
   = <<1, 9N>>, counts, index bases, shared objects, shapes, and `reader dimension = written dimension`
   for every field the package's reader labels with a unit.
3. How things are handed over varies without changing WHAT is supplied: integer-typed (int64 / int32)
   and float32 energies, angles, scales, ranges, offsets, bin counts and display axes; float32 momentum
   rows in the unit of the file; the pixel table as a slice / every second element / a column of a
   larger array; another dimension name; run ids in decreasing or arbitrary order; blank-edged and
   number-like strings; header n_dims 0..4; the byte order as enum member; a path that already holds a
   longer file; create() called twice.
4. History (the model's Rebuild step and `held` variable; negative controls "inplace", "sortruns"):
   an unjudged first file is written from single-precision rows in convertible units before anything
   is judged; every few configurations a SECOND file is built from the very same parameter objects
   (other target, byte order, chunk, call order); every block is read twice from the same open file,
   first in reversed table order, and the second read must equal the first; at the end a sample of the
   configurations is written and judged again in reversed order.
"""

from __future__ import annotations

import os

from .. import lib_sqw as L
from .. import sqwdecode as D
from ..core import MachineryError
from ..tlc import require_actions, require_ok, write_ndjson

WORKERS = int(os.environ.get('VERIF_TLC_WORKERS', '16'))  # fewer while sharing the machine

RULE = ('configuration = (builder calls, N pixels with per-row value kind / input unit / dtype, chunk, runs with '
        'direct or indirect mode and deg/rad angles, sample, instrument, histogram metadata, strings, byte order, '
        'target); non-trivial = file holds pixel data with N > 0 or at least one of instrument / sample / histogram '
        'metadata; every block is decoded by two independent decoders')

BLOCK_OF = {'main': 'main_header', 'pix': 'pix data_wrap', 'pixmeta': 'pix metadata', 'exp': 'expdata',
            'dndmeta': 'data metadata', 'dnd': 'data nd_data'}
PIX_KINDS = ('pix',)


def _brief(cfg):
    return {k: cfg.get(k) for k in ('calls', 'npix', 'nruns', 'chunk', 'bo', 'where', 'n_dims', 'prev', 'twice',
                                    'pix_view', 'pix_dim', 'bo_enum')} | {
        'pix_recipe': cfg['pix'], 'emode': cfg['exps'][0]['emode'], 'energy_class': L.energy_class(cfg), 'samp': cfg['samp'],
        'title_len': len(cfg['title']), 'run_ids': [e['run_id'] for e in cfg['exps']],
        'exp_num': [e.get('num') for e in cfg['exps']], 'dnd_num': cfg['dnd'].get('num'),
        'nbins_dt': cfg['dnd'].get('nbins_dt'), 'dax_dt': cfg['dnd'].get('dax_dt')}


HISTORY = {1: '', 2: ' [second file built from the same parameter objects]', 3: ' [written again at the end of the run]'}


def _one_file(ctx, cfg, tid, events, cfgs, objs=None, gen=1):
    """Build, decode twice, append the events.  Returns the parameter objects handed to the builder."""
    b = L.build_file(cfg, ctx.tmp, f'c{tid}', objs=objs)
    if b.error is not None:
        ctx.violation(f'SqwBuilder raised {type(b.error).__name__} for an admissible configuration '
                      f'[{L.input_class(cfg)}]{HISTORY[gen]}', {'cfg': _brief(cfg), 'exc': repr(b.error)})
        L.cleanup(b)
        return
    dec = D.decode_file(b.data)
    op = L.open_package(b, read_blocks=True)
    if op['out'] != 'ok' or dec.error:
        ctx.violation('file cannot be opened / table cannot be parsed' + HISTORY[gen],
                      {'cfg': _brief(cfg), 'open': op.get('exc'), 'decoder': dec.error})
        L.cleanup(b)
        return
    evs = [L.normalise_event(e) for e in L.content_events(b, dec, op, tid)]
    for e in evs:
        e['gen'] = gen
    L.cleanup(b)
    events.extend(evs)
    cfgs[tid] = cfg
    nontrivial = ('pix' in cfg['calls'] and cfg['npix'] > 0) or bool({'inst', 'samp', 'dnd'} & set(cfg['calls']))
    ctx.case(nontrivial_id=(tid,) if nontrivial else None)
    return b.objs


def _other_target(rng, cfg):
    """The same content once more - for a file built from the SAME parameter objects: other target, file
    name, byte order, chunk size, title and call order."""
    c2 = dict(cfg)
    c2['where'] = 'file_path' if cfg['where'] == 'bytesio' else rng.choice(['bytesio', 'file_str'])
    c2['fname'] = 'second_' + cfg['fname'][:100]
    c2['subdirs'] = ['elsewhere']
    c2['bo'] = {'little': 'big', 'big': 'little', 'native': 'big'}[cfg['bo']]
    c2['chunk'] = rng.choice([None, 1, 2, 7, 9, 10, max(cfg['npix'] // 2, 1), cfg['npix'] + 1])
    if c2['chunk'] is not None and cfg['npix'] // c2['chunk'] > 3000:
        c2['chunk'] = None
    c2['title'] = L.rand_string(rng, L.rand_len(rng, 60))
    calls = list(cfg['calls'])
    rng.shuffle(calls)
    c2['calls'] = calls
    c2['prev'], c2['twice'] = 0, False
    return c2


def _content_id(cfg):
    """Identity of WHAT is supplied (shared by a configuration, its second build and its repetition)."""
    return (cfg['pix']['seed'], cfg['npix'], cfg['nruns'], tuple(e['run_id'] for e in cfg['exps']),
            cfg['exps'][0]['filename'], cfg['samp']['name'], cfg['dnd']['axes_title'], tuple(sorted(cfg['calls'])))


def _corruption_control(ctx):
    """The trace specification must accept hand-made consistent events and reject a pixel table with one
    id missing, a run id off by one and a value labelled with a foreign dimension."""
    import copy

    pix = {'ev': 'pix', 'src': 'dec', 'tid': 0, 'gen': 1, 'rpass': 1, 'avail': True, 'n': 20, 'nrows': 9, 'npix': 20, 'present': 20,
           'runs': [[1, 180]], 'namb': 0, 'total': 180, 'hasids': False, 'ids': []}
    exp = {'ev': 'exp', 'src': 'pkg', 'tid': 0, 'gen': 1, 'rpass': 1, 'avail': True, 'nruns': 2, 'count': 2, 'supplied': [3, 4],
           'found': [3, 4], 'base': 0, 'emode': [1, 1], 'emode_supplied': [1, 1], 'angles_in_degree': False,
           'serial_ok': True, 'efix_ok': True, 'en_ok': True, 'ang_ok': True, 'uv_ok': True, 'str_ok': True,
           'dims': [['efix', 'energy'], ['en', 'energy'], ['psi', 'angle'], ['exp_u', 'dimensionless']]}
    pix_bad = copy.deepcopy(pix)
    pix_bad['runs'] = [[1, 9 * pix['n'] - 10], [9 * pix['n'] - 8, 9]]      # one value lost
    exp_bad = copy.deepcopy(exp)
    exp_bad['found'][0] += 1
    exp_dim = copy.deepcopy(exp)
    exp_dim['dims'] = [[f, 'length' if f == 'efix' else d] for f, d in exp_dim['dims']]
    exp_again = copy.deepcopy(exp)
    exp_again.update(rpass=2, gen=2)                 # second read returns the same: accepted
    exp_differs = copy.deepcopy(exp)
    exp_differs.update(rpass=2, gen=2, str_ok=False)   # second read returns something else
    seq = [pix, pix_bad, exp, exp_bad, exp_dim, dict(exp, gen=2), exp_again, dict(exp, gen=2), exp_differs]
    tf = ctx.tmp / 'c13-corrupt.ndjson'
    write_ndjson(tf, seq)
    tr = ctx.tlc('sqw/Trace_SqwContent.tla', workers=1, env={'TRACE_FILE': str(tf)}, timeout=300, count=False)
    require_ok(ctx, tr, 'Trace_SqwContent (corruption control)')
    rej = {r[1]: r[3] for r in tr.tagged('REJECT')}
    want = {2: ['all_pixels_in_order_rounded_once'], 4: ['run_ids_one_based_in_order'],
            5: ['reader_labels_written_dimension'], 9: ['strings_as_supplied', 'second_read_equals_first_read']}
    if rej != want:
        raise MachineryError(f'corruption control: the trace specification judged {rej}')
    ctx.extra['corruption_control'] = ('hand-made events accepted (also as second read / second build); lost pixel value, '
                                       'shifted run id, foreign dimension, second read differing from the first rejected')


def run(ctx):
    ctx.rule = RULE
    ctx.assume('the container layout is the one of docs/developer/file-formats/sqw.md and the literal header '
               'fixtures of tests/io/sqw; a misunderstanding of Horace shared by those is out of scope')
    ctx.assume('strings are ASCII of any length incl. empty (DESIGN 3.4)')
    ctx.assume('pixel values: exact product rounded once to float32; both float32 neighbours accepted only within '
               '2^-46 relative of a rounding boundary (the float64 product formed first is accurate to a few ulp); '
               'float64 metadata exact without conversion, <= 4 ulp with conversion')
    ctx.assume('experiment orientation vectors u, v and the source frequency are written without unit handling: u, v '
               'are supplied dimensionless, the frequency is not judged; a value returned WITHOUT a unit is not a '
               'mislabelled value; the name an in-memory file gives itself is not judged (only real paths are)')
    ctx.assume('float32 rows are supplied only where no unit conversion is needed (a conversion in float32 '
               'arithmetic cannot be rounded once); integer-typed index rows carry no unit; integer-typed momentum / '
               'energy rows in a convertible unit form their own input class')
    rng = ctx.rng

    # ---- 1. design -----------------------------------------------------------------------------------
    cfgname = 'MC_SqwContent_thorough.cfg' if ctx.thorough else 'MC_SqwContent.cfg'
    res = ctx.tlc('sqw/MC_SqwContent.tla', cfgname, timeout=900, workers=WORKERS, coverage=True)
    require_ok(ctx, res, 'SqwContent model')
    require_actions(res, ['WriteMeta', 'WriteChunk', 'PixDone', 'WriteRuns', 'ReadBack', 'Rebuild'])
    grid = sorted({(c[1], c[2], tuple(c[3])) for c in res.tagged('CFG')})
    if len(grid) < 100:
        raise MachineryError(f'only {len(grid)} configurations exported by TLC')
    for neg in ('rows', 'stale', 'zerobased', 'zeroidx', 'firstchunk', 'sortruns', 'inplace'):
        ctx.tlc('sqw/MC_SqwContent.tla', f'Neg_SqwContent_{neg}.cfg', expect_error=True, timeout=300, workers=WORKERS)
    ctx.extra['model_configurations'] = len(grid)

    events, cfgs = [], {}
    tid = 0
    L.hostile_first_build(ctx.tmp)      # unjudged first use: single precision rows in convertible units, views
    # ---- 2a. the model's configurations on the real builder ---------------------------------------
    pairs = {}
    for n, chunk, runs in grid:
        pairs.setdefault((n, chunk), []).append(runs)
    for (n, chunk), runlists in sorted(pairs.items()):
        for runs in (runlists if ctx.thorough else [runlists[(n + chunk) % len(runlists)]]):
            cfg = L.random_config(rng, thorough=ctx.thorough, small=True, force=['pix'])
            cfg.update(npix=n, chunk=chunk, nruns=len(runs), where='bytesio')
            cfg['exps'] = [L.rand_experiment(rng, rid, rng.random() < 0.3) for rid in runs]
            cfg['pix'] = L.rand_pix_recipe(rng, n, len(runs))
            _one_file(ctx, cfg, tid, events, cfgs)
            tid += 1
    ctx.extra['model_configurations_replayed'] = tid

    # ---- 2b. random configurations -----------------------------------------------------------------------
    nsmall = 2500 if ctx.thorough else 110
    nbig = 400 if ctx.thorough else 22
    n_second = 0
    for i in range(nsmall + nbig):
        force = [['pix'], ['pix', 'samp'], ['dnd', 'samp'], ['pix', 'inst', 'samp', 'dnd'], None][i % 5]
        intconv = i % 16 == 7
        cfg = L.random_config(rng, thorough=ctx.thorough, small=i < nsmall, force=(force or []) + ['pix'] if intconv
                              else force, intconv=intconv)
        objs = _one_file(ctx, cfg, tid, events, cfgs)
        tid += 1
        if objs is not None and i % 5 == 2:
            # the caller keeps his objects and writes them once more, elsewhere (the model's Rebuild step)
            _one_file(ctx, _other_target(rng, cfg), tid, events, cfgs, objs=objs, gen=2)
            n_second += 1
            tid += 1
    for npix, chunk, where in ((100_000, 30_000, 'file_str'), (65_537, None, 'bytesio')):
        _one_file(ctx, L.large_config(rng, npix, chunk, where), tid, events, cfgs)   # upper end, in every run
        tid += 1
    if ctx.thorough:
        cfg = L.random_config(rng, thorough=True, small=True, force=['pix'])
        cfg.update(npix=100_000, chunk=1, where='bytesio')
        cfg['pix'] = L.rand_pix_recipe(rng, 100_000, cfg['nruns'])
        _one_file(ctx, cfg, tid, events, cfgs)
        tid += 1
    # ---- 2c. history: a sample of the configurations above once more, last first ----------------------
    again = rng.sample(sorted(cfgs), min(len(cfgs), 300 if ctx.thorough else 30))
    for t in sorted(again, reverse=True):
        _one_file(ctx, cfgs[t], tid, events, cfgs, gen=3)
        tid += 1
    ctx.extra['second_files_from_the_same_objects'] = n_second
    ctx.extra['files_written_again_in_reversed_order'] = len(again)
    ctx.extra['files_written'] = tid
    ctx.extra['block_events'] = len(events)
    ctx.extra['guard_band_acceptances'] = sum(e.get('namb', 0) for e in events)
    for e in events[:2] + events[-1:]:
        ctx.sample({k: v for k, v in e.items() if k not in ('ids', 'ranks')})

    # ---- 3. TLC judges every block event ----------------------------------------------------------------
    tf = ctx.tmp / 'c13.ndjson'
    write_ndjson(tf, events)
    tr = ctx.tlc('sqw/Trace_SqwContent.tla', workers=1, env={'TRACE_FILE': str(tf)}, timeout=1500)
    require_ok(ctx, tr, 'Trace_SqwContent')
    done = tr.tagged('DONE')
    if not done or done[0][1] != len(events):
        raise MachineryError(f'trace validation incomplete: {done} vs {len(events)} events')
    ctx.traces(len(events))
    _corruption_control(ctx)
    rejected = {line: set(clauses) for _, line, _rtid, clauses, _bad in tr.tagged('REJECT')}
    # the verdict on the same block of the same configuration when it was produced / read for the first time
    first_seen = {}
    for i, e in enumerate(events):
        if e['gen'] == 1 and e['rpass'] == 1:
            first_seen[(_content_id(cfgs[e['tid']]), e['ev'], e['src'], e.get('which'))] = i + 1
    for _, line, rtid, clauses, baddims in tr.tagged('REJECT'):
        ev = events[line - 1]
        cfg = cfgs[rtid]
        block = ev.get('which') or BLOCK_OF.get(ev['ev'], ev['ev'])
        who = 'independent decoder' if ev['src'] == 'dec' else 'Sqw.read_data_block'
        detail = {'cfg': _brief(cfg), 'event': {k: v for k, v in ev.items() if k not in ('ids', 'ranks')}}
        # a verdict that the first production of the same content (resp. the first read of the same block of the
        # same file) did not get is a matter of history and is named as such; the same defect showing again
        # keeps its key
        gen_twin = (first_seen.get((_content_id(cfg), ev['ev'], ev['src'], ev.get('which'))) if ev['gen'] > 1
                    else None)

        def hist(cl, ev=ev, line=line, gen_twin=gen_twin):
            h = ''
            if ev['gen'] > 1 and not set(cl) <= rejected.get(gen_twin, set()):
                h += HISTORY[ev['gen']]
            if ev['rpass'] > 1 and not set(cl) <= rejected.get(line - 1, set()):
                h += ' [second read of the block]'
            return h

        fields = sorted(baddims.get('$set', [])) if isinstance(baddims, dict) else []
        labelled = dict(ev.get('dims', []))
        # one signature per mislabelled field (call site of the reader), one for the remaining clauses
        for f in fields:
            ctx.violation(f'{who}({block}): reader_labels_written_dimension [{f} labelled {labelled.get(f)}]'
                          + hist(['reader_labels_written_dimension']), detail)
        rest = [c for c in clauses if not (c == 'reader_labels_written_dimension' and fields)]
        if rest:
            key = f'{who}({block}): {"+".join(rest)}'
            if ev['ev'] in ('pix', 'pixmeta'):
                key += f' [{L.input_class(cfg)}]'
                if L.dtype_class(cfg):
                    key += f' [{L.dtype_class(cfg)}]'
            if ev['ev'] == 'exp' and L.energy_class(cfg):
                key += f' [{L.energy_class(cfg)}]'
            if 'object_content' in rest:
                key += ' [' + ','.join(ev.get('badflags', [])) + ']'
            if ev['ev'] in ('exp', 'dndmeta') and L.num_class(cfg, ev['ev']):
                key += f' [{L.num_class(cfg, ev["ev"])}]'
            ctx.violation(key + hist(rest), detail)

META = {
    'design_ref': 'DESIGN.md §5 C13',
    'technique': 'TLA+ model of the SQW content on value-ids (chunked pixel writer, metadata, run records, containers, '
                 'read-back) model-checked by TLC with five negative controls; files written by the real builder are '
                 'decoded by an independent decoder and by the package reader, numbers are mapped to value-ids / '
                 'flags by exact float32 / rational comparison and every block is judged by a TLC trace specification',
    'text': 'TLC proves on the model (pixel counts and chunk sizes around the row count, several run-id lists and value '
            'orders) that the chunked writer yields all pixels in order, the per-row range, 1-based run ids and '
            'all-ones container indices with one shared object, and that read-back is loss-free; the model\'s '
            'configurations and seeded random ones (up to 1e5 pixels, arbitrary finite doubles in convertible '
            'units, direct/indirect runs, deg/rad angles, empty strings, both byte orders, files and buffers) are '
            'written with the real builder, decoded independently and through Sqw.read_data_block, compared exactly '
            '(one float32 rounding with a derived guard band) and judged block by block by TLC, including the '
            'physical dimension of every unit the reader attaches.',
    'note': 'Trusted: TLC, the independent decoder, numpy/mpmath. u, v of experiments and the source frequency are '
            'written without unit handling and are supplied dimensionless / compared as plain numbers. float32 '
            'rows are supplied only without unit conversion.',
}
