SPECIFICATION Spec
CONSTANTS
  Pulses <- MC_Pulses
  Choppers <- MC_ChoppersQ
  PropDists = {4, 8}
  MaxChops = 2
  Pick = 0
  SimEdges = {}
  SimMaxDist = 0
  L = 12
  Bug = "none"
  GBug = "none"
  Deltas <- MC_Deltas
INVARIANT BoundsAreVertexExtremes
INVARIANT NeutronsInsideBounds
INVARIANT NeutronsInsideSubbounds
INVARIANT WavelengthBoundsInBand
INVARIANT StartEndLinear
INVARIANT PropagateByComposes
INVARIANT PropagateToIsRelativePropagateBy
INVARIANT AcceptanceInvertsPropagation
INVARIANT AcceptanceInsideSourcePulse
INVARIANT AcceptanceIsEmissionSet
INVARIANT AcceptanceNested
CHECK_DEADLOCK FALSE
