"""C02 — convert() succeeds iff the target is derivable, in the right mode, with the reported graph.

Spec: spec/conv/ConvertGraphDefs.tla (rule tables transcribed from the documentation, mode deduction,
graph selection, declarative least fixed point / computed set / provenance), ConvertGraph.tla (the
documented depth-first walk of transform_coords as a state machine), Emit_ConvertGraph.tla (M1 case
emitter), Trace_ConvertGraph.tla (judge of recorded executions).

1. TLC, exhaustive: over the configuration space (thorough: 4 origins x 21 targets x scatter x all
   2^11 subsets, plus the auxiliary inputs for the hkl / time_at_sample targets = 430 080
   configurations; quick: the 2^9 subsets containing all three positions or none) the walk
   answers exactly when the target is in the least fixed point of the selected graph
   (Sound / Complete), never recomputes a supplied coordinate (Precedence), never produces a
   quantity of the wrong scattering mode (NoWrongMode), walks the graph that is reported
   (GraphReportedIsUsed), and computes exactly the declarative provenance (WalkIsDeclarative).
   Eight negative controls (one wrong variant each) must be rejected.
2. spec -> code (M1): TLC emits every configuration (thorough) or a stratified sample (quick: one
   residue class (mod 101) of masks per head + 18 structured masks) with the expected mode, graph, outcome
   and the provenance tree (node -> kernel).
3. code -> spec (M2): for every emitted configuration the driver builds a DataArray and a Dataset
   with random, mutually inconsistent supplied coordinates, calls deduce_conversion_graph and
   convert, and records: outcome class, the set of coordinates added, the reported graph (keys,
   kernel names, kernel inputs), whether the reported graph is a private copy, whether supplied
   coordinates came back unchanged, and a value flag.  The value flag is computed by evaluating the
   spec's provenance tree with independent numpy float64 reference formulas (harness/lib_convert.py,
   constants from refmap) on the supplied values; tolerance 1e-9 relative (norm-wise for vectors).
   TLC cannot evaluate sqrt / sin, so this numeric comparison is done here and its boolean goes
   into the event; that the tree used is the spec's tree is re-checked by TLC ("provenance_echo").
   Also recorded: conversion_graph for all (origin, target, scatter, mode) and the graph
   factories.  Trace_ConvertGraph judges every event.
4. Hardening round (HARDENING.md):
   * layouts / listing order / single elements (items 2, 3, 7, 8): every case is built in one of three
     layout classes (textbook; single-pixel = all geometry 0-d, data 1-d or spectra sharing the geometry;
     per-pixel = also source / sample position, incident beam, L1, incident energy per spectrum), with
     1..3 spectra and origin points, data stored as [spectrum, origin] or [origin, spectrum], a 2-d
     origin coordinate stored in either dimension order, coordinates inserted in a random order, a
     Dataset of one or two items (lib_convert.case_layout);
   * supplied coordinates are compared with a deep snapshot taken before the call (item 9/11: the result
     shares buffers with the operands, an aliasing view hides in-place changes), each container has its
     own buffers;
   * history (item 6, spec/conv/ConvertGraphHistory.tla: the answer is a function of the arguments):
     conversion_graph is requested over its complete argument space three times (enumeration order,
     reversed, seeded shuffle), the caller clearing every answer; deduce_conversion_graph / convert
     are called in either order on fresh objects; at the end a sample of the cases is executed again
     in the main process (which by then has seen every other call), in another order and with the
     opposite deduce / convert order, judged again by TLC and compared with the first execution;
   * non-finite values, a result that is not a data array / dataset, and exceptions of any class are
     verdicts with their own clause (non_finite_value_*, derivable_but_malformed_*, ...), never a crash.
"""

from __future__ import annotations

import json
import multiprocessing as mp
import os
import shutil
import threading
import time

from ..core import MachineryError
from ..tlc import require_actions, require_ok, write_ndjson
from .. import lib_convert as L

RULE = ('configuration = (origin, target, scatter, 11-bit mask of supplied geometry/energy coordinates, '
        'aux inputs present) with target != origin; supplied values are independent random numbers '
        '(lengths 0.5..14 m, tof 1e4..5e4 us, E 20..100 meV, two_theta 0.2..2.9 rad) so that every '
        'alternative derivation gives a different value; every case in one of three layout classes (textbook / single '
        'pixel / per-pixel beam geometry) with 0..3 spectra and origin points; non-trivial = the target is derivable '
        'and at least one coordinate has to be computed')

HNEG = {'kept_graph_forgets_target': 'AnswerIsAFunctionOfTheArguments', 'table_handed_out': 'TablesIntact'}
NEG = ['recompute:Precedence', 'swap_modes:OutcomeIsDeclarative', 'both_energies_direct:NoWrongMode',
       'elastic_energy_with_inelastic:NoWrongMode', 'noscatter_ignored:NoWrongMode',
       'used_full_graph:GraphReportedIsUsed', 'first_input_only:Sound', 'ignore_supplied_target:Complete']

TARGETS = ('incident_beam', 'scattered_beam', 'L1', 'L2', 'two_theta', 'Ltotal', 'hkl_vec', 'h', 'k',
           'l', 'ub_matrix', 'time_at_sample', 'dspacing', 'energy', 'wavelength', 'Q', 'Q_vec', 'Qx',
           'Qy', 'Qz', 'energy_transfer')
MODES = ('elastic', 'direct_inelastic', 'indirect_inelastic')


def _tlc_workers():
    try:
        return max(1, int(os.environ.get('VERIF_TLC_WORKERS', '16')))
    except ValueError:
        return 16


def _nproc():
    try:
        n = int(os.environ.get('VERIF_PROCS', '16'))
    except ValueError:
        n = 16
    return max(1, min(n, os.cpu_count() or 1))


class _Intern:
    """interning table for the trace: value -> id, with the 'def' events in creation order"""

    def __init__(self):
        self.ids = {}
        self.defs = []

    def get(self, kind, val):
        key = (kind, val)
        i = self.ids.get(key)
        if i is None:
            i = len(self.ids) + 1
            self.ids[key] = i
            if kind == 'graph':
                jv = [[list(o), k, list(ins)] for o, k, ins in val]
            elif kind == 'pairs':
                jv = [list(p) for p in val]
            else:
                jv = list(val)
            self.defs.append({'ev': 'def', 'tid': 0, 'id': i, 'kind': kind, 'val': jv})
        return i


def _out_class(s):
    return s if s in ('ok', 'RuntimeError', 'malformed') else 'other'


def _static_events(ctx, tab):
    """graph factories and conversion_graph over all argument combinations"""
    import scippneutron as scn
    from scippneutron.conversion import graph as G

    evs = []
    factories = {
        'beamline(scatter=True)': lambda: G.beamline.beamline(scatter=True),
        'beamline(scatter=False)': lambda: G.beamline.beamline(scatter=False),
        'elastic(tof)': lambda: G.tof.elastic('tof'),
        'elastic(wavelength)': lambda: G.tof.elastic('wavelength'),
        'elastic(energy)': lambda: G.tof.elastic('energy'),
        'elastic(Q)': lambda: G.tof.elastic('Q'),
        'kinematic(tof)': lambda: G.tof.kinematic('tof'),
        'direct_inelastic(tof)': lambda: G.tof.direct_inelastic('tof'),
        'indirect_inelastic(tof)': lambda: G.tof.indirect_inelastic('tof'),
    }
    for name, f in factories.items():
        try:
            g = f()
            desc = L.describe_graph(g)
            g.clear()   # what users do with these dicts (del graph[...]); must not reach the module-level tables
            if L.describe_graph(f()) != desc:
                ctx.violation(f'graph factory {name}: mutating the returned graph changes later results', {'name': name})
            gid = tab.get('graph', desc)
        except Exception as e:  # noqa: BLE001
            gid = -2
            ctx.extra.setdefault('exceptions', []).append(f'{name}: {e!r}'[:200])
        evs.append({'ev': 'factory', 'tid': 0, 'name': name, 'g': gid})
    reqs = [(o, t, s, mode) for o in L.ORIGINS for t in TARGETS if t != o for s in (True, False) for mode in MODES]
    shuffled = list(reqs)
    ctx.rng.shuffle(shuffled)
    # the complete argument space three times, in different orders (spec/conv/ConvertGraphHistory.tla:
    # the answer is a function of the arguments); the caller clears every answer
    for hist, seq in (('first', reqs), ('reversed', reqs[::-1]), ('shuffled', shuffled)):
        for o, t, s, mode in seq:
            try:
                g = scn.conversion_graph(o, t, s, mode)
                desc = L.describe_graph(g)
                g.clear()  # must not reach the module-level tables
                if L.describe_graph(scn.conversion_graph(o, t, s, mode)) != desc:
                    ctx.violation('conversion_graph: mutating the returned graph changes later results',
                                  {'o': o, 't': t, 's': s, 'mode': mode})
                gid = tab.get('graph', desc)
            except Exception as e:  # noqa: BLE001
                gid = -2
                ctx.extra.setdefault('exceptions', []).append(f'conversion_graph{(o, t, s, mode)}: {e!r}'[:200])
            evs.append({'ev': 'cgraph', 'tid': 0, 'o': o, 't': t, 's': s, 'mode': mode, 'g': gid, 'hist': hist})
    return evs


def _emit_cases(ctx):
    """M1: TLC writes the expected records; they stay JSON lines here (the workers parse them)"""
    out = ctx.tmp / 'c02-cases.ndjson'
    cfg = ctx.tmp / 'Emit_ConvertGraph.cfg'
    stride = 1 if ctx.thorough else 101
    phase = ctx.seed % stride
    cfg.write_text(f'SPECIFICATION ESpec\nCONSTANTS\n  Stride = {stride}\n  Phase = {phase}\n')
    res = L.spaced_tlc(ctx, 'conv/Emit_ConvertGraph.tla', str(cfg), workers=1, env={'OUT_FILE': str(out)},
                  timeout=900, count=False)
    require_ok(ctx, res, 'Emit_ConvertGraph')
    em = res.tagged('EMITTED')
    lines = [ln for ln in open(out) if ln.strip()]
    if not em or em[0][1] != len(lines) or not lines:
        raise MachineryError(f'case emission incomplete: {em} vs {len(lines)} records')
    if ctx.thorough and len(lines) != 430080:
        raise MachineryError(f'expected the complete space of 430080 configurations, got {len(lines)}')
    out.unlink()
    return lines


def _run_negs(ctx):
    """negative controls, a few at a time (each is a small TLC run that must fail)"""
    errs = []

    def one(i, name):
        try:
            r = L.spaced_tlc(ctx, 'conv/MC_ConvertGraph.tla', f'Neg_ConvertGraph_{name}.cfg', workers=2,
                        expect_error=True, timeout=600)
            want = dict(n.split(':') for n in NEG)[name]
            if want not in r.error:
                errs.append(f'negative control {name}: expected {want} to be violated, got: {r.error}')
        except Exception as e:  # noqa: BLE001
            errs.append(f'{name}: {e}')

    def coverage():
        # non-vacuity: every action of the walk is taken on the small space (DESIGN 3.5)
        try:
            r = L.spaced_tlc(ctx, 'conv/MC_ConvertGraph.tla', 'Cov_ConvertGraph.cfg', workers=2, coverage=True, timeout=600,
                        count=False)
            require_ok(ctx, r, 'ConvertGraph coverage run')
            require_actions(r, ['Supply', 'DeduceMode', 'SelectGraph', 'Found', 'Fail', 'Descend', 'Compute',
                                'Finish'])
        except Exception as e:  # noqa: BLE001
            errs.append(f'coverage: {e}')

    def history():
        # the process-lifetime model: answers are a function of the arguments; two negative controls
        try:
            r = L.spaced_tlc(ctx, 'conv/MC_ConvertGraphHistory.tla', 'MC_ConvertGraphHistory.cfg', workers=1, timeout=600)
            require_ok(ctx, r, 'ConvertGraphHistory model')
            for name, want in HNEG.items():
                r = L.spaced_tlc(ctx, 'conv/MC_ConvertGraphHistory.tla', f'Neg_ConvertGraphHistory_{name}.cfg', workers=1,
                                 expect_error=True, timeout=600)
                if want not in r.error:
                    errs.append(f'negative control {name}: expected {want} to be violated, got: {r.error}')
        except Exception as e:  # noqa: BLE001
            errs.append(f'history model: {e}')

    threads = [threading.Thread(target=one, args=(i, n.split(':')[0])) for i, n in enumerate(NEG)]
    threads.append(threading.Thread(target=coverage))
    threads.append(threading.Thread(target=history))
    for t in threads:
        t.start()
    for t in threads:
        t.join()
    if errs:
        raise MachineryError('; '.join(errs))


def _trace_selftest(ctx, tab, events, rejected):
    """non-vacuity of the judge: a slice of the recorded trace with (a) one value flag flipped,
    (b) one computed set replaced by another set, (c) the definition of one reported graph removed
    must be rejected at exactly those events (DESIGN 3.5)."""
    import copy

    ok_evs = [e for e in events if e['da']['out'] == 'ok' and e['ds']['out'] == 'ok' and e['tid'] not in rejected]
    if len(ok_evs) < 3 or len({e['g'] for e in ok_evs}) < 2:
        if rejected:  # the implementation is broken so badly that no clean slice exists; verdicts stand
            ctx.extra['trace_selftest'] = 'skipped: no accepted answered events to corrupt'
            return
        raise MachineryError('trace self-test: not enough answered events')
    sl = copy.deepcopy(ok_evs[::max(1, len(ok_evs) // 150)][:150])
    drop = sl[0]['g']
    rest = [e for e in sl if e['g'] != drop]
    if len(rest) < 2:
        rest = [e for e in copy.deepcopy(ok_evs) if e['g'] != drop][:2]
        sl += rest
    if len(rest) < 2:
        ctx.extra['trace_selftest'] = 'skipped: answered events use a single graph'
        return
    a, b = rest[0], rest[-1]
    a['ds']['val'] = False
    other = next(d['id'] for d in tab.defs if d['kind'] == 'names' and d['id'] != b['da']['add'])
    b['da']['add'] = other
    expect = {a['tid']: 'value_Dataset', b['tid']: 'computed_set_DataArray'}
    for e in sl:
        if e['g'] == drop:
            expect[e['tid']] = 'deduce_conversion_graph_raised'
    defs = [d for d in tab.defs if not (d['kind'] == 'graph' and d['id'] == drop)]
    tf = ctx.tmp / 'c02-selftest.ndjson'
    write_ndjson(tf, defs + sl)
    tr = L.spaced_tlc(ctx, 'conv/Trace_ConvertGraph.tla', workers=1, env={'TRACE_FILE': str(tf)}, timeout=600, count=False)
    require_ok(ctx, tr, 'Trace_ConvertGraph self-test')
    got = {tid: clause for _, _line, tid, clause in tr.tagged('REJECT')}
    if got != expect:
        if rejected:  # do not let the judge's self-test mask real verdicts
            ctx.extra['trace_selftest'] = 'inconclusive on a tree with violations'
            return
        diff = {k: (got.get(k), expect.get(k)) for k in set(got) | set(expect) if got.get(k) != expect.get(k)}
        raise MachineryError(f'trace self-test: judge verdicts differ from the planted corruptions (tid: got, expected): '
                             f'{dict(list(diff.items())[:8])}')
    ctx.extra['trace_selftest'] = f'{len(expect)} corrupted events rejected, {len(sl) - len(expect)} accepted'


def _key(c, clause, lay='canon'):
    aux = ', aux inputs present' if c['x'] else ''
    layout = '' if lay == 'canon' else f', {lay} layout'      # the textbook layout keeps the historical keys
    return f"convert({c['o']} -> {c['t']}, scatter={c['s']}{aux}{layout}): {clause}"


def run(ctx):
    from ..refmap import check_constants

    check_constants()
    ctx.rule = RULE
    ctx.assume('the documented no-scatter / inelastic graphs start from tof only (kinematic, direct_inelastic, '
               'indirect_inelastic: "only tof is supported"), so for other origins those targets are not '
               'derivable and RuntimeError is the expected outcome')
    ctx.assume('only the exception class is compared (RuntimeError vs anything else); where the mode is '
               'ambiguous but the target is a pure geometry node, answering from the beamline graph is '
               'accepted as well as refusing (DESIGN 3.4)')
    ctx.assume('value flag: numpy float64 reference formulas, 1e-9 relative (norm-wise for vectors and '
               'matrices); rounding-level agreement of the kernels is decided by C01/C03/C05')
    ctx.assume('containers: DataArray and Dataset with one or two items; pulse_time is a float64 time in us')
    ctx.assume('layouts: textbook (beam geometry 0-d, detector geometry per spectrum), single pixel (all geometry 0-d), '
               'or normally-scalar coordinates per spectrum as well; 0..3 spectra / origin points; always '
               'dims(incident beam) <= dims(scattered beam) - a beam per spectrum meeting one single scattered beam is '
               'refused by the two_theta kernel with a DimensionError, which is a refusal outside the weakest reading of '
               'the quantifier and is not judged')

    # ---- 1. design: TLC exhaustive + negative controls (concurrently with the emission)
    cfg = 'MC_ConvertGraph_thorough.cfg' if ctx.thorough else 'MC_ConvertGraph.cfg'
    neg_err = []

    def negs():
        try:
            _run_negs(ctx)
        except Exception as e:  # noqa: BLE001
            neg_err.append(e)

    # the negative controls, the coverage run, the history model and the case emission (M1) run while the
    # main model is being checked; they are joined where their results are needed
    negt = threading.Thread(target=negs)
    negt.start()
    emitted = {}

    def emit():
        try:
            emitted['cases'] = _emit_cases(ctx)
        except Exception as e:  # noqa: BLE001
            emitted['err'] = e

    emt = threading.Thread(target=emit)
    emt.start()
    res = L.spaced_tlc(ctx, 'conv/MC_ConvertGraph.tla', cfg, timeout=1500, coverage=False, workers=_tlc_workers())
    require_ok(ctx, res, 'ConvertGraph model')
    ctx.exhaustive = bool(ctx.thorough)

    # ---- 2. M1: TLC-emitted cases
    emt.join()
    if 'err' in emitted:
        e = emitted['err']
        raise e if isinstance(e, MachineryError) else MachineryError(repr(e))
    cases = emitted['cases']

    # ---- 3. M2: run the real API (multiprocessing), record, let TLC judge
    lines = cases
    nproc = _nproc() if len(lines) > 500 else 1
    chunk = 400
    jobs = [(lines[i:i + chunk], ctx.seed) for i in range(0, len(lines), chunk)]
    tab = _Intern()
    static = _static_events(ctx, tab)
    per = 60000
    bodies = []            # (path, number of events) of the trace chunks, without the definitions
    cur, cur_n = None, 0
    sample_evs = []
    worst = 0.0
    nontriv = 0
    expected_counts = {'ok': 0, 'missing': 0, 'mode_error': 0}
    layouts_seen = {}
    ok_pool = []           # a few accepted-looking answered events for the judge's self-test
    first_obs = {}         # tid -> projected observation of the first execution (for the replay pass)
    case_of = {}           # tid of a replay -> index into lines (first executions: tid - 1)
    tid = 0
    t0 = time.time()
    n_replay = min(len(lines), 1200 if ctx.thorough else 260)
    pick = sorted(ctx.rng.sample(range(len(lines)), n_replay))      # cases executed again at the end (3b)
    picked = set(pick)

    def open_body():
        nonlocal cur, cur_n
        path = ctx.tmp / f'c02-body-{len(bodies)}.ndjson'
        cur, cur_n = open(path, 'w'), 0
        bodies.append([path, 0])

    def put(ev):
        nonlocal cur_n
        if cur_n >= per:
            cur.close()
            bodies[-1][1] = cur_n
            open_body()
        cur.write(json.dumps(ev) + '\n')
        cur_n += 1

    def event_of(r, gids, tid_, hist):
        o, t, s, m, x, _expected, prov, g, copy_ok, da, ds, lay = r
        ev = {'ev': 'convert', 'tid': tid_, 'o': o, 't': t, 's': s, 'm': m, 'x': x, 'hist': hist, 'lay': lay,
              'pv': tab.get('pairs', prov), 'g': gids[g] if g >= 0 else g, 'copy': bool(copy_ok)}
        for k, ob in (('da', da), ('ds', ds)):
            ev[k] = {'out': _out_class(ob[0]), 'add': tab.get('names', ob[1]), 'val': bool(ob[2]),
                     'same': bool(ob[3]), 'has': bool(ob[4]), 'fin': bool(ob[6])}
        return ev

    def projection(ev):
        return {k: ev[k] for k in ('g', 'copy', 'da', 'ds')}

    open_body()
    for e in static:
        put(e)
    pool = mp.get_context('spawn').Pool(nproc) if nproc > 1 else None
    try:
        stream = pool.imap(L.run_cases, jobs, chunksize=1) if pool else map(L.run_cases, jobs)
        for part, graphs in stream:
            gids = [tab.get('graph', g) for g in graphs]
            for r in part:
                if r[0] == 'harness_error':
                    raise MachineryError(f'harness error on {r[1]}: {r[2]}')
                tid += 1
                ev = event_of(r, gids, tid, 'first')
                o, t, s, m, x, expected, prov = r[:7]
                da, ds, lay = r[9], r[10], r[11]
                for ob in (da, ds):
                    if ob[0] == 'ok' and ob[2]:
                        worst = max(worst, ob[5])
                put(ev)
                if tid - 1 in picked:
                    first_obs[tid] = projection(ev)
                expected_counts[expected] = expected_counts.get(expected, 0) + 1
                layouts_seen[lay] = layouts_seen.get(lay, 0) + 1
                nt = expected == 'ok' and len(prov) > 0
                nontriv += nt
                ctx.case(nontrivial_id=(o, t, s, m, x) if nt else None, n=2)
                if len(sample_evs) < 3 and (nt or tid == 1):
                    sample_evs.append(ev)
                if da[0] == 'ok' and ds[0] == 'ok' and (len(ok_pool) < 400 or tid % 97 == 0) and len(ok_pool) < 3000:
                    ok_pool.append(ev)
    finally:
        if pool:
            pool.terminate()
            pool.join()
    if tid != len(lines):
        raise MachineryError('lost results')
    n_first = tid

    # ---- 3b. replay pass (HARDENING item 6): a sample of the cases again, in this process (which has by
    # now requested every graph three times and cleared the answers), geometry targets first and
    # otherwise in reverse order, with the opposite deduce / convert order
    heads = [json.loads(lines[i]) for i in pick]
    geo = {'incident_beam', 'scattered_beam', 'L1', 'L2', 'two_theta', 'Ltotal'}
    order = sorted(range(n_replay), key=lambda j: (heads[j]['t'] not in geo, -pick[j]))
    part, graphs = L.run_cases(([lines[pick[j]] for j in order], ctx.seed, 'replay'))
    gids = [tab.get('graph', g) for g in graphs]
    history_dependent = 0
    for j, r in zip(order, part):
        if r[0] == 'harness_error':
            raise MachineryError(f'harness error on replay of {r[1]}: {r[2]}')
        tid += 1
        ev = event_of(r, gids, tid, 'replay')
        put(ev)
        case_of[tid] = pick[j]
        ctx.case(nontrivial_id=None, n=2)
        if projection(ev) != first_obs[pick[j] + 1]:
            history_dependent += 1
            c = json.loads(lines[pick[j]])
            ctx.violation(_key(c, 'the answer depends on the call history (replay at the end of the run differs)', r[11]),
                          {'expected': c, 'first': first_obs[pick[j] + 1], 'replay': projection(ev), 'seed': ctx.seed})
    cur.close()
    bodies[-1][1] = cur_n
    ctx.extra['replayed_in_another_order'] = n_replay
    ctx.extra['convert_wall_s'] = round(time.time() - t0, 1)
    ctx.extra['worst_relative_error_of_accepted_values'] = worst
    ctx.extra['configurations'] = len(lines)
    ctx.extra['layout_classes'] = layouts_seen
    ctx.extra['distinct_reported_graphs'] = sum(1 for k in tab.ids if k[0] == 'graph')
    ctx.extra['outcomes_expected'] = expected_counts
    for e in sample_evs:
        ctx.sample(e)
    negt.join()
    if neg_err:
        raise neg_err[0] if isinstance(neg_err[0], MachineryError) else MachineryError(str(neg_err[0]))

    # trace files: every chunk = all definitions + its body; chunks are validated concurrently
    defs_path = ctx.tmp / 'c02-defs.ndjson'
    write_ndjson(defs_path, tab.defs)
    ndefs = len(tab.defs)
    verdicts = [None] * len(bodies)
    counts = [(0, 0)] * len(bodies)
    errs = []

    def validate(i):
        try:
            tf = ctx.tmp / f'c02-{i}.ndjson'
            with open(tf, 'wb') as w:
                for src in (defs_path, bodies[i][0]):
                    with open(src, 'rb') as r:
                        shutil.copyfileobj(r, w)
            tr = L.spaced_tlc(ctx, 'conv/Trace_ConvertGraph.tla', workers=1, env={'TRACE_FILE': str(tf)}, timeout=3000,
                         count=False)
            require_ok(ctx, tr, 'Trace_ConvertGraph')
            counts[i] = (tr.generated, tr.distinct)
            done = tr.tagged('DONE')
            if not done or done[0][1] != ndefs + bodies[i][1]:
                raise MachineryError(f'trace validation incomplete: {done} vs {ndefs + bodies[i][1]}')
            verdicts[i] = [(line, tid_, clause, _event_at(bodies[i][0], line - ndefs)) for _, line, tid_, clause
                           in tr.tagged('REJECT')]
            tf.unlink()
        except Exception as e:  # noqa: BLE001
            errs.append(e)

    sem = threading.Semaphore(min(_nproc(), 8))

    def guarded(i):
        with sem:
            validate(i)

    threads = [threading.Thread(target=guarded, args=(i,)) for i in range(len(bodies))]
    for t in threads:
        t.start()
    for t in threads:
        t.join()
    if errs:
        raise errs[0] if isinstance(errs[0], MachineryError) else MachineryError(repr(errs[0]))
    for gen, dist in counts:  # accumulated here, not in the threads
        ctx.states += gen
        ctx.distinct_states += dist
        ctx.transitions += max(gen - 1, 0)
    ctx.traces(tid + len(static))

    rejected = set()
    graph_of = {v: k[1] for k, v in tab.ids.items() if k[0] == 'graph'}
    for rej in verdicts:
        for line, rtid, clause, ev in rej:
            if ev is None or line <= ndefs:
                raise MachineryError(f'definition event rejected at line {line}: {clause}')
            if ev['ev'] == 'convert':
                rejected.add(rtid)
                c = json.loads(lines[case_of.get(rtid, rtid - 1)])
                try:
                    detail = L.run_case(c, ctx.seed, ev['hist'])   # deterministic: re-run for the report
                except Exception as e:  # noqa: BLE001
                    detail = {'rerun_failed': repr(e)}
                ctx.violation(_key(c, clause, ev['lay']), {
                    'expected': c, 'supplied': L.supplied(c['m']), 'clause': clause, 'event': ev,
                    'observed': detail, 'seed': ctx.seed,
                    'reproduce': f"harness.lib_convert.run_case(expected, seed, {ev['hist']!r})"})
            elif ev['ev'] == 'cgraph':
                ctx.violation(f"conversion_graph({ev['o']}, {ev['t']}, scatter={ev['s']}, {ev['mode']}): {clause}",
                              {'event': ev, 'graph': graph_of.get(ev['g'])})
            elif ev['ev'] == 'factory':
                ctx.violation(f"graph factory {ev['name']}: {clause}", {'event': ev, 'graph': graph_of.get(ev['g'])})
            else:
                raise MachineryError(f'unexpected rejected event {ev}: {clause}')
    try:
        _trace_selftest(ctx, tab, ok_pool, rejected)
    except MachineryError:
        if not (rejected or ctx.violations):
            raise
        ctx.extra['trace_selftest'] = 'inconclusive on a tree with violations'
    except Exception as e:  # noqa: BLE001  (the self-test must never mask verdicts, item 11)
        if not (rejected or ctx.violations):
            raise MachineryError(f'trace self-test crashed: {e!r}') from e
        ctx.extra['trace_selftest'] = 'inconclusive on a tree with violations'
    if nontriv == 0:
        raise MachineryError('vacuous run: no derivable configuration with computed coordinates')


def _event_at(path, n):
    """n-th (1-based) event of a body file"""
    if n < 1:
        return None
    with open(path) as f:
        for i, line in enumerate(f, start=1):
            if i == n:
                return json.loads(line)
    return None

META = {
    'design_ref': 'DESIGN.md §5 C02',
    'technique': 'TLA+ state machine of the documented transform_coords walk (mode deduction -> graph selection '
                 '-> found/descend/compute/fail) model-checked by TLC against the declarative least fixed point; '
                 'TLC-emitted configurations replayed into convert(); recorded executions judged by a TLC trace spec',
    'text': 'TLC proves on the model, for the complete configuration space (4 origins x 21 targets x scatter x 2^11 '
            'coordinate subsets), that the walk answers iff the target is derivable in the selected graph, never '
            'recomputes a supplied coordinate, never mixes scattering modes and walks the reported graph. The same '
            'space (thorough) or a stratified sample (quick) is emitted by TLC with the expected outcome and '
            'provenance tree; the real convert / deduce_conversion_graph / conversion_graph are run on DataArrays and '
            'Datasets with mutually inconsistent random coordinates (three layout classes, empty and single-element '
            'axes, both storage orders), and TLC judges outcome class, set of added coordinates, reported graph (keys, '
            'kernels, inputs), precedence (against a deep snapshot) and the value flag for every call; the argument '
            'space of conversion_graph is requested three times in different orders and a sample of the cases is '
            'replayed at the end of the run in another order (ConvertGraphHistory.tla: answers are a function of '
            'the arguments).',
    'note': 'Trusted: TLC, scipp transform_coords, numpy; the value flag (1e-9 relative against independent float64 '
            'formulas evaluated along the spec provenance) is computed by the harness, TLC checks that the tree used '
            'is the spec tree. Only the exception class is compared. The rule tables in ConvertGraphDefs.tla are '
            'transcribed from the documentation and compared with the real graph factories on every run.',
}
