"""C07 — kernels are unit-equivariant and keep the documented dtype contract.

Spec: spec/conv/UnitsDefs.tla (dimension vectors, decimal / eV / degree scale exponents),
DTypesDefs.tla (precision rule), UnitsKernelsDefs.tla (signature table of the kernels: operands,
documented formula as monomials with doubled exponents, documented output unit, data operands),
UnitsKernels.tla (state machine over the unit x dtype grid: Reexpress / Retype one operand),
Emit_UnitsKernels.tla (grid enumeration), Trace_UnitsKernels.tla (judge of recorded calls).

1. TLC, exhaustive over the grid of every kernel: the documented output unit has the dimension of
   every term of the documented formula and internal quantities (t0, drop / L2) have theirs
   (DimensionOK); converting the constant to "output unit / operand units" and multiplying the
   numbers gives the unit-independent physical value (UnitEquivariance, exact in the exponent
   algebra); the output unit depends on the donor operand only (OutUnitRule / OutUnitStep); the
   precision rule is total and depends on the data operands only (DTypeRule / DTypeStep).
   A second, smaller model adds the shape of the data operands (array / 0-d variable) to the state:
   neither output unit nor precision class may change when an operand is reshaped (ShapeStep).
   Negative controls: Q documented in the wavelength unit; time unit entering the energy constant
   with exponent 1; "single as soon as any operand is single"; "a 0-d operand is a parameter and does
   not count for the precision class".
2. spec -> code (M1): TLC writes the unit grid (with the expected output unit and its scale vector)
   and the dtype grid (with the expected precision class) of every kernel; the driver replays the
   product (thorough: complete; quick: a sample that contains every unit row and every dtype row of
   every kernel) into the real kernels at two numeric points each.
3. code -> spec (M2): every returned quantity of every real call is one NDJSON event; TLC judges
   the unit string, the dtype class and the refusal class with the specification's tables.

Decided by the harness, not by TLC: "changes the physical result by no more than rounding".  The
physical scenario of a row is defined by the numbers handed to the code (10-bit mantissas, or small
integers for integer dtypes: exactly representable in every dtype); the same physical scenario is
evaluated by the same kernel with all operands in coherent SI units and float64, and the two results,
both converted to SI with the *specification's* scale vector of the output unit, must agree to
1e-11 relative (1e-5 as soon as an operand is float32) — the accumulated-rounding figures of the
property family — times the condition number of the result for the two inelastic kernels (difference of
two energies, one of them ~ (t - t0)^-2; same bound as derived in c05.py; scenarios keep it below ~50).  This is the metamorphic relation the property states; absolute correctness of the
values is C01 / C04 / C05.

Hardening round: every row is handed over in one of five shapes - all operands 1-d; only the data
operands 1-d and the others 0-d; only the first operand 1-d (the supplied energy of the inelastic
kernels then is a 0-d parameter); everything 0-d; the first operand as event data (binned) - because
neither the output unit nor the precision class nor the value may depend on it; the reference run of a
row uses the same shape.  keV joins the energy units, Q_elements_from_wavelength the kernel table.  A
failing reference run (all-SI, all-double) is a violation of that row, not a machinery failure.  At the
end a sample of the rows of *every* dtype class is replayed once more in another order.

Interpretation (weakest reading, see final report): data operands are the converted coordinate of the
tof kernels (repository docstrings / tests), tof AND the supplied energy for the inelastic kernels,
the wavelength for the gravity kernels; the chopper-cascade helpers and two_theta always compute in
double.  A DTypeError raised by scipp for integer operands is "not supported", not a violation.
"""

from __future__ import annotations

import json
import math
import os
from fractions import Fraction

import mpmath
import numpy as np
import scipp as sc

from .. import lib_conv as lc
from ..core import MachineryError
from ..refmap import check_constants, mpf
from ..tlc import require_ok

TOL = {'float64': 1e-11, 'float32': 1e-5}
INT_LIMIT = {'int64': 2 * 10 ** 9, 'int32': 30000}     # squares stay representable
E_MANT = 1602176634
CANON = {'time': 's', 'length': 'm', 'energy': 'J', 'angle': 'rad', 'accel': 'm/s^2', 'invlength': '1/m'}
VECTOR_ARGS = ('incident_beam', 'scattered_beam', 'gravity')
# event data reaches the coordinate kernels of conversion.tof through convert(); the geometry / cascade helpers
# and the private gravity helper are not handed event data here
PRIVATE_OR_GEOMETRY = ('drop_due_to_gravity', 'scattering_angles_with_gravity', 'scattering_angle_in_yz_plane',
                       'two_theta', 'propagate_times', 'wavelength_to_inverse_velocity',
                       'Q_elements_from_wavelength')
ARG_FAM = {'tof': 'time', 'time': 'time', 'Ltotal': 'length', 'L1': 'length', 'L2': 'length',
           'distance': 'length', 'wavelength': 'length', 'incident_beam': 'length',
           'scattered_beam': 'length', 'energy': 'energy', 'incident_energy': 'energy',
           'final_energy': 'energy', 'two_theta': 'angle', 'Q': 'invlength', 'gravity': 'accel'}
# physical targets (SI) of the two numeric points of every row
TARGETS = (
    {'tof': 4.0e-3, 'time': 1.5e-3, 'Ltotal': 12.0, 'L1': 9.0, 'L2': 2.5, 'distance': 3.0,
     'wavelength': 2.5e-10, 'energy': 8.0e-22, 'incident_energy': 1.6e-21, 'final_energy': 4.0e-22,
     'two_theta': 1.1, 'Q': 2.0e10},
    {'tof': 2.3e-2, 'time': 7.0e-3, 'Ltotal': 31.0, 'L1': 25.0, 'L2': 4.0, 'distance': 7.5,
     'wavelength': 6.0e-10, 'energy': 2.5e-22, 'incident_energy': 4.0e-22, 'final_energy': 1.2e-21,
     'two_theta': 2.4, 'Q': 7.0e9},
)
RULE = ('row = kernel x unit per operand x dtype per operand (the two factor grids are enumerated by TLC, '
        'the product is formed by the harness; thorough: complete product, quick: covering sample containing '
        'every unit row and every dtype row), each at two numeric points; non-trivial = the call returned a '
        'value and the row differs from the all-SI all-double reference row; distinct by (kernel, units, dtypes)')


# ------------------------------------------------------------------------------------ real kernels
def real_kernel(k):
    from scippneutron.conversion import beamline as B
    from scippneutron.conversion import tof as K
    from scippneutron.tof import chopper_cascade as CC

    if k == 'drop_due_to_gravity':
        return lambda **kw: B._drop_due_to_gravity(**kw), ('value',)
    if k == 'scattering_angles_with_gravity':
        return B.scattering_angles_with_gravity, ('two_theta', 'phi')
    if k == 'scattering_angle_in_yz_plane':
        return B.scattering_angle_in_yz_plane, ('value',)
    if k == 'two_theta':
        return B.two_theta, ('value',)
    if k == 'propagate_times':
        return CC.propagate_times, ('value',)
    if k == 'wavelength_to_inverse_velocity':
        return CC.wavelength_to_inverse_velocity, ('value',)
    if k == 'Q_elements_from_wavelength':
        return K.Q_elements_from_wavelength, ('Qx', 'Qy', 'Qz')
    return getattr(K, k), ('value',)


# ------------------------------------------------------------------------------------ scenarios
def numeric(target_SI: float, unit: str, dtype: str):
    """Number handed to the code for a physical target, and the exact physical value it denotes (mpf, SI)."""
    if unit == 'deg':
        x = target_SI * 180 / math.pi
    else:
        x = target_SI / float(lc.si(unit))
    if dtype.startswith('int'):
        n = int(min(max(round(x), 1), INT_LIMIT[dtype]))
        val = n
    else:
        val = lc.short(x, 10)
    ex = mpf(Fraction(val))
    phys = ex * mpmath.pi / 180 if unit == 'deg' else ex * mpf(lc.si(unit))
    return val, phys


def vector_operand(arg, unit, point, tilted):
    """Beam / gravity vectors (always vector3 = double) with 10-bit components; returns (variable, SI array)."""
    f = float(lc.si(unit))
    if arg == 'incident_beam':
        v = np.array([[0.0, 0.0, 10.0], [0.0, 0.0, 23.0]][point])
        if tilted:
            v = np.array([[0.0, 1.5, 10.0], [0.0, -2.0, 23.0]][point])
    elif arg == 'scattered_beam':
        v = np.array([[1.0, 2.0, 3.0], [-1.5, 0.75, 2.0]][point])
    else:
        v = np.array([[0.0, -9.75, 0.0], [0.0, -9.75, 0.0]][point])
    comp = np.array([lc.short(c / f, 10) if c else 0.0 for c in v])
    return comp, comp * f


class Skip(Exception):
    pass


SHAPES = ('1d', 'aux0d', 'first1d', 'all0d', 'events')


def one_d_operands(shape, args, first, data):
    """The operands handed over as 1-d arrays over 'x' (the others are 0-d and hold the first numeric point).
    For the geometry kernels the operand that carries the pixels is `scattered_beam` (they update it in place
    and document no broadcasting of an incident beam that has a dim the scattered beam lacks; shapes are not
    part of the property's grid, so only the usual arrangement is used)."""
    carrier = 'scattered_beam' if 'scattered_beam' in args else first
    if shape in ('1d', 'events'):
        return set(args)
    if shape == 'aux0d':
        return set(data) | {carrier}
    if shape == 'first1d':
        return {carrier}
    return set()


def build(k, args, U, D, tilted, shape='1d', first=None, data=()):
    """Operands of one row (2-element arrays / 0-d / events, see SHAPES) and the same physical scenario in
    SI / float64 in the same shape."""
    ops, ref = {}, {}
    phys = {}
    cond = [1.0, 1.0]   # condition number of the result w.r.t. relative perturbations of the operands
    oned = one_d_operands(shape, args, first, data)
    for a in args:
        pts = (0, 1) if a in oned else (0, 0)
        if a in VECTOR_ARGS:
            comps, sis = zip(*(vector_operand(a, U[a], p, tilted) for p in pts))
            if a in oned:
                ops[a] = sc.vectors(dims=['x'], values=np.array(comps), unit=lc.scu(U[a]))
                ref[a] = sc.vectors(dims=['x'], values=np.array(sis), unit=lc.scu(CANON[ARG_FAM[a]]))
            else:
                ops[a] = sc.vector(value=np.array(comps[0]), unit=lc.scu(U[a]))
                ref[a] = sc.vector(value=np.array(sis[0]), unit=lc.scu(CANON[ARG_FAM[a]]))
            phys[a] = sis
            continue
        vals, ph = zip(*(numeric(TARGETS[p][a], U[a], D[a]) for p in pts))
        phys[a] = list(ph)
        ops[a] = [vals, U[a], D[a]]
    # inelastic kernels: stay clear of the NaN boundary and of cancellation (scenario validity)
    if k.startswith('energy_transfer'):
        from ..refmap import MN

        en = 'incident_energy' if k == 'energy_transfer_direct_from_tof' else 'final_energy'
        Lfix, Lvar = ('L1', 'L2') if k == 'energy_transfer_direct_from_tof' else ('L2', 'L1')
        vals = list(ops['tof'][0])
        for p in range(2):
            E = phys[en][p]
            t0 = phys[Lfix][p] / mpmath.sqrt(2 * E / mpf(MN))
            for _ in range(60):
                t = phys['tof'][p]
                Ev = mpf(MN) * phys[Lvar][p] ** 2 / (2 * (t - t0) ** 2) if t > t0 else None
                if Ev is not None and t > 1.3 * t0 and abs(E - Ev) > 0.2 * max(E, Ev):
                    # dE = E -/+ Ev, Ev ~ (t - t0)^-2: see the bound derived in c05.py
                    cond[p] = float((E + Ev * (1 + 2 * t / (t - t0))) / abs(E - Ev))
                    break
                step = 2 if (Ev is None or t <= 1.3 * t0 or Ev > E) else 0.5
                nv = vals[p] * step
                if D['tof'].startswith('int'):
                    nv = int(round(nv))
                    if not 1 <= nv <= INT_LIMIT[D['tof']]:
                        raise Skip('no valid arrival time within the integer range')
                vals[p] = nv
                ex = mpf(Fraction(nv))
                phys['tof'][p] = ex * mpf(lc.si(U['tof']))
            else:
                raise Skip('no valid arrival time found')
        ops['tof'][0] = tuple(vals)
    for a in args:
        if a in VECTOR_ARGS:
            continue
        vals, u, d = ops[a]
        cu = CANON[ARG_FAM[a]]
        rvals = [float(p / mpf(lc.si(cu))) for p in phys[a]]
        if a not in oned:
            ops[a] = lc.var(np.array(vals[0]), [], u, d)
            ref[a] = lc.var(np.array(rvals[0]), [], cu, 'float64')
        elif shape == 'events' and a == first:
            # two bins over 'x', bin i holds the i-th numeric point twice, one stray event between the bins
            ops[a] = lc.binned_var(np.array([[v, v] for v in vals]), u, d, gaps=[0, 1, 0], dim='x')
            ref[a] = lc.binned_var(np.array([[v, v] for v in rvals]), cu, 'float64', gaps=[0, 1, 0], dim='x')
        else:
            ops[a] = lc.var(np.array(vals), ['x'], u, d)
            ref[a] = lc.var(np.array(rvals), ['x'], cu, 'float64')
    if not oned:
        cond = cond[:1]
    elif shape == 'events':
        cond = [cond[0], cond[0], cond[1], cond[1]]
    return ops, ref, cond


def call(f, parts, ops):
    try:
        r = f(**ops)
    except sc.DTypeError as e:
        return 'unsupported', repr(e)[:160]
    except Exception as e:  # noqa: BLE001
        return 'raised', repr(e)[:300]
    try:
        out = {p: r[p] for p in parts} if isinstance(r, dict) else {'value': r}
        for p, v in out.items():
            if not isinstance(v, sc.Variable):
                return 'malformed', f'result {p} is a {type(v).__name__}, not a Variable'
            lc.elem_unit_name(v), lc.elem_dtype_name(v), lc.flat_values(v)
    except Exception as e:  # noqa: BLE001
        return 'malformed', f'malformed result: {e!r}'[:300]
    return 'ok', out


def scale_fraction(os_):
    k10, kE, kDeg = os_
    if kDeg:
        raise MachineryError('output unit with a degree factor')
    return Fraction(10) ** k10 * Fraction(E_MANT) ** kE


# ------------------------------------------------------------------------------------ driver
def load_grid(ctx):
    out = ctx.tmp / 'c07-grid.ndjson'
    em = ctx.tlc('conv/Emit_UnitsKernels.tla', 'Emit_UnitsKernels.cfg', workers=1, env={'OUT_FILE': str(out)},
                 timeout=600, count=False)
    if 'No error has been found' not in em.out and em.rc != 0:
        raise MachineryError(f'grid emission failed:\n{em.out[-2000:]}')
    scales = [p for p in em.printed if isinstance(p, list) and p and p[0] == 'SCALES']
    if not scales:
        raise MachineryError('specification did not print its scale table')
    for name, vec in scales[0][1]['$fn']:
        if name == 'deg':
            if vec != [0, 0, 1]:
                raise MachineryError('deg scale')
            continue
        if scale_fraction(vec) != lc.si(name):
            raise MachineryError(f'scale of {name}: specification {vec} vs harness {lc.si(name)}')
    urows, drows = {}, {}
    for line in out.read_text().splitlines():
        r = json.loads(line)
        (urows if r['t'] == 'U' else drows).setdefault(r['k'], []).append(r)
    return urows, drows


def select_rows(ctx, urows, drows):
    """Rows (kernel, unit row, dtype row) in replay order.

    The order matters for one class of defects only: state kept between calls (a converted constant
    cached per unit with the precision of its first caller, ...).  Therefore the first use of every unit
    row is the all-single dtype row, directly followed by the all-double one, the other dtype rows are walked
    in a different rotation for every unit row, and
    at the end (after the marker row 'again') a sample of the all-double rows and a sample of the rows of
    every other dtype class are replayed once more, in another order, with the whole grid as history.
    """
    rng = ctx.rng
    done64, done_other = [], []

    def emit(k, u, d):
        if all(v == 'float64' for v in d['D'].values()):
            done64.append((k, u, d))
        elif len(done_other) < 20000 or rng.random() < 0.2:
            done_other.append((k, u, d))
        return k, u, d

    def is_all(d, dt):
        return all(v == dt for a, v in d['D'].items() if a not in VECTOR_ARGS)

    for k in sorted(urows):
        us, ds = urows[k], drows[k]
        j32 = next((j for j, d in enumerate(ds) if is_all(d, 'float32')), None)
        j64 = next((j for j, d in enumerate(ds) if is_all(d, 'float64')), None)
        if j32 is None or j64 is None:
            raise MachineryError(f'{k}: dtype grid without an all-single / all-double row')
        if ctx.thorough or len(us) * len(ds) <= 400:
            for i, u in enumerate(us):
                # hostile order: the first use of every unit combination is single precision, the all-double
                # row follows at once (a constant remembered with its first caller's precision shows there),
                # the remaining dtype rows in a rotation that differs from unit row to unit row
                rest = [d for j, d in enumerate(ds) if j not in (j32, j64)]
                r = i % max(1, len(rest))
                for d in [ds[j32], ds[j64]] + rest[r:] + rest[:r]:
                    yield emit(k, u, d)
            continue
        seen = set()
        pairs = []
        for i in range(len(us)):
            pairs += [(i, j32), (i, j64)]
        pairs += [(i, rng.randrange(len(ds))) for i in range(len(us))]
        pairs += [(rng.randrange(len(us)), j) for j in range(len(ds))]
        pairs += [(rng.randrange(len(us)), rng.randrange(len(ds))) for _ in range(250)]
        for i, j in pairs:
            if (i, j) not in seen:
                seen.add((i, j))
                yield emit(k, us[i], ds[j])
    yield 'again', None, None
    again = list(done64)
    rng.shuffle(again)
    yield from again[:3000 if ctx.thorough else 400]
    # ... and rows of every other dtype class, now with the double-precision rows as their history
    rng.shuffle(done_other)
    yield from done_other[:2000 if ctx.thorough else 250]


def run(ctx):
    ctx.rule = RULE
    check_constants()
    ctx.assume('data operands: tof kernels - the converted coordinate; inelastic kernels - tof and the supplied '
               'energy (single only if both are single); gravity kernels - wavelength; two_theta and the '
               'chopper-cascade helpers compute in double whatever the operand dtypes (weakest reading)')
    ctx.assume('a scipp DTypeError for a call with an integer operand is recorded as "not supported"')
    ctx.assume('drop_due_to_gravity is a private helper: exercised with floating-point operands only')
    ctx.assume('tolerance of "no more than rounding": 1e-11 relative, 1e-5 as soon as an operand is float32')
    # ---- 1. design
    cfg = 'MC_UnitsKernels_thorough.cfg' if ctx.thorough else 'MC_UnitsKernels.cfg'
    res = ctx.tlc('conv/MC_UnitsKernels.tla', cfg, workers=int(os.environ.get('VERIF_TLC_WORKERS', 16)), timeout=1500)
    require_ok(ctx, res, 'UnitsKernels model')
    # shapes of the data operands (array / 0-d) as a further dimension of the state machine, on a reduced unit grid
    res = ctx.tlc('conv/MC_UnitsKernels.tla', 'MC_UnitsKernels_shapes.cfg', workers=4, timeout=600)
    require_ok(ctx, res, 'UnitsKernels model with shapes')
    for b in ('qunit', 'recipe', 'dtype_any', 'scalar_param'):
        ctx.tlc('conv/MC_UnitsKernels.tla', f'Neg_UnitsKernels_{b}.cfg', workers=4, expect_error=True, timeout=300)
    urows, drows = load_grid(ctx)
    ctx.extra['unit_rows'] = sum(len(v) for v in urows.values())
    ctx.extra['dtype_rows'] = sum(len(v) for v in drows.values())
    ctx.extra['grid_size'] = sum(len(urows[k]) * len(drows[k]) for k in urows)
    ctx.exhaustive = bool(ctx.thorough)

    # ---- 2. replay + record
    events, details = [], []
    stats = {'ok': 0, 'unsupported': 0, 'raised': 0, 'skipped': 0, 'private_int_not_exercised': 0}
    unsupported_int64_only: dict = {}
    worst = {'float64': 0.0, 'float32': 0.0}
    worst_by_kernel: dict = {}
    tid = 0
    kernels = {}
    again = False
    shapes_used: dict = {}
    for k, ur, dr in select_rows(ctx, urows, drows):
        if k == 'again':
            again = True
            continue
        U, D = ur['U'], dr['D']
        args = list(U)
        if k == 'drop_due_to_gravity' and any(D[a].startswith('int') for a in args):
            stats['private_int_not_exercised'] += 1
            continue
        if k not in kernels:
            kernels[k] = real_kernel(k)
        f, parts = kernels[k]
        first = ur['args'][0]
        shape = ctx.rng.choice(('1d', '1d', 'aux0d', 'first1d', 'all0d', 'events'))
        if shape == 'events' and not (first in dr['data'] and k not in PRIVATE_OR_GEOMETRY):
            shape = 'all0d'
        tilted = (tid % 2 == 1) and 'gravity' in args and k != 'scattering_angle_in_yz_plane'
        try:
            ops, ref, cond = build(k, args, U, D, tilted, shape, first, dr['data'])
        except Skip:
            stats['skipped'] += 1
            continue
        status, got = call(f, parts, ops)
        prec = 'float32' if 'float32' in D.values() else 'float64'
        base = {'ev': 'call', 'tid': tid, 'k': k, 'U': U, 'D': D, 'shape': shape, 'layout_ok': True,
                'again': again}
        det = {'expected_out': ur['out'], 'expected_dtype': dr['dt'], 'tilted_gravity': tilted,
               'data_operands': sorted(dr['data']), 'shape': shape}
        tid += 1
        if status != 'ok':
            stats[status] = stats.get(status, 0) + 1
            events.append(dict(base, part='value', status=status, out='', dt='', close=True))
            details.append(dict(det, exc=got))
            if status == 'unsupported' and 'int32' not in D.values():
                key = (k, tuple(sorted(a for a in args if D[a] == 'int64')))
                unsupported_int64_only[key] = unsupported_int64_only.get(key, 0) + 1
            ctx.case()
            continue
        rstatus, rref = call(f, parts, ref)
        if rstatus != 'ok':
            # the same scenario in coherent SI units and double precision: no refusal is admissible here, and a
            # failure is the implementation's (the operands are plain float64 variables), not the harness'
            stats['reference_row_failed'] = stats.get('reference_row_failed', 0) + 1
            Uref = {a: CANON[ARG_FAM[a]] for a in args}
            events.append(dict(base, U=Uref, D={a: 'float64' for a in args}, part='value',
                               status='raised' if rstatus == 'unsupported' else rstatus, out='', dt='', close=True))
            details.append(dict(det, exc=rref, reference_row=True))
            ctx.case()
            continue
        stats['ok'] += 1
        shapes_used[shape] = shapes_used.get(shape, 0) + 1
        os_frac = mpf(scale_fraction(ur['os']))
        for part in parts:
            g, r0 = got[part], rref[part]
            out_name = lc.elem_unit_name(g)
            ref_name = lc.elem_unit_name(r0)
            gv = np.asarray(lc.flat_values(g), dtype='float64').ravel()
            rv = np.asarray(lc.flat_values(r0), dtype='float64').ravel()
            layout_ok = lc.is_binned(g) == (shape == 'events') and lc.is_binned(r0) == (shape == 'events')
            close = gv.shape == rv.shape and len(gv) == len(cond) and ref_name in lc.UNITS
            rel = 0.0
            if close:
                for x, y, cn in zip(gv, rv, cond):
                    want = mpf(float(y)) * mpf(lc.si(ref_name)) if math.isfinite(y) else mpf(0)
                    have = mpf(float(x)) * os_frac if math.isfinite(x) else mpf(0)
                    e = float(abs((have - want) / want)) if math.isfinite(x) and want != 0 else float('inf')
                    rel = max(rel, e / cn)      # relative difference in units of the condition number
                close = rel <= TOL[prec]
                if out_name == ur['out'] and math.isfinite(rel):
                    worst[prec] = max(worst[prec], rel)
                    wk = worst_by_kernel.setdefault(k, {'float64': 0.0, 'float32': 0.0})
                    wk[prec] = max(wk[prec], rel)
            events.append(dict(base, part=part, status='ok', out=out_name, dt=lc.elem_dtype_name(g),
                               close=bool(close), layout_ok=bool(layout_ok)))
            d2 = dict(det, rel_difference=rel, got=[float(v) for v in gv], reference_SI_run=[float(v) for v in rv],
                      reference_unit=ref_name)
            if k.startswith('energy_transfer'):
                en = 'incident_energy' if k == 'energy_transfer_direct_from_tof' else 'final_energy'
                d2['const_class'] = lc.const_class(D[en], U[en], U['tof'], (U['L1'], U['L2']))
            details.append(d2)
        trivial = all(U[a] == CANON[ARG_FAM[a]] and D[a] == 'float64' for a in args) and shape == '1d'
        ctx.case(nontrivial_id=None if trivial or again else (
            k, tuple(sorted(U.items())), tuple(sorted(D.items())), shape))
        if tid in (5, 3000):
            ctx.sample({'event': events[-1], 'operands': {a: repr(lc.flat_values(v).tolist())
                                                          for a, v in ops.items()}})
    ctx.extra['rows_by_shape'] = shapes_used
    ctx.extra['calls'] = stats
    ctx.extra['max_relative_difference_observed'] = worst
    ctx.extra['tolerances'] = TOL
    ctx.extra['max_relative_difference_by_kernel'] = worst_by_kernel
    ctx.extra['observation_int64_operands_refused_with_DTypeError'] = [
        {'kernel': k, 'int64_operands': list(a), 'rows': n} for (k, a), n in sorted(unsupported_int64_only.items())]
    if not ctx.samples:
        ctx.sample({'event': events[0]})

    # ---- 3. TLC judges every event
    nviol = 0
    found = []
    for line, _tid, clause in lc.run_trace(ctx, 'conv/Trace_UnitsKernels.tla', events, 'Trace_UnitsKernels'):
        ev, det = events[line - 1], details[line - 1]
        D = ev['D']
        fl = sorted({d for d in D.values()})
        nviol += 1
        if det.get('reference_row'):
            key = f'{ev["k"]}: {clause} in the all-SI all-double run of a row'
        elif det.get('const_class', 'normal') != 'normal' and clause == 'value_changed_by_reexpression':
            key = f'{ev["k"]}: {clause} for float32 energy when {det["const_class"]}'
        elif clause == 'output_dtype':
            data = ', '.join(f'{a}={D[a]}' for a in det['data_operands']) or 'none'
            key = f'{ev["k"]}[{ev["part"]}]: {clause} {ev["dt"]} (data operands: {data})'
        else:
            key = f'{ev["k"]}[{ev["part"]}]: {clause} (operand dtypes {"/".join(fl)})'
        found.append((key, ev, det))
    # a signature seen with all-1-d operands is reported as such; one that only shows in other shapes says so
    plain = {key for key, ev, _ in found if ev['shape'] == '1d'}
    only = {}
    for key, ev, _ in found:
        if key not in plain:
            only.setdefault(key, set()).add(ev['shape'])
    for key, ev, det in found:
        if key in only:
            key += f' [only in shape {"/".join(sorted(only[key]))}]'
        ctx.violation(key, {'event': ev, 'context': det})
    # vacuity last and only on a tree without violations (a broken implementation must end as a violation)
    if nviol == 0:
        if stats['ok'] < 100:
            raise MachineryError(f'vacuous run: {stats}')
        for sh in SHAPES:
            if not shapes_used.get(sh):
                raise MachineryError(f'vacuous run: no row replayed in shape {sh}')

META = {
    'design_ref': 'DESIGN.md §5 C07',
    'technique': 'TLA+ unit algebra (dimension and scale exponent vectors) and kernel signature table; state machine '
                 'over the unit x dtype grid model-checked by TLC; TLC-enumerated grid replayed into the real '
                 'kernels; every real call recorded and judged by a TLC trace specification',
    'text': 'TLC proves on the full grid of every kernel that the documented output unit is dimensionally consistent '
            'with the documented formula, that folding unit factors into the constant is unit-equivariant, that the '
            'output unit depends on the donor operand only and that the precision rule is total and depends on the '
            'data operands only. Every grid row is replayed into the real tof / inelastic / gravity / cascade '
            'kernels at two numeric points and compared with the all-SI all-double evaluation of the same physical '
            'scenario (1e-11 / 1e-5); TLC judges output unit, dtype class and refusal class of every call.',
    'note': 'Trusted: TLC, scipp (operand construction, unit equality), mpmath. The value comparison is metamorphic '
            '(kernel vs the same kernel in SI units), decided by the harness. int64/int32 refusals by scipp '
            '(DTypeError) are recorded as observations, not violations. total_beam_length / straight_*_beam '
            '(plain additions) are not in the grid: scipp refuses mixed units there by design.',
}
