SPECIFICATION Spec
CONSTANTS
  Universe <- UQ
  ArgSeq <- ArgsQ
  MaxSteps = 3
  LibKnown <- LibQ
  Bug = "end_from_start"
  Export = FALSE
INVARIANT Admitted
CHECK_DEADLOCK FALSE
