SPECIFICATION TSpec
CONSTANTS
  Keys = {1, 2}
  MaxOps = 1000
  Bug = "none"
  NSlots = 6
  NUnits = 9
  NDtypes = 9
  Part = "both"
INVARIANT Done
CHECK_DEADLOCK FALSE
