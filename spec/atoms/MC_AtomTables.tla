---------------------------- MODULE MC_AtomTables ----------------------------
(* Bounds of the exhaustive model: the name universe is a handful of real names of the (mini)    *)
(* tables together with ALL their near-miss names, so that every lookup history of MaxHist steps  *)
(* mixes hits, misses and names that are cut / extended / re-cased versions of each other.       *)
EXTENDS AtomTables

Seeds == { Tab.weights[i].cp : i \in 1..Len(Tab.weights) } \cup
         { Tab.masses[i].cp : i \in {1, 2, Len(Tab.masses)} } \cup
         { Tab.scat[i].cp : i \in {1, 2, 3, Len(Tab.scat)} }
MC_UniverseSmall == LET H == <<72>> He == <<72, 101>> H1 == <<49, 72>>
                    IN {H, He, H1} \cup NearMisses(H) \cup NearMisses(He) \cup NearMisses(H1)
(* the same with the other notations ("H1", "H-1", ...) and the neighbouring mass numbers of 1H: histories of *)
(* two lookups (the thorough histories of three lookups keep the smaller universe for their time budget)      *)
MC_UniverseNotation == MC_UniverseSmall \cup OtherNotations(<<49, 72>>) \cup Neighbours(<<49, 72>>)
MC_UniverseLarge == Seeds \cup UNION { NearMisses(n) : n \in Seeds }
=============================================================================
