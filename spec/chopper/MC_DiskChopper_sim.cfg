SPECIFICATION Spec
CONSTANTS
  K = 360
  MaxSlits = 6
  BeamPos <- MC_BeamSim
  Phases <- MC_PhasesSim
  Ratios <- MC_Ratios
  MaxPulses = 4
  MaxTurns = 16
  Pick = 3
  Bug = "none"
INVARIANT TypeOK
INVARIANT RejectedIffOverlap
INVARIANT RefusedIffOutOfPhase
INVARIANT OpenBeforeClose
INVARIANT MaximalOpen
INVARIANT OncePerRotation
INVARIANT NoneMissing
INVARIANT DurationIsWidth
INVARIANT ExpandOnePulse
CHECK_DEADLOCK FALSE
