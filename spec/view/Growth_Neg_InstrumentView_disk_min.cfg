SPECIFICATION Spec
CONSTANTS
  Detectors <- MC_DetectorsQuick
  PixelSizes = {0}
  Names = {"a", "b"}
  Types = {"box", "cylinder", "disk", "sphere"}
  Centers <- MC_CentersQuick
  Sizes <- MC_SizesQuick
  Styles <- MC_StylesQuick
  MaxComps = 2
  Bug = "disk_min"
INVARIANT Aligned
INVARIANT OneShapeOneLabel
INVARIANT TypeAndPlace
INVARIANT BoundingBox
INVARIANT DiskFacesBeam
INVARIANT LabelAbove
INVARIANT StyleAsRequested
INVARIANT CloudOnce
INVARIANT PixelGuess
INVARIANT FarReaches
INVARIANT NothingWithoutComponents
INVARIANT UnknownRefused
INVARIANT OrderIndependent
PROPERTY EarlierObjectsKept
PROPERTY FarMonotone
PROPERTY InputUnchanged
PROPERTY RefusalLeavesScene
CHECK_DEADLOCK FALSE
