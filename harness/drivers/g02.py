from .. import lib_growth_metadata

def run(ctx):
    lib_growth_metadata.run(ctx)
