SPECIFICATION Spec
CONSTANTS
  MaxEvents = 3
  Shapes <- MC_ShapesQuick
  FullPermBins = 4
  MaxCalls = 2
  Bug = "consumed_work_buffer"
INVARIANT Repeatable
