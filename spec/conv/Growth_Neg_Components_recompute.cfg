SPECIFICATION Spec
CONSTANTS
  Bug = "recompute"
  Order = "any"
INVARIANT AnswerIsTable
INVARIANT GivenReturnedAsIs
INVARIANT OnlyGivenInputsUsed
INVARIANT CallerUntouched
INVARIANT WorkOnlyGrows
INVARIANT NoScatterIsStraightDistance
INVARIANT ScatterIsSumOfLegs
INVARIANT SampleIrrelevantWithoutScatter
CHECK_DEADLOCK FALSE
