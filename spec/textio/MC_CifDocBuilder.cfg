SPECIFICATION Spec
CONSTANTS
  MaxCalls = 3
  Bug = "none"
INVARIANT TypeOK
INVARIANT SavedReadsBack
INVARIANT NoAuthorLostOrMerged
INVARIANT EveryRoleHasOneAuthor
INVARIANT ContentInCallOrder
CHECK_DEADLOCK FALSE
