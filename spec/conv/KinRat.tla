------------------------------- MODULE KinRat -------------------------------
(* Exact rational arithmetic on pairs <<num, den>> (den > 0 after Norm) for the kinematic   *)
(* specifications (C01, C05).  All numbers stay far below TLC's 32-bit limit on the grids    *)
(* used.  ExactSqrt is defined on perfect-square rationals only (every on-grid value is one) *)
(* and returns the marker NotSquare otherwise, which the TypeOK invariants exclude.          *)
EXTENDS Integers

RAbs(a) == IF a < 0 THEN -a ELSE a

RECURSIVE GCD(_, _)
GCD(a, b) == IF b = 0 THEN a ELSE GCD(b, a % b)

Norm(r) == LET g == GCD(RAbs(r[1]), RAbs(r[2]))
               s == IF r[2] < 0 THEN -1 ELSE 1
           IN IF r[1] = 0 THEN <<0, 1>>
              ELSE <<s * (r[1] \div g), s * (r[2] \div g)>>

RInt(n) == <<n, 1>>
RMul(a, b) == Norm(<<a[1] * b[1], a[2] * b[2]>>)
RDiv(a, b) == Norm(<<a[1] * b[2], a[2] * b[1]>>)
RAdd(a, b) == Norm(<<a[1] * b[2] + b[1] * a[2], a[2] * b[2]>>)
RSub(a, b) == Norm(<<a[1] * b[2] - b[1] * a[2], a[2] * b[2]>>)
RInv(a) == RDiv(<<1, 1>>, a)
RSq(a) == RMul(a, a)
REq(a, b) == Norm(a) = Norm(b)
RLt(a, b) == LET x == Norm(a) y == Norm(b) IN x[1] * y[2] < y[1] * x[2]
RLe(a, b) == LET x == Norm(a) y == Norm(b) IN x[1] * y[2] <= y[1] * x[2]
RSign(a) == LET x == Norm(a) IN IF x[1] < 0 THEN -1 ELSE IF x[1] = 0 THEN 0 ELSE 1

(* integer square root by bisection; 46340^2 < 2^31 *)
RECURSIVE ISqrtB(_, _, _)
ISqrtB(n, lo, hi) ==
    IF lo >= hi THEN lo
    ELSE LET mid == (lo + hi + 1) \div 2
         IN IF mid * mid <= n THEN ISqrtB(n, mid, hi) ELSE ISqrtB(n, lo, mid - 1)
ISqrt(n) == ISqrtB(n, 0, IF n < 46340 THEN n ELSE 46340)

NotSquare == <<-1, 1>>
ExactSqrt(r) ==
    LET x == Norm(r)
        a == ISqrt(x[1])
        b == ISqrt(x[2])
    IN IF x[1] >= 0 /\ a * a = x[1] /\ b * b = x[2] THEN <<a, b>> ELSE NotSquare
=============================================================================
