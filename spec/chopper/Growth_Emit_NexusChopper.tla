---------------------- MODULE Growth_Emit_NexusChopper ----------------------
(* Spec -> code.  TLC enumerates, at constant level, every TableStride-th / GeoStride-th      *)
(* group of the two families of the bounded input space together with what the decision table says about it, once for the             *)
(* post-processed group (extract_chopper_from_nexus, then from_nexus) and once for the group  *)
(* handed to from_nexus as it is; harness/lib_growth_chopper.py replays them into the code.   *)
EXTENDS Growth_NexusChopperInputs, Json, IOUtils, SequencesExt, TLC

CONSTANTS TableStride, GeoStride
VARIABLE dummy

Verdict(g) ==
    [ specified  |-> Specified(g),
      acceptable |-> Acceptable(g),
      classes    |-> AllowedClasses(g),
      broken     |-> { r[1] : r \in BrokenRows(g) },
      result     |-> IF Specified(g) /\ Acceptable(g) THEN ResultOf(g)
                     ELSE [ n |-> -1, begin |-> <<>>, end |-> <<>>,
                            height |-> [present |-> FALSE, vals |-> <<>>], radius |-> FALSE ] ]

RecordOf(g) == [ g |-> g, processed |-> ExtractGroup(g),
                 via_extract |-> Verdict(ExtractGroup(g)), as_is |-> Verdict(g) ]

Strided(S, k) == LET gs == SetToSeq(S) IN [ i \in 1..(Len(gs) \div k) |-> RecordOf(gs[i * k]) ]
Records == Strided(TableInputs, TableStride) \o Strided(GeoInputs \ TableInputs, GeoStride)

ASSUME ndJsonSerialize(IOEnv.OUT_CASES, Records)
ASSUME PrintT(<<"EMITTED", Len(Records), Cardinality(TableInputs), Cardinality(GeoInputs)>>)

EInit == dummy = 0
ENext == UNCHANGED dummy
ESpec == EInit /\ [][ENext]_dummy
=============================================================================
