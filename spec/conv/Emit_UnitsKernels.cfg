
