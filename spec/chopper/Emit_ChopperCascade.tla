------------------------ MODULE Emit_ChopperCascade ------------------------
(* Spec -> code (mode M1).  TLC enumerates, at constant level, every Stride-th cascade of    *)
(* the bounded ChopperCascade model (pulse, choppers by increasing distance) together with   *)
(* the exact expected result (polygons at the final distance, transmitted grid neutrons)     *)
(* and writes them as NDJSON; harness/drivers/c11.py replays them into the real API.         *)
EXTENDS ChopperCascadeDefs, Json, IOUtils, SequencesExt

CONSTANTS Pulses, Choppers, MaxChops, FinalDist, L, Stride
VARIABLE dummy

RECURSIVE Cascades(_)
Cascades(n) ==
    IF n = 0 THEN { <<>> }
    ELSE LET P == Cascades(n - 1)
         IN P \cup { Append(pc[1], pc[2]) :
                       pc \in { q \in { x \in P : Len(x) = n - 1 } \X Choppers :
                                  Len(q[1]) = 0 \/ q[2].d > q[1][Len(q[1])].d } }

RecordOf(p, cs) ==
    LET fr == PropagateFrame(ChopList([d |-> 0, polys |-> <<Rect(p, L)>>], cs, L, "none"), FinalDist, "none")
    IN [ pulse |-> <<p.t0, p.t1, p.w0, p.w1>>, choppers |-> cs, dfinal |-> FinalDist, L |-> L,
         expect |-> fr.polys,
         alive |-> SetToSeq({ n \in Neutrons(p) : Transmitted(n, cs) }) ]

Records ==
    LET ps == SetToSeq(Pulses)
        cs == SetToSeq(Cascades(MaxChops))
        idx == { ij \in (1..Len(ps)) \X (1..Len(cs)) : (ij[1] * 5 + ij[2]) % Stride = 0 }
    IN SetToSeq({ RecordOf(ps[ij[1]], cs[ij[2]]) : ij \in idx })

ASSUME ndJsonSerialize(IOEnv.OUT_CASES, Records)
ASSUME PrintT(<<"EMITTED", Len(Records)>>)

EInit == dummy = 0
ENext == UNCHANGED dummy
ESpec == EInit /\ [][ENext]_dummy
=============================================================================
