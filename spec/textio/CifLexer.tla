------------------------------ MODULE CifLexer ------------------------------
(* Exhaustive exploration of all strings up to MaxLen over the CIF-significant alphabet. *)
(* The string s is grown one character at a time; every reachable s is looked at twice:  *)
(*   - as a VALUE that a writer has to put into a file (is there a quoting? does the     *)
(*     reference quoting SafeQuote recover it, alone and next to other values?)          *)
(*   - as a piece of FILE TEXT (can any text at all make the lexer return a value that   *)
(*     contains LF followed by ';' ?  can comment text become a token?)                  *)
EXTENDS CifLexerDefs

CONSTANTS Alphabet,   \* set of code points
          MaxLen,
          Bug         \* "none" | "naive" (negative control: quoting rule that ignores reserved
                      \*  characters) | "lfsemi" (negative control: claims every string representable)

VARIABLE s
vars == <<s>>

Init == s = <<>>
AddChar(c) == /\ Len(s) < MaxLen
              /\ s' = Append(s, c)
Next == \E c \in Alphabet : AddChar(c)
Spec == Init /\ [][Next]_vars

-----------------------------------------------------------------------------
Quote(v) == IF Bug = "naive" THEN NaiveQuote(v) ELSE SafeQuote(v)
Repr(v)  == IF Bug = "lfsemi" THEN TRUE ELSE Representable(v)

(* a quoted value after a tag; text fields start on their own line *)
Placed(q) == (IF q.own THEN <<LF>> ELSE <<SP>>) \o q.txt \o <<LF>>

PairText(v) == TagT \o Placed(Quote(v)) \o TagU \o <<SP>> \o ValZ \o <<LF>>

(* loop_ / _t / _u / v z / z v : v in the first column (start of a line) and behind     *)
(* another value on the same line                                                       *)
LoopText(v) ==
    LET q == Quote(v)
        first == IF q.own THEN q.txt \o <<LF>> \o ValZ \o <<LF>>
                 ELSE q.txt \o <<SP>> \o ValZ \o <<LF>>
        second == ValZ \o Placed(q)
    IN KwLoop \o <<LF>> \o TagT \o <<LF>> \o TagU \o <<LF>> \o first \o second

Same(a, b) == Strip(NormalizeBreaks(a)) = Strip(NormalizeBreaks(b))

(* (i-a) every representable string has a quoting that the lexer maps back to it *)
PairRoundTrip ==
    Repr(s) =>
      LET r == Lex(PairText(s)) IN
      /\ r.e = ""
      /\ Len(r.t) = 4
      /\ r.t[1] = [k |-> "tag", s |-> <<116>>]
      /\ r.t[2].k = "val" /\ Same(r.t[2].s, s)
      /\ r.t[3] = [k |-> "tag", s |-> <<117>>]
      /\ r.t[4] = [k |-> "val", s |-> ValZ]

LoopRoundTrip ==
    Repr(s) =>
      LET r == Lex(LoopText(s)) IN
      /\ r.e = ""
      /\ Len(r.t) = 7
      /\ r.t[1].k = "loop" /\ r.t[2].k = "tag" /\ r.t[3].k = "tag"
      /\ r.t[4].k = "val" /\ Same(r.t[4].s, s)
      /\ r.t[5] = [k |-> "val", s |-> ValZ]
      /\ r.t[6] = [k |-> "val", s |-> ValZ]
      /\ r.t[7].k = "val" /\ Same(r.t[7].s, s)

(* (i-b) no text whatsoever makes the lexer return a value containing LF + ';': such    *)
(* strings have no quoting, so refusing them is the only way not to corrupt the file.   *)
(* s is read as file text here, at the start of a file and behind a tag.                *)
NoValueHasLfSemi ==
    /\ \A i \in 1..Len(Lex(s).t) : ~HasLfSemi(Lex(s).t[i].s)
    /\ LET r == Lex(TagT \o <<LF>> \o s \o <<LF>>) IN \A i \in 1..Len(r.t) : ~HasLfSemi(r.t[i].s)

(* the exact boundary: a string that contains LF+';' after removing surrounding blanks  *)
(* is not recovered (even up to blanks) by any of the candidate quotings                *)
Candidates(v) == { <<SEMI>> \o v \o <<LF, SEMI>>, <<SEMI, SP>> \o v \o <<LF, SEMI>>,
                   <<SQ>> \o v \o <<SQ>>, <<DQ>> \o v \o <<DQ>>, v }
NotRepresentableIsLost ==
    HasLfSemi(Strip(NormalizeBreaks(s))) =>
      \A c \in Candidates(s) :
         LET r == Lex(TagT \o <<LF>> \o c \o <<LF>> \o TagU \o <<SP>> \o ValZ \o <<LF>>) IN
         ~( r.e = "" /\ Len(r.t) = 4 /\ r.t[2].k = "val" /\ Same(r.t[2].s, s) )

(* (ii) comment text never becomes a token, whatever it contains *)
CommentsAreNotTokens ==
    LET r == Lex(CommentLinesAnyBreak(s) \o TagT \o <<SP>> \o ValZ \o <<LF>>) IN
    /\ r.e = ""
    /\ r.t = << [k |-> "tag", s |-> <<116>>], [k |-> "val", s |-> ValZ] >>

TypeOK == Len(s) <= MaxLen
=============================================================================
