------------------------- MODULE KinematicsInelDefs -------------------------
(* State-free definitions for inelastic energy transfer (property C05), natural units      *)
(* m_n = 1, exact rationals.  A neutron flies L1 with speed vi (energy Ei = vi^2/2), is      *)
(* scattered, flies L2 with speed vf (Ef = vf^2/2).  The kernels are transcribed from the    *)
(* documentation of energy_transfer_{direct,indirect}_from_tof:                              *)
(*     t0 = sqrt(m L^2 / (2 E))  of the leg whose energy is supplied                         *)
(*     direct  :  dE = Ei - m L2^2 / (2 (t - t0)^2)                                         *)
(*     indirect:  dE = m L1^2 / (2 (t - t0)^2) - Ef                                         *)
(* and the result is NaN exactly for t <= t0 (property C05), never infinite.                 *)
EXTENDS KinRat

EnergyOf(v) == RDiv(RSq(v), RInt(2))
T0(L, E) == RMul(RInt(L), ExactSqrt(RInv(RMul(RInt(2), E))))

(* sign of t - t0 decides the class.  Bug = "lt": mask only t < t0 (negative control)       *)
MaskedSign(sg, Bug) == IF Bug = "lt" THEN sg < 0 ELSE sg <= 0
ClassOfSign(sg, Bug) == IF MaskedSign(sg, Bug) THEN "nan"
                        ELSE IF sg = 0 THEN "inf"      \* unmasked division by (t - t0)^2 = 0
                        ELSE "num"

NoVal == <<0, 1>>
(* the kernel with the flight time t0 of the fixed-energy leg given explicitly (KinematicsInel     *)
(* hands in a remembered t0 for its negative control "stale_t0")                                   *)
KernelWith(mode, t, L1, L2, E, t0, Bug) ==
    LET Lvar == IF mode = "direct" THEN L2 ELSE L1
        d    == RSub(t, t0)
        cls  == ClassOfSign(RSign(d), Bug)
        evar == IF cls = "num" THEN RDiv(RInt(Lvar * Lvar), RMul(RInt(2), RSq(d))) ELSE NoVal
    IN [cls |-> cls,
        val |-> IF cls # "num" THEN NoVal
                ELSE IF mode = "direct" THEN RSub(E, evar) ELSE RSub(evar, E)]

Lfix(mode, L1, L2) == IF mode = "direct" THEN L1 ELSE L2       \* leg of the supplied energy
Kernel(mode, t, L1, L2, E, Bug) == KernelWith(mode, t, L1, L2, E, T0(Lfix(mode, L1, L2), E), Bug)

(* ---- abstraction used to judge recorded executions -------------------------------------- *)
(* side of a recorded arrival time relative to the exact t0:                                 *)
(*   "below" t < t0 beyond the guard band,  "at" t = t0 exactly (only where float arithmetic  *)
(*   is exact),  "above" t > t0 beyond the band,  "band" within the band: sign as computed    *)
(*   in floats may be either -1 or +1 (never required to be 0)                                *)
SignsOf(side) == CASE side = "below" -> {-1}
                   [] side = "at"    -> {0}
                   [] side = "above" -> {1}
                   [] side = "band"  -> {-1, 1}
AllowedClasses(side) == { ClassOfSign(sg, "none") : sg \in SignsOf(side) }
=============================================================================
