---------------------- MODULE Growth_NexusChopperDefs ----------------------
(* GROWTH (beyond the 20 listed properties): field validation and normalisation of         *)
(*   scippneutron.chopper.extract_chopper_from_nexus   (NeXus group -> processed layout)    *)
(*   scippneutron.chopper.DiskChopper.from_nexus       (processed layout -> DiskChopper)    *)
(* State-free definitions shared by the state machine Growth_NexusChopper, the emitter      *)
(* Growth_Emit_NexusChopper and the judge Growth_Trace_NexusChopper.                        *)
(*                                                                                          *)
(* A GROUP g (raw or processed) is described by what decides the outcome, not by numbers:   *)
(*   type            "absent" | "single" (the NeXus string) | "single_enum" |               *)
(*                   "contra_rotating_pair" | "synchro_pair"                                *)
(*   position        "absent" | "typo" | "vector"                                           *)
(*   rotation_speed, beam_position, phase      a FORM:                                      *)
(*        "absent"   key not in the group        "typo"  only a misspelt key is there       *)
(*        "none"     key present, value None     "scalar" 0-d Variable                      *)
(*        "array1" / "arrayN"   1-d Variable with 1 / several entries (time dependent)      *)
(*        "dataarray"           DataArray with a time coordinate (time dependent)           *)
(*        "log1" / "logN"       NXlog group {value, time} with 1 / several entries, value   *)
(*                              a plain Variable                                             *)
(*        "dlog1" / "dlogN"     NXlog group {value} whose value is a DataArray with a time   *)
(*                              coordinate (the layout of scippneutron.data.chopper_mockup)  *)
(*   unit            unit of rotation_speed                                                  *)
(*   keys            which of slit_edges / slit_begin / slit_end are present                *)
(*   shape           "1d" | "0d" | "2d"   of slit_edges                                      *)
(*   vals            the slit angles, interleaved begin_1, end_1, begin_2, end_2, ... in    *)
(*                   ticks of 1/K turn.  slit_edges = vals, slit_begin = the odd and        *)
(*                   slit_end = the even entries (an odd Len(vals) gives an odd number of   *)
(*                   edges resp. begin one longer than end)                                  *)
(*   height          "absent" | "typo" | "none" | "scalar" | "array" | "other_dim"          *)
(*                   (slit_height: 0-d, 1-d along the dimension of the slit arrays, 1-d     *)
(*                   along a foreign dimension);  hvals = its values                         *)
(*   radius          "absent" | "none" | "scalar"                                           *)
(*   tdc             "absent" | "array" | "log_time_only"   (top_dead_center)               *)
(*   extra           TRUE: unrelated extra keys are present (delay, ratio, a typo)          *)
(*   K               ticks per turn                                                          *)
(*                                                                                          *)
(* Layer (a) is the DECISION TABLE: one row per documented requirement with the exception   *)
(* classes a violation may surface as.  The order in which an implementation tests the rows *)
(* is not documented, hence a group that breaks several rows may be refused with the class  *)
(* of any broken row; a group that breaks none must be accepted.  Layer (b) (module         *)
(* Growth_NexusChopper) is a step-by-step construction procedure; TLC checks that it is     *)
(* admitted by the table and that the resulting disk is the physically intended one.        *)
EXTENDS DiskChopperDefs

Forms      == {"absent", "typo", "none", "scalar", "array1", "arrayN", "dataarray", "log1", "logN",
               "dlog1", "dlogN"}
FreqUnits  == {"Hz", "kHz", "1/min"}
OtherUnits == {"m/s", "rad/s", "dimensionless", "nounit"}
Types      == {"absent", "single", "single_enum", "contra_rotating_pair", "synchro_pair"}
Heights    == {"absent", "typo", "none", "scalar", "array", "other_dim"}
SlitKeys   == {"slit_edges", "slit_begin", "slit_end"}
ScalarFields == {"rotation_speed", "beam_position", "phase"}

OddElems(s)  == [ i \in 1..((Len(s) + 1) \div 2) |-> s[2 * i - 1] ]
EvenElems(s) == [ i \in 1..(Len(s) \div 2)       |-> s[2 * i] ]

FormOf(g, f) == IF f = "rotation_speed" THEN g.rotation_speed
                ELSE IF f = "beam_position" THEN g.beam_position ELSE g.phase

-----------------------------------------------------------------------------
(* extract_chopper_from_nexus: "extracts relevant time series from NXlog"; assigns the      *)
(* default type; top_dead_center logs have no value, their time stamps are the data; every  *)
(* other entry is passed through, nothing is dropped or added.                               *)
ExtractForm(x) == IF x = "log1" THEN "scalar" ELSE IF x = "logN" THEN "arrayN"
                  ELSE IF x \in {"dlog1", "dlogN"} THEN "dataarray" ELSE x
ExtractGroup(g) ==
    [ g EXCEPT !.type           = IF @ = "absent" THEN "single_enum" ELSE @,
               !.rotation_speed = ExtractForm(@),
               !.beam_position  = ExtractForm(@),
               !.phase          = ExtractForm(@),
               !.tdc            = IF @ = "log_time_only" THEN "array" ELSE @ ]

-----------------------------------------------------------------------------
(* (a) decision table of DiskChopper.from_nexus                                              *)
MissingForm(x) == x \in {"absent", "typo", "none"}
SingleType(t)  == t \in {"absent", "single", "single_enum"}

EdgesMode(g)    == g.keys = {"slit_edges"}
BeginEndMode(g) == g.keys = {"slit_begin", "slit_end"}
(* the begin/end arrays are determined                                                       *)
PairsKnown(g) == \/ EdgesMode(g) /\ g.shape = "1d" /\ Len(g.vals) % 2 = 0
                 \/ BeginEndMode(g) /\ Len(g.vals) % 2 = 0
NPairs(g)  == Len(g.vals) \div 2
PairsOf(g) == [ i \in 1..NPairs(g) |-> << g.vals[2 * i - 1], g.vals[2 * i] >> ]
Ordered(g) == \A i \in 1..NPairs(g) : g.vals[2 * i - 1] < g.vals[2 * i]
Disjoint(g) == \A i, j \in 1..NPairs(g) :
                   i < j => Points(PairsOf(g)[i], g.K) \cap Points(PairsOf(g)[j], g.K) = {}

MissingClasses == {"KeyError", "ValueError"}

(* a row is <<requirement, field>> (field "-" where the requirement is about one thing only)   *)
Rows == { <<q, "-">> : q \in { "single_chopper", "position_present", "slit_keys_conflict",
                               "slit_keys_missing", "slit_edges_1d", "slit_edges_even",
                               "begin_end_same_length", "begin_before_end", "slits_disjoint",
                               "frequency_unit", "slit_height_matches" } }
        \cup { <<k, f>> : k \in {"present", "variable", "scalar"}, f \in ScalarFields }

Broken(row, g) ==
    LET r == row[1] IN
    CASE r = "single_chopper"        -> ~SingleType(g.type)
      [] r = "position_present"      -> g.position # "vector"
      [] r = "slit_keys_conflict"    -> "slit_edges" \in g.keys /\ g.keys # {"slit_edges"}
      [] r = "slit_keys_missing"     -> "slit_edges" \notin g.keys /\ g.keys # {"slit_begin", "slit_end"}
      [] r = "slit_edges_1d"         -> EdgesMode(g) /\ g.shape # "1d"
      [] r = "slit_edges_even"       -> EdgesMode(g) /\ g.shape = "1d" /\ Len(g.vals) % 2 = 1
      [] r = "begin_end_same_length" -> BeginEndMode(g) /\ Len(g.vals) % 2 = 1
      [] r = "begin_before_end"      -> PairsKnown(g) /\ ~Ordered(g)
      [] r = "slits_disjoint"        -> PairsKnown(g) /\ Ordered(g) /\ ~Disjoint(g)
      [] r = "frequency_unit"        -> ~MissingForm(g.rotation_speed) /\ g.unit \notin FreqUnits
      [] r = "slit_height_matches"   -> PairsKnown(g) /\ (\/ g.height = "other_dim"
                                                          \/ g.height = "array" /\ Len(g.hvals) # NPairs(g))
      [] OTHER ->   \* <<kind, field>>
           LET x == FormOf(g, row[2]) IN
           CASE r = "present"  -> MissingForm(x)
             [] r = "variable" -> x \in {"dataarray", "log1", "logN", "dlog1", "dlogN"}
             [] r = "scalar"   -> x \in {"array1", "arrayN"}

ClassesOf(row) ==
    LET r == row[1] IN
    CASE r = "single_chopper"        -> {"NotImplementedError"}
      [] r = "position_present"      -> MissingClasses
      [] r = "slit_keys_conflict"    -> {"ValueError"}
      [] r = "slit_keys_missing"     -> MissingClasses
      [] r = "slit_edges_1d"         -> {"DimensionError"}
      [] r = "slit_edges_even"       -> {"DimensionError", "ValueError"}
      [] r = "begin_end_same_length" -> {"DimensionError"}
      [] r = "begin_before_end"      -> {"ValueError"}
      [] r = "slits_disjoint"        -> {"ValueError"}
      [] r = "frequency_unit"        -> {"UnitError"}
      [] r = "slit_height_matches"   -> {"DimensionError"}
      [] OTHER -> CASE r = "present"  -> MissingClasses
                    [] r = "variable" -> {"TypeError"}
                    [] r = "scalar"   -> {"DimensionError"}

BrokenRows(g)     == { r \in Rows : Broken(r, g) }
Acceptable(g)     == BrokenRows(g) = {}
AllowedClasses(g) == UNION { ClassesOf(r) : r \in BrokenRows(g) }

(* Inputs the documentation speaks about.  Outside (a slit of zero or full-turn width, a     *)
(* begin angle outside the first turn) no verdict is given.                                   *)
Specified(g) ==
    PairsKnown(g) =>
        \A i \in 1..NPairs(g) :
            LET b == g.vals[2 * i - 1]  e == g.vals[2 * i]
            IN b # e /\ 0 <= b /\ b < g.K /\ e - b < g.K

(* what an accepted group must produce                                                       *)
HeightOf(g, n) ==
    IF g.height \in {"absent", "typo", "none"} THEN [present |-> FALSE, vals |-> <<>>]
    ELSE [present |-> TRUE, vals |-> [ i \in 1..n |-> IF g.height = "scalar" THEN g.hvals[1] ELSE g.hvals[i] ]]
ResultOf(g) ==
    [ n      |-> NPairs(g),
      begin  |-> OddElems(g.vals),
      end    |-> EvenElems(g.vals),
      height |-> HeightOf(g, NPairs(g)),
      radius |-> g.radius = "scalar" ]

(* the dict of an existing chopper, fed back into from_nexus                                 *)
RECURSIVE Interleave(_, _)
Interleave(b, e) == IF b = <<>> THEN <<>> ELSE << Head(b), Head(e) >> \o Interleave(Tail(b), Tail(e))
GroupOfResult(res, K) ==
    [ type |-> "absent", position |-> "vector", rotation_speed |-> "scalar", beam_position |-> "scalar",
      phase |-> "scalar", unit |-> "Hz", keys |-> {"slit_begin", "slit_end"}, shape |-> "1d",
      vals |-> Interleave(res.begin, res.end),
      height |-> IF res.height.present THEN "array" ELSE "none",
      hvals |-> res.height.vals,
      radius |-> IF res.radius THEN "scalar" ELSE "none",
      tdc |-> "absent", extra |-> FALSE, K |-> K ]

(* the physical disk: open angular cells, and the number of separate openings on the circle *)
OpenCellsOf(begin, end, K) == UNION { Cells(<< begin[i], end[i] >>, K) : i \in 1..Len(begin) }
NumberOfArcs(oc, K) == Cardinality({ j \in 0..(K - 1) : j \in oc /\ ((j + K - 1) % K) \notin oc })
=============================================================================
