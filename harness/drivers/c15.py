"""C15 — XYE files round-trip coordinates and values exactly, uncertainties to rounding; data the
format cannot represent is refused.

Specs (spec/textio/): XyeDefs.tla (file = comment lines + one line of three number cells per row;
decision table Decide / declarative Writable; writer Save; reader Load; ExpectedMeta = names and
units of a loaded DataArray come from the request alone), Xye.tla (state machine choose -> save ->
load; TLC: the table is total and exclusive for 0..3 dimensions and 1..2 points, nothing is written for
unwritable data, Load(Save(d)) = d for every header over {a, #, LF, SP, digit, CR} up to MaxHeader and
1..MaxRows rows; negative controls: only the first header line commented, data without variances
written, CR kept), XyeStore.tla (history: data sets saved to / loaded from several paths in any
order, a load returns what the LAST save to that path wrote with the names and units of THIS request;
negative controls: tables cached per path, saves appending to an existing file), Trace_Xye.tla (judge
of recorded executions; keeps the content of every path as XyeStore does).

Conformance:
  M1  every configuration of the model's decision table (variances, ndim 0..3, masks, every subset of
      5 coordinates with/without the dimension-coordinate, requested coordinate, bin edges, 1..2 points)
      and every header of the model is replayed through the real save_xye / load_xye; number cells are
      value-ids: distinguished doubles (subnormal min, max, +-min normal, 1/3, pi, 1e+-300, integers,
      -0.0, ...), pairwise distinct, mapped back by exact bit equality for X and Y and by <= 4 ulp of
      the supplied variance for E^2 (file) and the loaded variances.
  M2  random finite bit patterns and uniformly tiny / huge / nearly-integer / integer / adjacent /
      equal-exponent columns, 1 .. 10^4 rows, random ASCII headers with newlines, '#', TABs and lines
      that look like table rows; path / str / text-file / StringIO targets with several file names;
      the DataArray is supplied contiguous, as a column or row of 2-D data, as a stepped or offset
      slice, or as an item of a Dataset, coordinates inserted in any order, with several dimension /
      coordinate names and units; load_xye is asked for several dimension / coordinate names and units
      and reads from a path, a str, an open file or a StringIO.
  M3  history: later loads of paths that were saved to earlier, the same DataArray saved twice, the
      scenarios of XyeStore, and at the end a sample of all cases replayed in another order.
The text is split into lines and mapped to the model's symbols by the harness; structure, header
commenting, chosen coordinate, readability by the specified reader, equality of the loaded data,
names / units of the loaded DataArray and the content of every path over time are decided by TLC
(Trace_Xye).  Any exception of save_xye counts as refusal (the property).
"""

from __future__ import annotations

import bisect
import io
import itertools
import math
import os
import struct
import threading
import time

import numpy as np
import scipp as sc

from ..core import MachineryError
from ..refmap import ulp_diff
from ..tlc import require_ok, write_ndjson

RULE = ('one event = one save_xye call (+ load_xye of the result) or one later load_xye of a path; non-trivial = a '
        'file was written and loaded with >= 1 row and the header is non-empty or the data contains extreme / '
        'random-bit doubles, or the configuration is refused for a reason of the table, or a later load; distinct by '
        'configuration + header + data seed')

CA, CHASH, CLF, CSP, CDIG, CCR = 1, 2, 3, 4, 5, 6
UNKNOWN = 8000000
_SYM = {'#': CHASH, '\n': CLF, ' ': CSP, '\r': CCR}
NPATHS = 8      # path slots 1..8 (Trace_Xye keeps 16)

DISTINGUISHED = [5e-324, -5e-324, 1.7976931348623157e308, -1.7976931348623157e308, 2.2250738585072014e-308,
                 -2.2250738585072014e-308, 1 / 3, math.pi, 1e300, 1e-300, -1e300, 1.0, -1.0, 2.0, 1e15, 123456789.0,
                 -0.0, 0.0, 0.1, -2.5, 1e22, 1e-7, 6.02214076e23, 4.9406564584124654e-322, 2.2250738585072009e-308]
DIST_VARIANCES = [5e-324, 1.7976931348623157e308, 2.2250738585072014e-308, 1 / 3, math.pi, 1e300, 1e-300, 1.0, 4.0, 0.0,
                  0.81, 1e-320, 2.0, 1e15, 0.1]
MODES = ('random', 'distinguished', 'tiny', 'huge', 'near_int', 'integers', 'adjacent', 'same_exp')
LAYOUTS = ('plain', 'col_of_2d', 'row_of_2d', 'step', 'range', 'dataset')
FILE_NAMES = ['c15-0.xye', 'c15-1.xye', 'c15 two words.dat', 'c15-no-extension', 'c15.v2.txt', 'C15_UPPER.XYE', 'c15-6.xy',
              'c15-7.xye.bak',
              # slots 9..11 (beyond NPATHS: used by their own scenario only): names whose extension makes numpy write and
              # read a compressed file - a path target like any other
              'c15-8.xye.gz', 'c15-9.dat.bz2', 'c15-10.xz']
# (dimension, names of the coordinates 1..4, coordinate unit, data unit)
NAMINGS = [('x', ('c1', 'c2', 'c3', 'c4'), 'us', 'counts'),
           ('tof', ('wavelength', 'dspacing', 'two theta', 'Q'), 'ms', 'counts'),
           ('dspacing', ('tof', 'x', 'y', 'z'), 'angstrom', 'one'),
           ('two theta', ('a b', 'c', 'position', 'E'), 'rad', None),
           ('Q', ('x', 'tof', 'q2', 'q3'), None, 'K')]
# what load_xye is asked for: (dim, coord or None, unit, coord_unit); 'same' = the names / units that were saved
LOAD_REQS = ['same', 'same', ('row', None, 'counts', 'us'), ('tof', 'time', 'one', 'ms'), ('x', 'x', None, None),
             ('x', 'y', 'K', 'angstrom'), ('dim with blank', None, 'm', None)]


def bits(x: float) -> int:
    return struct.unpack('<q', struct.pack('<d', float(x)))[0]


def from_bits(b: int) -> float:
    return struct.unpack('<d', struct.pack('<q', b))[0]


def sym(ch: str) -> int:
    if ch in _SYM:
        return _SYM[ch]
    return CDIG if ch.isdigit() else CA


def header_syms(h):
    return [-1] if h is None else [sym(c) for c in h]


def rand_finite(rng):
    while True:
        x = struct.unpack('<d', struct.pack('<Q', rng.getrandbits(64)))[0]
        if math.isfinite(x):
            return x


def _value_gen(rng, mode, n=1):
    """-> (generator of X/Y candidates, generator of variance candidates) for one data set."""
    if mode == 'tiny':       # everything far below any absolute tolerance: subnormals and numbers around 1e-300
        return (lambda: rng.choice([-1, 1]) * (rng.randrange(1, 2**52) * 5e-324 if rng.random() < 0.5
                                                else rng.uniform(1, 10) * 10.0 ** rng.randrange(-307, -290)),
                lambda: rng.randrange(1, 2**40) * 64 * 5e-324 if rng.random() < 0.5
                else rng.uniform(1, 10) * 10.0 ** rng.randrange(-307, -290))
    if mode == 'huge':
        return (lambda: rng.choice([-1, 1]) * rng.uniform(1, 1.7) * 10.0 ** rng.randrange(295, 308),
                lambda: rng.uniform(1, 1.7) * 10.0 ** rng.randrange(290, 308))
    if mode == 'near_int':   # a hair beside an integer (inside the default tolerances of allclose / isclose)
        return (lambda: float(rng.randrange(-10**6, 10**6)) + rng.choice([-1, 1]) * rng.choice([1e-9, 3e-11, 1e-12, 2e-10]) *
                rng.uniform(0.5, 1),
                lambda: float(rng.randrange(1, 10**6)) + rng.choice([-1, 1]) * rng.choice([1e-9, 3e-11, 1e-12]) * rng.uniform(0.5, 1))
    if mode == 'integers':   # channel numbers, counts: integer-valued doubles, also beyond 2^53
        return (lambda: float(rng.choice([rng.randrange(-50, 50), rng.randrange(-10**6, 10**6), rng.randrange(-2**60, 2**60)])),
                lambda: float(rng.choice([rng.randrange(0, 2000) * 32, rng.randrange(1, 2**60)])))
    if mode == 'small_ints':   # what a first user saves: channel numbers and counts, every number exact in single precision
        return (lambda: float(rng.randrange(0, 4000)), lambda: float(rng.randrange(1, 300) ** 2))
    if mode == 'adjacent':   # neighbouring doubles: only the last bits differ
        base = bits(abs(rand_finite(rng))) & ~0xFFFFFF
        if base > 0x7FE0000000000000:
            base = 0x3FF0000000000000
        sign = rng.choice([-1.0, 1.0])
        vbase = bits(abs(rand_finite(rng))) & ~0xFFFFFFF
        if vbase > 0x7FE0000000000000:
            vbase = 0x3FF0000000000000
        span = max(4096, 64 * n)
        return (lambda: sign * from_bits(base + rng.randrange(0, span)),
                lambda: from_bits(vbase + 32 * rng.randrange(0, span)))
    if mode == 'same_exp':
        e = rng.randrange(-1000, 1000)
        return (lambda: rng.choice([-1, 1]) * math.ldexp(rng.uniform(1, 2), e),
                lambda: math.ldexp(rng.uniform(1, 2), e))
    return (lambda: rand_finite(rng), lambda: abs(rand_finite(rng)))


class DataSet:
    """The supplied numbers of one data set and the mapping double -> value-id."""

    def __init__(self, rng, n, ncoords, mode):
        self.n, self.mode = n, mode
        self.single = mode == 'single_data'
        self.xs, self.ys, self.vs = make_single_values(rng, n, ncoords) if self.single else make_values(rng, n, ncoords, mode)
        self.yid = {bits(y): 6000000 + i + 1 for i, y in enumerate(self.ys)}
        self.order = sorted(range(n), key=lambda i: self.vs[i])
        self.svs = [self.vs[i] for i in self.order]

    def xid(self, coords):
        out = {}
        for k, c in enumerate(coords):
            for i in range(len(self.xs[k])):
                out[bits(self.xs[k][i])] = (c + 1) * 1000000 + i + 1
        return out

    def yid_of(self, y):
        """id of the supplied data value y stands for: the same bits; for single-precision data the double the
        file / the loader holds is compared in the precision of the data (float32(y) is the supplied float32)."""
        if self.single and math.isfinite(y) and abs(y) < 3.0e38:
            y = float(np.float32(y))
        return self.yid.get(bits(y), UNKNOWN)

    def vid(self, v):
        """id of the supplied variance within 4 ulp of v (at most one, by construction); ulp of the precision
        of the data."""
        if not math.isfinite(v):
            return UNKNOWN
        j = bisect.bisect_left(self.svs, v)
        for k in (j - 1, j, j + 1):
            if self.single:
                if 0 <= k < self.n and abs(v - self.svs[k]) <= 4 * float(np.spacing(np.float32(self.svs[k]))):
                    return 7000000 + self.order[k] + 1
                continue
            if 0 <= k < self.n and ulp_diff(self.svs[k], v) <= 4:
                return 7000000 + self.order[k] + 1
        return UNKNOWN


def make_single_values(rng, n, ncoords):
    """Single-precision data next to double-precision coordinates (what a detector image or a float32 reduction
    saves): X as in mode 'random' / thirds and tenths that need all 17 digits, Y and the variances exact float32
    numbers of ordinary magnitude (variances pairwise > 64 float32-ulp apart)."""
    seen = set()
    xs = []
    for _ in range(ncoords):
        col = []
        while len(col) < n:
            x = rng.choice([rand_finite(rng), rng.randrange(1, 10**6) / 3.0, rng.randrange(1, 10**6) / 10.0, rng.uniform(-5, 5)])
            if bits(x) not in seen:
                seen.add(bits(x))
                col.append(x)
        xs.append(col)
    ys = []
    while len(ys) < n:
        y = float(np.float32(rng.choice([rng.uniform(-1e4, 1e4), rng.randrange(1, 10**5) / 10.0, rng.uniform(-1, 1) * 10.0 ** rng.randrange(-20, 20)])))
        if bits(y) not in seen and y != 0.0:
            seen.add(bits(y))
            ys.append(y)
    vs = []
    while len(vs) < n:
        v = float(np.float32(rng.uniform(1, 10) * 10.0 ** rng.randrange(-10, 10)))
        if all(abs(v - w) > 1e-5 * max(v, w) for w in vs[-200:]) and (len(vs) < 200 or all(abs(v - w) > 1e-5 * max(v, w) for w in vs)):
            vs.append(v)
    return xs, ys, vs


def make_values(rng, n, ncoords, mode):
    """-> xs[c][i], ys[i], vs[i]: X/Y pairwise distinct as bit patterns over the whole data set,
    variances >= 0 and pairwise > 16 ulp apart (so that '<= 4 ulp' identifies at most one id)."""
    seen = set()

    def fresh(gen):
        for _ in range(10000):
            x = gen()
            b = bits(x)
            if b not in seen and math.isfinite(x):
                seen.add(b)
                return x
        raise MachineryError(f'could not generate distinct values (mode {mode})')

    pool = list(DISTINGUISHED)
    rng.shuffle(pool)
    gx, gv = _value_gen(rng, mode, n)
    zeros = [0.0, -0.0] if mode not in ('random', 'distinguished', 'small_ints') else []   # signed zeros belong to every scale

    def gen_xy():
        if mode == 'distinguished' and pool:
            return pool.pop()
        if mode == 'distinguished':
            return float(rng.randrange(-10**6, 10**6)) / 8
        if zeros and rng.random() < 0.1:
            return zeros.pop()
        return gx()

    xs = [[fresh(gen_xy) for _ in range(n)] for _ in range(ncoords)]
    ys = [fresh(gen_xy) for _ in range(n)]
    vs, sorted_vs = [], []
    vpool = list(DIST_VARIANCES)
    rng.shuffle(vpool)
    tries = 0
    while len(vs) < n:
        tries += 1
        if tries > 60 * n + 2000:
            raise MachineryError(f'could not generate separated variances (mode {mode})')
        if mode == 'distinguished' and vpool:
            v = vpool.pop()
        elif mode == 'distinguished':
            v = rng.randrange(1, 10**6) / 16
        else:
            v = gv()
        if not (math.isfinite(v) and v >= 0):
            continue
        j = bisect.bisect_left(sorted_vs, v)
        if any(0 <= k < len(sorted_vs) and ulp_diff(sorted_vs[k], v) <= 16 for k in (j - 1, j)):
            continue
        sorted_vs.insert(j, v)
        vs.append(v)
    return xs, ys, vs


def coord_name(naming, c):
    return naming[0] if c == 0 else naming[1][c - 1]


def _filler(rng, shape, positive=False):
    a = np.array([rand_finite(rng) for _ in range(int(np.prod(shape)))]).reshape(shape)
    return np.abs(a) if positive else a


def build_da(cfg, ds: DataSet, naming=NAMINGS[0], layout='plain', rng=None, shuffle_coords=False):
    """The DataArray the configuration describes (naming[0] is the dimension).  -> (da, parent):
    parent = the larger object da is a view of (None for 'plain')."""
    n = cfg['nrows']
    dim, cunit, yunit = naming[0], naming[2], naming[3]
    xs, ys, vs = ds.xs, ds.ys, ds.vs
    order = list(enumerate(cfg['coords']))
    if shuffle_coords and rng is not None:
        rng.shuffle(order)
    coords = {}
    parent = None
    if cfg['ndim'] == 1:
        if layout == 'plain' or cfg['edges'] or cfg['masks'] or rng is None:
            data = sc.array(dims=[dim], values=np.array(ys), variances=np.array(vs) if cfg['hasvar'] else None, unit=yunit)
            for k, c in order:
                vals = np.array(xs[k])
                if c in cfg['edges']:
                    vals = np.concatenate([vals, [vals[-1] + 1.0 if math.isfinite(vals[-1] + 1.0) and vals[-1] + 1.0 != vals[-1] else 0.5]])
                coords[coord_name(naming, c)] = sc.array(dims=[dim], values=vals, unit=cunit)
            da = sc.DataArray(data, coords=coords)
        elif layout in ('col_of_2d', 'row_of_2d'):
            m = rng.randrange(2, 4)
            k0 = rng.randrange(m)
            shape, dims, idx = ((n, m), [dim, 'z'], (slice(None), k0)) if layout == 'col_of_2d' else ((m, n), ['z', dim], (k0, slice(None)))
            yy, vv = _filler(rng, shape), _filler(rng, shape, True)
            yy[idx], vv[idx] = ys, vs
            for k, c in order:
                coords[coord_name(naming, c)] = sc.array(dims=[dim], values=np.array(xs[k]), unit=cunit)
            parent = sc.DataArray(sc.array(dims=dims, values=yy, variances=vv if cfg['hasvar'] else None, unit=yunit), coords=coords)
            da = parent['z', k0]
        elif layout in ('step', 'range'):
            if layout == 'step':
                o = rng.randrange(2)
                total, sl = 2 * n - 1 + o, slice(o, None, 2)
            else:
                a, b = rng.randrange(0, 4), rng.randrange(0, 4)
                total, sl = n + a + b, slice(a, a + n)
            yy, vv = _filler(rng, (total,)), _filler(rng, (total,), True)
            yy[sl], vv[sl] = ys, vs
            for k, c in order:
                cc = _filler(rng, (total,))
                cc[sl] = xs[k]
                coords[coord_name(naming, c)] = sc.array(dims=[dim], values=cc, unit=cunit)
            parent = sc.DataArray(sc.array(dims=[dim], values=yy, variances=vv if cfg['hasvar'] else None, unit=yunit), coords=coords)
            da = parent[dim, sl]
        else:   # item of a Dataset
            for k, c in order:
                coords[coord_name(naming, c)] = sc.array(dims=[dim], values=np.array(xs[k]), unit=cunit)
            sig = sc.DataArray(sc.array(dims=[dim], values=np.array(ys), variances=np.array(vs) if cfg['hasvar'] else None, unit=yunit),
                               coords=coords)
            parent = sc.Dataset({'other': sc.DataArray(sc.array(dims=[dim], values=_filler(rng, (n,)), unit='m'), coords=coords),
                                 'signal': sig})
            da = parent['signal']
    elif cfg['ndim'] >= 2:
        # n points along the dimension, the other dimensions have 1 or 2 entries; dims in either order
        other = [1 if rng is None else rng.choice([1, 1, 2]) for _ in range(cfg['ndim'] - 1)]
        dims = [dim] + ['z', 'w'][:cfg['ndim'] - 1]
        shape = [n, *other]
        tot = int(np.prod(other))
        yy = np.repeat(np.array(ys), tot).reshape(shape)
        vv = np.repeat(np.array(vs), tot).reshape(shape)
        data = sc.array(dims=dims, values=yy, unit=yunit, variances=vv if cfg['hasvar'] else None)
        if rng is not None and rng.random() < 0.5:
            data = data.transpose(dims[::-1]).copy()
        for k, c in order:
            vals = np.array(xs[k])
            if c in cfg['edges']:
                vals = np.concatenate([vals, [0.5]])
            coords[coord_name(naming, c)] = sc.array(dims=[dim], values=vals, unit=cunit)
        da = sc.DataArray(data, coords=coords)
    else:
        data = sc.scalar(ys[0], variance=vs[0] if cfg['hasvar'] else None, unit=yunit)
        for k, c in order:
            coords[coord_name(naming, c)] = sc.scalar(xs[k][0], unit=cunit)
        da = sc.DataArray(data, coords=coords)
    if rng is not None and da.ndim and rng.random() < 0.25:
        # coordinates flagged "unaligned" (what used to be attributes) are coordinates all the same: which data can
        # be written, and which coordinate becomes X, does not depend on the flag
        for cname in list(da.coords):
            if rng.random() < 0.6:
                try:
                    da.coords.set_aligned(cname, False)
                except Exception:  # noqa: BLE001   (views of a larger object have read-only metadata)
                    break
    if getattr(ds, 'single', False):       # the data in single precision (exact: Y and variances are float32 numbers)
        da = sc.DataArray(da.data.astype('float32'), coords={k: da.coords[k] for k in da.coords})
        parent = None
    if cfg['masks']:
        if da.ndim:
            mv = np.zeros(da.shape, dtype=bool)
            if rng is not None and rng.random() < 0.5:
                mv.flat[rng.randrange(mv.size)] = True       # masks with and without a set element
            da.masks['m'] = sc.array(dims=da.dims, values=mv)
        else:
            da.masks['m'] = sc.scalar(rng is not None and rng.random() < 0.5)
    return da, parent


def fingerprint(obj):
    """Bit-level content of a DataArray / Dataset (sc.identical does not see -0.0 vs 0.0)."""
    if obj is None:
        return None
    if isinstance(obj, sc.Dataset):
        return tuple((k, fingerprint(obj[k])) for k in obj)

    def var(v):
        return (tuple(v.dims), tuple(v.shape), str(v.unit), np.ascontiguousarray(v.values).tobytes(),
                None if v.variances is None else np.ascontiguousarray(v.variances).tobytes())

    return (var(obj.data), tuple((k, var(obj.coords[k])) for k in obj.coords), tuple((k, var(obj.masks[k])) for k in obj.masks))


def _unit_str(u):
    return '<none>' if u is None else str(sc.Unit(u) if not isinstance(u, sc.Unit) else u)


def observe_loaded(res, ds: DataSet, xid):
    """-> (loaded record for TLC, got names / units)."""
    got = {'dim': '?', 'cname': '?', 'unit': '?', 'cunit': '?'}
    loaded = {'ok': False, 'rows': []}
    if not isinstance(res, sc.DataArray):
        return loaded, got
    names = list(res.coords)
    got['dim'] = res.dims[0] if res.ndim == 1 else f'?{res.ndim} dimensions'
    got['cname'] = names[0] if len(names) == 1 else f'?{len(names)} coordinates'
    got['unit'] = _unit_str(res.unit)
    if len(names) != 1 or res.ndim != 1 or res.masks:
        return loaded, got
    cv = res.coords[names[0]]
    got['cunit'] = _unit_str(cv.unit)
    lx, ly, lv = cv.values, res.values, res.variances
    if lv is None or cv.ndim != 1 or not (len(lx) == len(ly) == len(lv)) or cv.variances is not None:
        return loaded, got
    if lx.dtype != np.float64 or ly.dtype != np.float64 or lv.dtype != np.float64:
        loaded = {'ok': True, 'rows': [[UNKNOWN, UNKNOWN, UNKNOWN] for _ in range(len(lx))]}     # not "bit-for-bit"
        return loaded, got
    loaded = {'ok': True, 'rows': [[xid.get(bits(lx[i]), UNKNOWN), ds.yid_of(float(ly[i])), ds.vid(float(lv[i]))]
                                   for i in range(len(lx))]}
    return loaded, got


def _read_text(path):
    """The text of a file written to `path` by name (numpy compresses by extension)."""
    import bz2
    import gzip
    import lzma

    opener = {'.gz': gzip.open, '.bz2': bz2.open, '.xz': lzma.open}.get(path.suffix)
    if opener is None:
        return path.read_text()
    with opener(path, 'rt') as f:
        return f.read()


class Runner:
    """Executes save / load calls against the real module and records them as events."""

    def __init__(self, ctx):
        self.ctx = ctx
        self.events, self.metas = [], {}
        self.tid = 0
        self.paths = [None] + [ctx.tmp / name for name in FILE_NAMES]
        self.held = {}        # path slot -> (tid of the save, DataSet, xid, cfg)   harness-side bookkeeping

    def _req(self, req, naming):
        if req == 'same':
            req = (naming[0], None, naming[3], naming[2])
        dim, cname, unit, cunit = req
        kw = {'dim': dim, 'unit': unit, 'coord_unit': cunit}
        if cname is not None:
            kw['coord'] = cname
        return kw, {'dim': dim, 'cname': cname or '', 'unit': _unit_str(unit), 'cunit': _unit_str(cunit)}

    def save(self, cfg, header, ds: DataSet, *, naming=NAMINGS[0], layout='plain', target='buffer', slot=0, req='same',
             load_via='default', rng=None, shuffle_coords=False, da_parent=None, phase='main', orig=None):
        from scippneutron.io import xye

        ctx, tid = self.ctx, self.tid
        self.tid += 1
        n = cfg['nrows']
        da, parent = da_parent if da_parent is not None else build_da(cfg, ds, naming, layout, rng, shuffle_coords)
        before, pbefore = fingerprint(da), fingerprint(parent)
        kw = {}
        if cfg['arg'] != -1:
            kw['coord'] = coord_name(naming, cfg['arg'])
        if header is not None:
            kw['header'] = header
        text, out, exc = None, 'file', None
        if target in ('buffer', 'offset'):
            slot = 0
        path = self.paths[slot] if slot else None
        try:
            if target == 'path':
                xye.save_xye(path, da, **kw)
                text = _read_text(path)
            elif target == 'str':
                xye.save_xye(str(path), da, **kw)
                text = _read_text(path)
            elif target == 'file':
                with open(path, 'w') as f:
                    xye.save_xye(f, da, **kw)
                text = path.read_text()
            elif target == 'offset':
                # a file object that already holds something else (an earlier table, a title line): the table starts
                # where the file object stands, and is loaded from there
                buf = io.StringIO()
                buf.write(rng.choice(['0.5 1.5 2.5\n7.0 8.0 9.0\n', 'Si standard, run 7\n', '# other header\n1 2 3\n', '\n\n'])
                          if rng is not None else '1 2 3\n')
                offset_pos = buf.tell()
                xye.save_xye(buf, da, **kw)
                text = buf.getvalue()[offset_pos:]
            else:
                buf = io.StringIO()
                xye.save_xye(buf, da, **kw)
                text = buf.getvalue()
        except Exception as e:  # noqa: BLE001   any exception is a refusal; TLC decides whether refusing was right
            out, exc = 'raised', f'{type(e).__name__}: {e}'[:200]
        if fingerprint(da) != before or fingerprint(parent) != pbefore:
            ctx.violation('save_xye modified its input' + ('' if fingerprint(da) != before else ' (the object the data is a view of)'),
                          {'cfg': cfg, 'layout': layout})
        xid = ds.xid(cfg['coords'])
        lines = []
        if text is not None:
            raw = text.split('\n')
            if raw and raw[-1] == '':
                raw.pop()
            for ln in raw:
                if ln.lstrip(' ').startswith('#') or not ln.strip(' '):
                    lines.append([sym(c) for c in ln])
                    continue
                fields = ln.split(' ')
                syms = []
                for q, f in enumerate(fields):
                    if q:
                        syms.append(CSP)
                    try:
                        val = float(f)
                    except ValueError:
                        syms += [sym(c) for c in f]
                        continue
                    if q == 0:
                        syms.append(xid.get(bits(val), UNKNOWN))
                    elif q == 1:
                        syms.append(ds.yid_of(val))
                    else:
                        syms.append(ds.vid(val * val) if q == 2 else UNKNOWN)
                lines.append(syms)
        loaded, lexc = {'ok': False, 'rows': []}, None
        lkw, reqrec = self._req(req, naming)
        got = {'dim': '?', 'cname': '?', 'unit': '?', 'cunit': '?'}
        if text is not None:
            try:
                if target == 'offset':
                    buf.seek(offset_pos)
                    res = xye.load_xye(buf, **lkw)
                elif path is None:
                    res = xye.load_xye(io.StringIO(text), **lkw)
                elif load_via == 'handle':
                    with open(path) as f:
                        res = xye.load_xye(f, **lkw)
                elif target == 'str' or load_via == 'str':
                    res = xye.load_xye(str(path), **lkw)
                else:
                    res = xye.load_xye(path, **lkw)
                loaded, got = observe_loaded(res, ds, xid)
            except Exception as e:  # noqa: BLE001
                lexc = f'{type(e).__name__}: {e}'[:200]
        ev = {'op': 'save', 'tid': tid, 'cfg': {**cfg, 'header': header_syms(header)}, 'path': slot, 'ds': -1, 'out': out,
              'lines': lines, 'loaded': loaded, 'req': reqrec, 'got': got if loaded['ok'] else ExpectedMetaPy(reqrec)}
        meta = {'op': 'save', 'cfg': cfg, 'header': header, 'mode': ds.mode, 'target': target, 'layout': layout, 'naming': naming[0],
                'file': path.name if path else None, 'exc': exc, 'load_exc': lexc, 'req': reqrec, 'got': got, 'phase': phase,
                'orig': orig, 'text': None if text is None else text[:400]}
        self.events.append(ev)
        self.metas[tid] = meta
        if slot:
            if out == 'file' and py_decide(cfg) == 'write':
                self.held[slot] = (tid, ds, xid, cfg)
            else:
                self.held.pop(slot, None)
        nt = None
        if py_decide(cfg) == 'refuse':
            nt = ('r', cfg['hasvar'], cfg['ndim'], cfg['masks'], tuple(cfg['coords']), cfg['arg'], tuple(cfg['edges']), n)
        elif out == 'file' and (header or ds.mode != 'distinguished'):
            nt = ('w', tid)
        ctx.case(nontrivial_id=nt)
        return tid, (da, parent)

    def load(self, slot, *, req, via='path', phase='main'):
        """A later load of a path slot that holds a data set (harness bookkeeping; TLC keeps its own)."""
        from scippneutron.io import xye

        if slot not in self.held:
            return None
        tid = self.tid
        self.tid += 1
        stid, ds, xid, cfg = self.held[slot]
        path = self.paths[slot]
        lkw, reqrec = self._req(req, NAMINGS[0])
        loaded, got, lexc = {'ok': False, 'rows': []}, None, None
        try:
            if via == 'handle':
                with open(path) as f:
                    res = xye.load_xye(f, **lkw)
            else:
                res = xye.load_xye(str(path) if via == 'str' else path, **lkw)
            loaded, got = observe_loaded(res, ds, xid)
        except Exception as e:  # noqa: BLE001
            lexc = f'{type(e).__name__}: {e}'[:200]
        ev = {'op': 'load', 'tid': tid, 'cfg': {**cfg, 'header': [-1]}, 'path': slot, 'ds': stid, 'out': 'file', 'lines': [],
              'loaded': loaded, 'req': reqrec, 'got': got if loaded['ok'] else ExpectedMetaPy(reqrec)}
        self.events.append(ev)
        self.metas[tid] = {'op': 'load', 'cfg': cfg, 'header': None, 'mode': ds.mode, 'target': via, 'layout': None, 'naming': None,
                           'file': path.name, 'exc': None, 'load_exc': lexc, 'req': reqrec, 'got': got, 'phase': phase, 'orig': None,
                           'text': None, 'saved_by': stid}
        self.ctx.case(nontrivial_id=('l', tid))
        return tid


def ExpectedMetaPy(req):
    """Place holder for the names / units of an event whose load failed (the failure itself is the verdict)."""
    return {'dim': req['dim'], 'cname': req['cname'] or req['dim'], 'unit': req['unit'], 'cunit': req['cunit']}


def table_cfgs():
    """The TableCfgs of Xye.tla (a scalar has no points along a dimension: nrows = 1 only)."""
    subsets = [list(s) for r in range(6) for s in itertools.combinations(range(5), r)]
    for n in (1, 2):
        for hv in (False, True):
            for nd in (0, 1, 2, 3):
                for m in (False, True):
                    for cs in subsets:
                        for a in (-1, 0, 1, 4):
                            for es in ([], [0], [1], [0, 1, 2, 3, 4]):
                                if nd == 0 and n > 1:
                                    continue
                                yield {'hasvar': hv, 'ndim': nd, 'masks': m, 'coords': cs, 'arg': a, 'edges': es, 'nrows': n}


def py_decide(cfg):
    """Used for the evidence counts and for the harness-side bookkeeping of what a path holds (TLC keeps
    its own store and rejects an event whose bookkeeping differs); verdicts come from TLC."""
    if not cfg['hasvar'] or cfg['ndim'] != 1 or cfg['masks'] or not cfg['coords']:
        return 'refuse'
    if cfg['arg'] != -1:
        chosen = cfg['arg'] if cfg['arg'] in cfg['coords'] else None
    elif len(cfg['coords']) == 1:
        chosen = cfg['coords'][0]
    else:
        chosen = 0 if 0 in cfg['coords'] else None
    if chosen is None or chosen in cfg['edges']:
        return 'refuse'
    return 'write'


_PRINTABLE = [chr(c) for c in range(32, 127)] + ['\n', '\r']


def rand_header(rng):
    k = rng.randrange(10)
    if k == 9:   # the other ASCII control characters (VT, FF, FS, GS, RS, US, NUL, DEL ...): ordinary header text, NOT line
        #          breaks of the format - whatever follows them on the line stays behind the line's '#'
        ctl = rng.choice('\x0b\x0c\x1c\x1d\x1e\x1f\x00\x7f\x01\x08\x1b')
        return rng.choice([f'page 1{ctl}1.5 2.5 3.5', f'a{ctl}1 2 3', f'{ctl}1 2 3', f'x{ctl}{ctl}7 8 9\nnext{ctl}', ctl,
                           f'run{ctl}\n4 5 6{ctl}7 8 9', f'{ctl}#{ctl}\r1 2 3'])
    if k == 0:
        return ''.join(rng.choice(_PRINTABLE) for _ in range(rng.randrange(0, 60)))
    if k == 1:   # lines that look like table rows
        return '\n'.join(' '.join(repr(rng.uniform(-5, 5)) for _ in range(3)) for _ in range(rng.randrange(1, 4)))
    if k == 2:
        return rng.choice(['\r', 'a\r1 2 3', 'x\r\n1 2 3', 'run 7\r\ncomment', '', '\n', '\n\n', '#', '# already commented', 'x y e\n1 2 3', '1 2 3', ' 1 2 3\n', 'a\n\n4 5 6\n',
                           'tof [us]  Y [counts]  E [counts]', '##\n#'])
    if k == 3:
        return ''.join(rng.choice('a#\n 7\r') for _ in range(rng.randrange(0, 12)))
    if k == 4:
        return None
    if k == 5:
        return '\n'.join(''.join(rng.choice(_PRINTABLE[:95]) for _ in range(rng.randrange(0, 30))) for _ in range(rng.randrange(1, 6)))
    if k == 6:   # TAB-separated column titles, rows of numbers separated by TABs
        return rng.choice(['x\ty\te', '1\t2\t3', 'a\n\t1 2 3', '\t', 'tof\t[us]\n1.5\t2.5\t3.5\n'])
    if k == 7:   # long: many lines / one very long line
        if rng.random() < 0.5:
            return '\n'.join(f'{i} {i + 1} {i + 2}' for i in range(rng.randrange(40, 150)))
        return ' '.join(str(rng.randrange(1000)) for _ in range(rng.randrange(200, 1500)))
    return 'run 1234\ntemperature 3.5 K\n1.0 2.0 3.0'


def _writable_cfg(rng, n):
    ncoords = rng.randrange(1, 6)
    cs = sorted(rng.sample(range(5), ncoords))
    if 0 in cs or ncoords == 1:
        a = rng.choice([-1, -1, rng.choice(cs)])
    else:
        a = rng.choice(cs)
    return {'hasvar': True, 'ndim': 1, 'masks': False, 'coords': cs, 'arg': a, 'edges': [], 'nrows': n}


def run(ctx):
    ctx.rule = RULE
    ctx.assume('headers are ASCII (printable, TAB, LF, CR and the other control characters); LF and CR count as line breaks (universal newlines), no other character does; any exception of save_xye counts as refusal')
    ctx.assume('"a few units in the last place" = 4 ulp of the supplied variance (DESIGN 3.2); supplied variances are '
               'finite, >= 0 and pairwise more than 16 ulp apart, X / Y values pairwise distinct bit patterns, so the '
               'mapping double -> value-id is unambiguous')
    ctx.assume('a requested coordinate that does not exist must be refused (exception) as well')
    ctx.assume('values, variances and coordinates are float64 (the quantifier), plus data sets whose DATA is float32 next to '
               'float64 coordinates (coordinate bit-for-bit, values equal after rounding to float32, variances to 4 float32-ulp); '
               'integer inputs, float32 coordinates, coordinates '
               'with variances, 0-d coordinates next to 1-d ones and coordinate names with line breaks are not generated')
    ctx.assume('the loaded DataArray carries the dimension name, coordinate name and units that load_xye was asked for '
               '(docstring of load_xye): "returns the chosen coordinate and the data values" is read for scipp objects, '
               'i.e. values together with the unit the caller named')
    th = ctx.thorough
    nw = int(os.environ.get('VERIF_TLC_WORKERS', '16'))
    rng = ctx.rng

    # ---- 1. design (the model runs are started now and joined before the verdicts)
    model_runs = [('textio/Xye.tla', 'MC_Xye_thorough.cfg' if th else 'MC_Xye.cfg', False, max(2, nw // 2)),
                  ('textio/XyeStore.tla', 'MC_XyeStore_thorough.cfg' if th else 'MC_XyeStore.cfg', False, 2),
                  ('textio/Xye.tla', 'Neg_Xye_header.cfg', True, 2), ('textio/Xye.tla', 'Neg_Xye_lossy.cfg', True, 2),
                  ('textio/Xye.tla', 'Neg_Xye_cr.cfg', True, 2), ('textio/XyeStore.tla', 'Neg_XyeStore_cache.cfg', True, 1),
                  ('textio/XyeStore.tla', 'Neg_XyeStore_append.cfg', True, 1)]
    model_results, model_errors = {}, []

    def model_worker(i):
        mod, cfg, neg, w = model_runs[i]
        try:
            model_results[i] = ctx.tlc(mod, cfg, workers=w, timeout=900, expect_error=neg, count=False)
        except Exception as e:  # noqa: BLE001
            model_errors.append(e)

    model_threads = []
    for i in range(len(model_runs)):
        t = threading.Thread(target=model_worker, args=(i,))
        t.start()
        model_threads.append(t)
        time.sleep(0.05)

    # ---- 2. conformance
    t_start = time.time()
    R = Runner(ctx)
    targets = ('buffer', 'path', 'str', 'file')
    replayable = []      # (kwargs of R.save incl. the DataSet, tid) of cases small enough to be run again at the end

    def add(cfg, header, mode, target, *, slot=None, keep=True, **kw):
        ds = DataSet(rng, cfg['nrows'], len(cfg['coords']), mode)
        if slot is None:
            slot = 1 + R.tid % 4
        tid, _ = R.save(cfg, header, ds, target=target, slot=slot, rng=rng, **kw)
        if keep and cfg['nrows'] <= 300:
            replayable.append((dict(cfg=cfg, header=header, ds=ds, target=target, slot=slot, **kw), tid))
        return tid

    # (0) the first uses of the module in this process are benign ones (integers that single precision holds exactly,
    #     default header, one coordinate): whatever the module keeps from its first caller must not leak into later calls
    for k in range(4):
        add({'hasvar': True, 'ndim': 1, 'masks': False, 'coords': [0], 'arg': -1, 'edges': [], 'nrows': 3 + k}, None if k % 2 == 0 else 'counts',
            'small_ints', targets[(k + 1) % 4], slot=1 + k)
    # (a) the decision table of the model (quick: 0..2 dimensions with one point completely, an eighth of the
    #     configurations with three dimensions or two points, seeded)
    for i, cfg in enumerate(table_cfgs()):
        if not th and (cfg['ndim'] == 3 or cfg['nrows'] == 2) and rng.random() >= 0.125:
            continue
        add(cfg, None, 'distinguished', targets[i % 4], naming=NAMINGS[i % 5 if i % 3 == 0 else 0], shuffle_coords=i % 2 == 1)
    ntable = R.tid
    # (b) every header of the model x 1..MaxRows rows x writable coordinate choices
    maxh = 4 if th else 3
    hdrs = [''.join(p) for k in range(maxh + 1) for p in itertools.product('a#\n 7\r', repeat=k)] + [None]
    shapes = [([2], -1), ([0, 1], -1), ([0, 1], 1)]
    for hi, h in enumerate(hdrs):
        for n in range(1, maxh + 1):
            if not th and (hi + n) % 2:
                continue     # quick: half of the (header, rows) grid, every header with >= 1 row count
            cs, a = shapes[(hi + n) % 3]
            add({'hasvar': True, 'ndim': 1, 'masks': False, 'coords': cs, 'arg': a, 'edges': [], 'nrows': n}, h,
                'distinguished', targets[(hi + n) % 4], load_via=('default', 'handle', 'str')[(hi + n) % 3])
    ngrid = R.tid
    # (c) random data far beyond the model's bounds: magnitudes, layouts, names, units, file names, later loads
    sizes = [1, 2, 3, 7, 100, 1000, 10000] * (12 if th else 1) + [10000] * (8 if th else 0)
    for n in sizes + [rng.randrange(1, 300) for _ in range(3000 if th else 130)]:
        mode = rng.choice(['random', 'random', 'distinguished', *MODES[2:]])
        add(_writable_cfg(rng, n), rand_header(rng), mode, rng.choice(targets), slot=rng.randrange(1, NPATHS + 1),
            naming=rng.choice(NAMINGS), layout=rng.choice(LAYOUTS), req=rng.choice(LOAD_REQS),
            load_via=rng.choice(['default', 'handle', 'str']), shuffle_coords=True)
        if rng.random() < 0.3:      # later loads of this and of other paths (whatever they hold now)
            for _ in range(rng.randrange(1, 4)):
                R.load(rng.randrange(1, NPATHS + 1), req=rng.choice(LOAD_REQS), via=rng.choice(['path', 'str', 'handle']))
    # (c') single-precision data with double-precision coordinates: the coordinate still bit-for-bit, the data values
    #      exactly (in their precision), the variances to 4 ulp of their precision
    for n in [1, 2, 3, 50, 1000] + [rng.randrange(1, 200) for _ in range(200 if th else 25)]:
        add(_writable_cfg(rng, n), rand_header(rng), 'single_data', rng.choice(targets), slot=rng.randrange(1, NPATHS + 1),
            naming=rng.choice(NAMINGS), req=rng.choice(LOAD_REQS), load_via=rng.choice(['default', 'handle', 'str']))
    # (c'') path names with a compression extension (.gz, .bz2, .xz): what is saved by name must load by name
    for slot_c in (9, 10, 11):
        for n in ([1, 3, 40] + ([200, 1000] if th else [])):
            add(_writable_cfg(rng, n), rand_header(rng), rng.choice(['random', 'distinguished', 'tiny', 'huge']),
                rng.choice(['path', 'str']), slot=slot_c, naming=rng.choice(NAMINGS), req=rng.choice(LOAD_REQS),
                load_via=rng.choice(['default', 'str']), keep=False)
    # (c''') file objects that do not stand at their beginning
    for n in [1, 2, 5, 30] + [rng.randrange(1, 100) for _ in range(60 if th else 8)]:
        add(_writable_cfg(rng, n), rand_header(rng), rng.choice(['random', 'distinguished', 'near_int']), 'offset',
            naming=rng.choice(NAMINGS), req=rng.choice(LOAD_REQS), keep=False)
    # (d) the scenarios of XyeStore: a few data sets, a few paths, saves and loads in any order; the same DataArray
    #     object saved again (to another target) without being rebuilt
    for _ in range(300 if th else 40):
        slots = rng.sample(range(1, NPATHS + 1), 2)
        made = []
        for _ in range(rng.randrange(4, 9)):
            if not made or rng.random() < 0.5:
                if made and rng.random() < 0.3:
                    kw, dap = rng.choice(made)
                    R.save(kw['cfg'], kw['header'], kw['ds'], target=rng.choice(targets), slot=rng.choice(slots), naming=kw['naming'],
                           layout=kw['layout'], req=rng.choice(LOAD_REQS), da_parent=dap, phase='same object saved again')
                else:
                    n = rng.choice([1, 2, 3, 5, 17])
                    kw = dict(cfg=_writable_cfg(rng, n), header=rand_header(rng), ds=None, naming=rng.choice(NAMINGS),
                              layout=rng.choice(LAYOUTS))
                    kw['ds'] = DataSet(rng, n, len(kw['cfg']['coords']), rng.choice(MODES))
                    _, dap = R.save(kw['cfg'], kw['header'], kw['ds'], target=rng.choice(targets[1:]), slot=rng.choice(slots),
                                    naming=kw['naming'], layout=kw['layout'], req=rng.choice(LOAD_REQS), rng=rng, shuffle_coords=True)
                    made.append((kw, dap))
            else:
                R.load(rng.choice(slots), req=rng.choice(LOAD_REQS), via=rng.choice(['path', 'str', 'handle']))
    nmain = R.tid
    # (e) a sample of all cases again, in another order (HARDENING item 6): same configuration, same numbers
    sample = rng.sample(replayable, min(len(replayable), 2000 if th else 260))
    rng.shuffle(sample)
    for kw, otid in sample:
        R.save(kw.pop('cfg'), kw.pop('header'), kw.pop('ds'), rng=rng, phase='replayed in another order', orig=otid, **kw)
    events, metas = R.events, R.metas
    ctx.extra['table_configurations'] = ntable
    ctx.extra['later_loads'] = sum(1 for e in events if e['op'] == 'load')
    ctx.extra['replayed_in_another_order'] = R.tid - nmain
    ctx.extra['rows_written'] = sum(e['cfg']['nrows'] for e in events if e['op'] == 'save' and e['out'] == 'file')
    for e in (events[5], events[ntable + 7], events[ngrid + 3], events[-1]):
        ctx.sample({k: (v if k != 'lines' else v[:4]) for k, v in e.items() if k != 'loaded'} |
                   {'loaded_rows': e['loaded']['rows'][:3]})

    ctx.extra['seconds_recording'] = round(time.time() - t_start, 1)
    # ---- join the model runs
    for t in model_threads:
        t.join()
    if model_errors:
        raise model_errors[0] if isinstance(model_errors[0], MachineryError) else MachineryError(repr(model_errors[0]))
    for i, (mod, cfg, neg, _) in enumerate(model_runs):
        if not neg:
            r = model_results[i]
            require_ok(ctx, r, f'{mod} / {cfg}')
            ctx.states += r.generated
            ctx.distinct_states += r.distinct
            ctx.transitions += max(r.generated - 1, 0)

    ctx.extra['seconds_until_models_done'] = round(time.time() - t_start, 1)
    tf = ctx.tmp / 'c15.ndjson'
    write_ndjson(tf, events)
    if os.environ.get('VERIF_KEEP_TRACE'):      # debugging aid: keep a copy of the recorded executions
        write_ndjson(os.environ['VERIF_KEEP_TRACE'], events)
    tr = ctx.tlc('textio/Trace_Xye.tla', workers=1, env={'TRACE_FILE': str(tf), '_JAVA_OPTIONS': '-Xss64m'}, timeout=1500)
    require_ok(ctx, tr, 'Trace_Xye')
    done = tr.tagged('DONE')
    if not done or done[0][1] != len(events):
        raise MachineryError(f'trace validation incomplete: {done} vs {len(events)} events')
    ctx.traces(len(events))
    rejects = tr.tagged('REJECT')
    if len(rejects) != done[0][2]:
        raise MachineryError(f'{done[0][2]} rejected events but {len(rejects)} REJECT lines parsed')
    rejected = {r[2] for r in rejects}
    for rej in rejects:
        _, _line, rtid, clause, kind = rej
        m = metas[rtid]
        cfg = m['cfg']
        ev = events[rtid]
        if clause == 'harness_bookkeeping_differs_from_the_model':
            raise MachineryError(f'event {rtid}: the harness and Trace_Xye disagree about what path {ev["path"]} holds')
        if clause == 'written_instead_of_refused':
            key = f'save_xye wrote a file for data that must be refused ({kind})'
            if cfg['nrows'] > 1 and kind == 'not_one_dimensional':
                key += ' with more than one point along the dimension'
        elif clause == 'representable_data_refused':
            key = f'save_xye raised {m["exc"].split(":")[0]} for representable data ({len(cfg["coords"])} coordinate(s), ' \
                  f'coord argument {"given" if cfg["arg"] != -1 else "omitted"})'
        elif clause in ('loaded_names_or_units_differ', 'later_load_names_or_units_differ'):
            want = ExpectedMetaPy(m['req'])
            what = next((txt for f, txt in (('dim', 'dimension name'), ('cname', 'coordinate name'), ('unit', 'unit of the data'),
                                            ('cunit', 'unit of the coordinate')) if (m['got'] or {}).get(f) != want[f]), '?')
            key = f'load_xye: the returned DataArray does not have the requested {what}'
            m['wanted'] = want
        elif clause in ('later_load_failed', 'later_load_differs'):
            nrows_got = len(ev['loaded']['rows'])
            how = ('load_xye failed' if clause == 'later_load_failed' else
                   'another number of rows than the last save to this path wrote' if nrows_got != cfg['nrows'] else
                   'other numbers than the last save to this path wrote')
            key = f'later load of a path that was saved to before: {how}'
        else:
            hk = 'generated header' if m['header'] is None else 'empty header' if m['header'] == '' else \
                 'header containing CR' if '\r' in m['header'] else \
                 'multi-line header' if '\n' in m['header'] else 'single-line header'
            nr = '1 row' if cfg['nrows'] == 1 else 'several rows'
            if clause in ('table_cells', 'loaded_data_differs'):
                # which columns differ, and whether the number is unknown or another supplied value
                n = cfg['nrows']
                got = [[ln[0], ln[2], ln[4]] for ln in ev['lines'][-n:] if len(ln) == 5] if clause == 'table_cells' \
                    else ev['loaded']['rows']
                chosen = cfg['arg'] if cfg['arg'] != -1 else (cfg['coords'][0] if len(cfg['coords']) == 1 else 0)
                cols, unknown = set(), False
                for i, row in enumerate(got[:n]):
                    want = [(chosen + 1) * 1000000 + i + 1, 6000000 + i + 1, 7000000 + i + 1]
                    for q in range(min(3, len(row))):
                        if row[q] != want[q]:
                            cols.add('XYE'[q])
                            unknown |= row[q] == UNKNOWN
                if len(got) != n:
                    cols.add('row count')
                first = next((c for c in ('row count', 'X', 'Y', 'E') if c in cols), '?')
                key = (f'{clause}: {first} ' + ('not the supplied numbers (X, Y bit-for-bit, E^2 within 4 ulp)'
                                                if unknown else 'holds other supplied values'))
                m['columns'] = sorted(cols)
            elif clause == 'load_failed':
                key = f'load_xye failed on a file written by save_xye ({nr}): {(m["load_exc"] or "wrong shape").split(":")[0]}'
            else:
                key = f'{clause} ({hk}, {nr})'
        if m['phase'] != 'main' and not (m['orig'] is not None and m['orig'] in rejected):
            # the same case was accepted when it ran first (or has no first run): the history matters
            key += f' [{m["phase"]}]'
        ctx.violation(key, {k: m.get(k) for k in ('cfg', 'header', 'mode', 'target', 'layout', 'naming', 'file', 'exc', 'load_exc', 'req',
                                                  'got', 'wanted', 'phase', 'text', 'columns')})

    ctx.extra['seconds_own_part'] = round(time.time() - t_start, 1)
    # ---------------------------------------------------------------- growth (hosted here for its time budget): metadata models, the
    # Beamline/Source -> probe/device table of with_beamline, the audit_conform schema loop
    # (spec/metadata/Growth_*.tla; deviations are GROWTH-FINDINGs, not violations of C15)
    from .. import lib_growth_metadata
    ctx.run_growth(lib_growth_metadata.run, 'lib_growth_metadata')
    from .. import lib_growth_nexusmeta
    ctx.run_growth(lib_growth_nexusmeta.run, 'lib_growth_nexusmeta')


META = {
    'design_ref': 'DESIGN.md §5 C15',
    'technique': 'TLA+ specification of the XYE writer/reader, its refusal table and the files of several paths over time, '
                 'model-checked by TLC; recorded executions of the real save_xye/load_xye (numbers as value-ids) judged '
                 'event-by-event by TLC',
    'text': 'TLC proves that the refusal table is total and exclusive, that nothing is written for data the format '
            'cannot carry, that Load(Save(d)) = d for every header over {a,#,LF,SP,digit,CR} up to length 4 and 1..4 rows and '
            'that a load returns what the last save to its path wrote, whatever happened before. '
            'The real save_xye/load_xye are replayed on the whole table, on every header of the model and on random '
            'finite bit patterns and uniformly tiny / huge / nearly-integer columns up to 10^4 rows, supplied contiguous and '
            'as strided views, with path and file-object targets, later loads and a replay in another order; X and Y must '
            'come back bit-for-bit, variances within 4 ulp, the written text must have the specified line structure and the '
            'loaded DataArray the requested names and units.',
    'note': 'Trusted: TLC, numpy float parsing of the harness, scipp. ulp distances and bit equality are computed by the '
            'harness (value-ids); structure, commenting of header lines, choice of coordinate, refusals, equality of '
            'id tables, names / units and the content of the paths over time are decided by TLC.',
}
