SPECIFICATION Spec
CONSTANTS
  CX <- MC_C1
  CY <- MC_C1
  CZ <- MC_C1
  Steps <- MC_Steps
  Scales = {2}
  Bug = "none"
INVARIANT TypeOK
INVARIANT Range
INVARIANT EndPoints
INVARIANT CosineLaw
INVARIANT Triangle
INVARIANT BroadcastSound
PROPERTY AngleInvariant
PROPERTY RigidLengths
PROPERTY ScaleLaw
PROPERTY SwapLaw
CHECK_DEADLOCK FALSE
