-------------------- MODULE Growth_Trace_NexusMetadata --------------------
(* code -> spec for GROWTH G07.  Judges recorded reads of real in-memory NeXus entries (one   *)
(* NDJSON line per read, written by harness/lib_growth_nexusmeta.py) with the decision tables  *)
(* of Growth_NexusMetadataDefs.  Events:                                                        *)
(*   beamline     groups (list of [gname, cls, nested, name]), arg, obs = [out, name, fac,     *)
(*                site, rev]; flags of an accepted read: rt (model_dump -> model_validate      *)
(*                gives an equal object, python and JSON mode), and of every read: again (a    *)
(*                second read gives the same outcome), unchanged (the HDF5 file is the same    *)
(*                before and after), order_free (the same content created in another order     *)
(*                gives the same outcome)                                                      *)
(*   measurement  strs, times, obs = [out, title, run_number, experiment_id, doi, start_time,  *)
(*                end_time], maybe_int ("none" | "int" | "text" | "other" | "raised_<class>"), *)
(*                rt, again, unchanged, order_free                                             *)
(*   casefam      inst, outs: what was observed for the letter-case variants of one instrument *)
(* Every event gets a verdict; a rejected one prints <<"REJECT", line, tid, clause, field>>.    *)
EXTENDS Growth_NexusMetadataDefs, TLC, Json, IOUtils

Tr == ndJsonDeserialize(IOEnv.TRACE_FILE)

VARIABLES l, nbad
tvars == <<l, nbad>>

ToSet(s) == { s[i] : i \in 1..Len(s) }

JudgeBeamline(e) ==
    LET v == BeamlineVerdict(ToSet(e.groups), e.arg)
        c == BeamlineClause(v, e.obs)
    IN  IF c # "ok" THEN <<c, "-">>
        ELSE IF ~e.unchanged THEN <<"the_file_is_modified_by_reading", "-">>
        ELSE IF v.kind = "unspecified" THEN <<"ok", "-">>
        ELSE IF ~e.again THEN <<"a_second_read_gives_a_different_outcome", "-">>
        ELSE IF ~e.order_free THEN <<"the_outcome_depends_on_the_creation_order", "-">>
        ELSE IF e.obs.out = "beamline" /\ ~e.rt THEN <<"model_dump_then_model_validate_gives_a_different_object", "-">>
        ELSE <<"ok", "-">>

JudgeMeasurement(e) ==
    LET c  == [strs |-> e.strs, times |-> e.times]
        cl == MeasurementClause(c, e.obs)
    IN  IF cl[1] # "ok" THEN cl
        ELSE IF ~e.unchanged THEN <<"the_file_is_modified_by_reading", "-">>
        ELSE IF ~MeasSpecified(c) THEN <<"ok", "-">>
        ELSE IF ~e.again THEN <<"a_second_read_gives_a_different_outcome", "-">>
        ELSE IF ~e.order_free THEN <<"the_outcome_depends_on_the_creation_order", "-">>
        ELSE IF e.obs.out = "refused" THEN <<"ok", "-">>
        ELSE IF ~e.rt THEN <<"model_dump_then_model_validate_gives_a_different_object", "-">>
        ELSE IF e.maybe_int # MaybeIntExpected(e.strs["entry_identifier"], e.obs.run_number)
             THEN <<"run_number_maybe_int", e.maybe_int>>
        ELSE <<"ok", "-">>

Judge(e) ==
    IF e.ev = "beamline" THEN JudgeBeamline(e)
    ELSE IF e.ev = "measurement" THEN JudgeMeasurement(e)
    ELSE IF e.ev = "casefam"
         THEN (IF CaseFamilyOK(e.outs) THEN <<"ok", "-">>
               ELSE <<"recognition_of_the_instrument_depends_on_letter_case", e.inst>>)
    ELSE <<"unknown_event", "-">>

TInit == l = 1 /\ nbad = 0
TNext == /\ l <= Len(Tr)
         /\ l' = l + 1
         /\ LET v == Judge(Tr[l]) IN
            /\ nbad' = IF v[1] = "ok" THEN nbad ELSE nbad + 1
            /\ (v[1] = "ok" \/ PrintT(<<"REJECT", l, Tr[l].tid, v[1], v[2]>>))
TSpec == TInit /\ [][TNext]_tvars
Done == (l = Len(Tr) + 1) => PrintT(<<"DONE", l - 1, nbad>>)
=============================================================================
