SPECIFICATION Spec
CONSTANTS
  Universe <- UQ
  ArgSeq <- ArgsQ
  MaxSteps = 4
  LibKnown <- LibQ
  Bug = "ignore_arg"
  Export = FALSE
INVARIANT Delivers
CHECK_DEADLOCK FALSE
