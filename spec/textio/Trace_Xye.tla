----------------------------- MODULE Trace_Xye -----------------------------
(* Judges recorded executions of the real save_xye / load_xye.  One NDJSON line per call:  *)
(*   op "save": tid, cfg (as in XyeDefs; header already mapped to the symbols a # LF SP    *)
(*      digit CR), path (0 = a buffer / nothing that can be loaded again later, k >= 1 =   *)
(*      the k-th path of the run), out "file" | "raised", lines = the written text split    *)
(*      into lines and mapped to symbols (numbers -> value-ids by exact bit equality for X  *)
(*      and Y, <= 4 ulp of the variance for E^2; unknown numbers -> 8000000), loaded =      *)
(*      [ok, rows] of value-ids of the DataArray load_xye returned for this file           *)
(*      (variances <= 4 ulp), req / got = what load_xye was asked for (dimension,           *)
(*      coordinate name, units) and what the returned DataArray has.                        *)
(*   op "load": tid, path >= 1, ds = tid of the save whose numbers the harness used to map  *)
(*      the loaded numbers to ids, loaded, req, got: a LATER load of a path, after other    *)
(*      saves and loads (XyeStore).                                                         *)
(* The judge keeps, as XyeStore does, what the last save to every path wrote: fs[p] =       *)
(* [tid, nrows, chosen] (tid = -1: nothing known).  Every line gets a verdict; a rejected  *)
(* line prints <<"REJECT", line, tid, clause, kind>>.                                       *)
EXTENDS XyeDefs, TLC, Json, IOUtils

Tr == ndJsonDeserialize(IOEnv.TRACE_FILE)
NPaths == 16

VARIABLES l, nbad, fs
tvars == <<l, nbad, fs>>

Cfg(e) == [hasvar |-> e.cfg.hasvar, ndim |-> e.cfg.ndim, masks |-> e.cfg.masks, coords |-> ToSet(e.cfg.coords),
           arg |-> e.cfg.arg, edges |-> ToSet(e.cfg.edges), nrows |-> e.cfg.nrows, header |-> e.cfg.header]

Unknown == [tid |-> -1, nrows |-> 0, chosen |-> -1]

MetaOK(e) == e.got = ExpectedMeta(e.req)

(* Which text the comment lines carry is not part of the property ("header text never    *)
(* interferes with the table"): only that every line before the table is a comment and    *)
(* that the table is exactly the data (WellFormed, DataLine, Load).                        *)
JudgeSave(e) ==
    LET c == Cfg(e)  d == Decide(c)
        rl == ReaderLines(e.lines)      \* evaluated once per event (ReaderLines is idempotent)
    IN
    IF d # "write" THEN (IF e.out = "raised" THEN "ok" ELSE "written_instead_of_refused")
    ELSE IF e.out = "raised" THEN "representable_data_refused"
    ELSE IF ~WellFormed(rl, c.nrows) THEN "file_structure"
    ELSE IF \E i \in 1..c.nrows : rl[Len(rl) - c.nrows + i] # DataLine(Chosen(c), i) THEN "table_cells"
    ELSE IF Load(rl) # [ok |-> TRUE, rows |-> Expected(c)] THEN "table_not_readable_by_specified_reader"
    ELSE IF ~e.loaded.ok THEN "load_failed"
    ELSE IF e.loaded.rows # Expected(c) THEN "loaded_data_differs"
    ELSE IF ~MetaOK(e) THEN "loaded_names_or_units_differ"
    ELSE "ok"

(* a later load of path p: the path holds what the last save to it wrote *)
JudgeLoad(e) ==
    LET f == fs[e.path] IN
    IF f.tid # e.ds THEN "harness_bookkeeping_differs_from_the_model"
    ELSE IF ~e.loaded.ok THEN "later_load_failed"
    ELSE IF e.loaded.rows # ExpectedRows(f.nrows, f.chosen) THEN "later_load_differs"
    ELSE IF ~MetaOK(e) THEN "later_load_names_or_units_differ"
    ELSE "ok"

Judge(e) == IF e.op = "load" THEN JudgeLoad(e) ELSE JudgeSave(e)

(* the store after the event: a save that produced a file defines the content of its path,  *)
(* a save that raised leaves it unknown (nothing is demanded about the file then)           *)
After(e) ==
    IF e.op = "save" /\ e.path >= 1
    THEN [fs EXCEPT ![e.path] = IF e.out = "file" /\ Decide(Cfg(e)) = "write"
                                THEN [tid |-> e.tid, nrows |-> e.cfg.nrows, chosen |-> Chosen(Cfg(e))]
                                ELSE Unknown]
    ELSE fs

Kind(e) == IF e.op = "load" THEN "write" ELSE Decide(Cfg(e))

TInit == l = 1 /\ nbad = 0 /\ fs = [p \in 1..NPaths |-> Unknown]
TNext == /\ l <= Len(Tr)
         /\ l' = l + 1
         /\ fs' = After(Tr[l])
         /\ LET v == Judge(Tr[l]) IN
            /\ nbad' = IF v = "ok" THEN nbad ELSE nbad + 1
            /\ (v = "ok" \/ PrintT(<<"REJECT", l, Tr[l].tid, v, Kind(Tr[l])>>))
TSpec == TInit /\ [][TNext]_tvars
Done == (l = Len(Tr) + 1) => PrintT(<<"DONE", l - 1, nbad>>)
=============================================================================
