------------------------ MODULE Growth_MaskingToolDefs ------------------------
(* Growth module G05: scippneutron.MaskingTool (src/scippneutron/masking.py), state-free part.  *)
(* Written from the docstring / instruction text of the tool, not from its code:                 *)
(*   "Interactive masking tool for 1D and 2D data ... draw rectangles, horizontal spans, and     *)
(*    vertical spans to create masks, using buttons in the top bar"                              *)
(*   - Left-click to add a new shape, and left-click again to persist the shape                  *)
(*   - Left-click a vertex to edit a shape      - Right-click and hold to drag a shape           *)
(*   - Middle-click (or Ctrl + left-click) to delete a shape                                     *)
(*   - Save the masks to a file when the "Save" button is clicked; "the file extension will be   *)
(*     automatically added if not present"                                                       *)
(*   "creates a mask inside the area covered by the shape": coordinate >= min and <= max in      *)
(*    every dimension the shape bounds.                                                          *)
(*                                                                                               *)
(* Geometry.  The data points sit on an integer grid: x in 0..NX (and y in 0..NY for 2-D data).  *)
(* All positions (clicks, shape corners, bounds) are DOUBLED integers d = 2 * coordinate, so a   *)
(* data point i is at d = 2i and odd d lie half way between two points.  A shape of any kind is  *)
(* <<x1, y1, x2, y2>>: the two corner points in the order they were clicked; coordinates a kind  *)
(* does not bound (y of a vertical span, x of a horizontal span) are 0.                          *)
(*                                                                                               *)
(* A tool state s is a record                                                                    *)
(*   shapes   [kind -> sequence of shapes in drawing order]                                      *)
(*   applied  [kind -> sequence of masks] what the data-flow graph currently applies; a mask is  *)
(*            recomputed when its shape is persisted, when a vertex or a dragged shape is        *)
(*            released, and it is dropped when the shape is deleted                              *)
(*   active   the set of pressed tool buttons        pending  <<>> or the first click <<x, y>>   *)
(*   visible  shapes shown                           fname    the text in the file name box      *)
(* File names are [stem, k]: the text stem followed by k copies of ".json" (k = 0: no extension) *)
(* and the empty text is [stem |-> "", k |-> 0].                                                 *)
EXTENDS Integers, Sequences, FiniteSets

CONSTANTS NX, NY,      \* grid: x in 0..NX, y in 0..NY
          NDim,        \* 1 or 2
          Bug          \* "none" or the name of a deliberately wrong variant (negative controls)

KindSeq == <<"rectangle", "vspan", "hspan">>          \* order of the buttons = order of get_masks()
KindSet == {"rectangle", "vspan", "hspan"}
Rank(k) == CHOOSE i \in 1..3 : KindSeq[i] = k
Allowed(k) == NDim = 2 \/ k = "vspan"                 \* 1-D data: only vertical spans make sense
UsesX(k) == k # "hspan"
UsesY(k) == k # "vspan"
AxesOf(k) == IF k = "rectangle" THEN "xy" ELSE IF k = "vspan" THEN "x" ELSE "y"

Min2(a, b) == IF a <= b THEN a ELSE b
Max2(a, b) == IF a >= b THEN a ELSE b

-----------------------------------------------------------------------------
(* (a) the mask of a shape: closed intervals, corner order irrelevant *)
XLo(g) == IF Bug = "unsorted" THEN g[1] ELSE Min2(g[1], g[3])
XHi(g) == IF Bug = "unsorted" THEN g[3] ELSE Max2(g[1], g[3])
YLo(g) == IF Bug = "unsorted" THEN g[2] ELSE Min2(g[2], g[4])
YHi(g) == IF Bug = "unsorted" THEN g[4] ELSE Max2(g[2], g[4])
Within(lo, hi, c) == IF Bug = "open" THEN lo < c /\ c < hi ELSE lo <= c /\ c <= hi

YPts == IF NDim = 2 THEN 0..NY ELSE {0}
NYe == IF NDim = 2 THEN NY ELSE 0
Points == (0..NX) \X YPts
PointId(p) == p[1] * (NYe + 1) + p[2]                 \* row-major number of a data point

Covers(k, g, p) ==
    LET inx == Within(XLo(g), XHi(g), 2 * p[1])
        iny == Within(YLo(g), YHi(g), 2 * p[2])
    IN  IF k = "rectangle" THEN (IF Bug = "anydim" THEN inx \/ iny ELSE inx /\ iny)
        ELSE IF k = "vspan" THEN inx ELSE iny
MaskOf(k, g) == { PointId(p) : p \in { q \in Points : Covers(k, g, q) } }

(* an arithmetic characterisation of the same thing, used by the invariants only:            *)
(* number of grid points i in 0..n with lo <= 2i <= hi                                       *)
CountOnGrid(lo, hi, n) ==
    LET a == Max2(lo, 0)
        b == Min2(hi, 2 * n)
    IN  IF b < a THEN 0 ELSE Max2(0, (b \div 2) - ((a + 1) \div 2) + 1)

-----------------------------------------------------------------------------
(* states *)
NoName == [stem |-> "", k |-> 0]
EmptyName(f) == f.stem = "" /\ f.k = 0
Init0 == [shapes |-> [k \in KindSet |-> <<>>], applied |-> [k \in KindSet |-> <<>>],
          active |-> {}, pending |-> <<>>, visible |-> TRUE, fname |-> NoName]

Total(s) == Len(s.shapes["rectangle"]) + Len(s.shapes["vspan"]) + Len(s.shapes["hspan"])
Offset(s, k) == IF k = "rectangle" THEN 0
                ELSE IF k = "vspan" THEN Len(s.shapes["rectangle"])
                ELSE Len(s.shapes["rectangle"]) + Len(s.shapes["vspan"])

(* (b) the get_masks() document: rectangles, then vertical spans, then horizontal spans, each    *)
(* kind in drawing order; entry n is named <axes>_<n-1>; bounds are min / max per bounded axis   *)
Entries(s, k) == [i \in 1..Len(s.shapes[k]) |-> [kind |-> k, g |-> s.shapes[k][i], i |-> i]]
AllEntries(s) == Entries(s, "rectangle") \o Entries(s, "vspan") \o Entries(s, "hspan")
Doc(s) ==
    LET all == AllEntries(s)
    IN  [n \in 1..Len(all) |->
            LET e == all[n] IN
            [axes    |-> AxesOf(e.kind),
             counter |-> IF Bug = "kindcounter" THEN e.i - 1 ELSE n - 1,
             kind    |-> e.kind,
             x       |-> IF UsesX(e.kind) THEN <<XLo(e.g), XHi(e.g)>> ELSE <<>>,
             y       |-> IF UsesY(e.kind) THEN <<YLo(e.g), YHi(e.g)>> ELSE <<>>]]

(* the masks applied to the data, listed in the order of the document, and their union *)
AppliedSeq(s) == s.applied["rectangle"] \o s.applied["vspan"] \o s.applied["hspan"]
UnionMask(s) == UNION { AppliedSeq(s)[i] : i \in 1..Len(AppliedSeq(s)) }

(* (c) saving *)
SaveEnabled(s) == IF Bug = "savealways" THEN TRUE ELSE ~EmptyName(s.fname)
FileFor(f) == [stem |-> f.stem, k |-> IF Bug = "doublejson" THEN f.k + 1 ELSE Max2(f.k, 1)]
NoOut == [asked |-> NoName, file |-> NoName, doc |-> <<>>]
SaveOut(s, f) == [asked |-> f, file |-> FileFor(f), doc |-> Doc(s)]

-----------------------------------------------------------------------------
(* actions as functions on states *)
DoActivate(s, k) ==
    [s EXCEPT !.active = IF Bug = "keepactive" THEN @ \cup {k} ELSE {k}, !.pending = <<>>]
DoDeactivate(s, k) == [s EXCEPT !.active = @ \ {k}, !.pending = <<>>]

NewShape(k, p, x, y) ==
    << IF UsesX(k) THEN p[1] ELSE 0, IF UsesY(k) THEN p[2] ELSE 0,
       IF UsesX(k) THEN x ELSE 0,    IF UsesY(k) THEN y ELSE 0 >>

(* a left-click on the canvas at (x, y): nothing without a pressed button; the first click    *)
(* starts a shape, the second one persists it (an unfinished shape is no mask)                 *)
DoClick(s, x, y) ==
    IF s.active = {} THEN s
    ELSE IF s.pending = <<>> THEN [s EXCEPT !.pending = <<x, y>>]
    ELSE [s EXCEPT !.pending = <<>>,
                   !.shapes  = [k \in KindSet |-> IF k \in s.active
                                   THEN Append(@[k], NewShape(k, s.pending, x, y)) ELSE @[k]],
                   !.applied = [k \in KindSet |-> IF k \in s.active
                                   THEN Append(@[k], MaskOf(k, NewShape(k, s.pending, x, y))) ELSE @[k]]]

(* vertices (handles).  <<hx, hy>>: hx = 1 / 2 the handle sits on the first / second corner's  *)
(* x, hx = 0 it sits half way and does not move x; same for hy.  A rectangle has 4 corner and   *)
(* 4 edge handles, a span one handle per side.  A handle is only offered where the pointer can   *)
(* tell it apart from a corner (edge handles of a degenerate rectangle coincide with corners).  *)
Handles(k, g) ==
    IF k = "rectangle"
    THEN { h \in (0..2) \X (0..2) : /\ h # <<0, 0>>
                                    /\ (h[2] = 0 /\ h[1] # 0 => g[2] # g[4])
                                    /\ (h[1] = 0 /\ h[2] # 0 => g[1] # g[3]) }
    ELSE IF k = "vspan" THEN {<<1, 0>>, <<2, 0>>} ELSE {<<0, 1>>, <<0, 2>>}
(* position of a handle in QUADRUPLED coordinates (edge mid-points may fall on quarter steps) *)
HandlePos4(g, h) ==
    << IF h[1] = 0 THEN g[1] + g[3] ELSE 2 * g[2 * h[1] - 1],
       IF h[2] = 0 THEN g[2] + g[4] ELSE 2 * g[2 * h[2]] >>
Moved(g, h, x, y) ==
    << IF h[1] = 1 THEN x ELSE g[1], IF h[2] = 1 THEN y ELSE g[2],
       IF h[1] = 2 THEN x ELSE g[3], IF h[2] = 2 THEN y ELSE g[4] >>
Shifted(k, g, dx, dy) ==
    LET ex == IF UsesX(k) THEN dx ELSE 0
        ey == IF UsesY(k) THEN dy ELSE 0
    IN  <<g[1] + ex, g[2] + ey, g[3] + ex, g[4] + ey>>
RemoveAt(q, i) == SubSeq(q, 1, i - 1) \o SubSeq(q, i + 1, Len(q))

DoMove(s, k, i, h, x, y) ==
    LET g2 == Moved(s.shapes[k][i], h, x, y)
    IN  [s EXCEPT !.shapes[k][i] = g2, !.applied[k][i] = MaskOf(k, g2)]
DoDrag(s, k, i, dx, dy) ==
    LET g2 == Shifted(k, s.shapes[k][i], dx, dy)
    IN  [s EXCEPT !.shapes[k][i] = g2,
                  !.applied[k][i] = IF Bug = "nodragrefresh" THEN @ ELSE MaskOf(k, g2)]
DoRemove(s, k, i) ==
    [s EXCEPT !.shapes[k] = RemoveAt(@, i),
              !.applied[k] = IF Bug = "removelast" THEN SubSeq(@, 1, Len(@) - 1) ELSE RemoveAt(@, i)]
DoToggle(s) == [s EXCEPT !.visible = ~@]
DoSetName(s, f) == [s EXCEPT !.fname = f]

(* a step given as a record [op |-> ..., arguments]; ApplyStep is the state after it, OutOf the  *)
(* file it writes (NoOut unless it saves)                                                        *)
ApplyStep(s, a) ==
    CASE a.op = "activate"   -> DoActivate(s, a.k)
      [] a.op = "deactivate" -> DoDeactivate(s, a.k)
      [] a.op = "click"      -> DoClick(s, a.x, a.y)
      [] a.op = "move"       -> DoMove(s, a.k, a.i, a.h, a.x, a.y)
      [] a.op = "drag"       -> DoDrag(s, a.k, a.i, a.dx, a.dy)
      [] a.op = "remove"     -> DoRemove(s, a.k, a.i)
      [] a.op = "toggle"     -> DoToggle(s)
      [] a.op = "setname"    -> DoSetName(s, a.f)
      [] OTHER               -> s                     \* "save", "saveas": the tool is unchanged
OutOf(s, a) == IF a.op = "save" THEN SaveOut(s, s.fname)
               ELSE IF a.op = "saveas" THEN SaveOut(s, a.f) ELSE NoOut
StatesAlong(h) ==                                    \* F[n]: the state after the first n steps of h
    LET F[n \in 0..Len(h)] == IF n = 0 THEN Init0 ELSE ApplyStep(F[n - 1], h[n]) IN F

(* what can be observed of a state (o: the result of the step, NoOut unless it saved a file) *)
Obs(s, o) == [active |-> s.active, pending |-> s.pending # <<>>, visible |-> s.visible,
              save |-> SaveEnabled(s), doc |-> Doc(s), masks |-> AppliedSeq(s),
              union |-> UnionMask(s), out |-> o]
=============================================================================
