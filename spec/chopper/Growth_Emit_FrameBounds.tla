------------------------ MODULE Growth_Emit_FrameBounds ------------------------
(* Spec -> code.  TLC enumerates, at constant level, every Stride-th cascade of the bounded    *)
(* model (pulse, choppers by increasing distance) and, for EVERY frame of the resulting frame  *)
(* sequence (source, after chopper 1, ...), the exact derived quantities: bounds, subbounds,   *)
(* start/end times for several distances, the acceptance polygons (back at the source) and the *)
(* grid neutrons still in the beam.  harness/lib_growth_chopper.py replays the cascades into   *)
(* FrameSequence / Frame / Subframe and compares.                                               *)
EXTENDS Growth_FrameBoundsDefs, Json, IOUtils, SequencesExt

CONSTANTS Pulses, Choppers, MaxChops, L, Stride, Deltas
VARIABLE dummy

RECURSIVE Cascades(_)
Cascades(n) ==
    IF n = 0 THEN { <<>> }
    ELSE LET P == Cascades(n - 1)
         IN P \cup { Append(pc[1], pc[2]) :
                       pc \in { q \in { x \in P : Len(x) = n - 1 } \X Choppers :
                                  Len(q[1]) = 0 \/ q[2].d > q[1][Len(q[1])].d } }

NoBounds == <<0, 0, 0, 0>>
FrameRecord(p, cs, k) ==      \* the frame after the first k choppers
    LET fr == ChopList([d |-> 0, polys |-> <<Rect(p, L)>>], SubSeq(cs, 1, k), L, "none")
        ne == Len(fr.polys) > 0
        down == SelectSeq(Deltas, LAMBDA x : x >= 0)
    IN [ d |-> fr.d, nsub |-> Len(fr.polys), polys |-> fr.polys,
         bounds |-> IF ne THEN FrameBounds(fr.polys, "none") ELSE NoBounds,
         subbounds |-> SubBounds(fr.polys),
         starts |-> [ m \in 1..Len(fr.polys) |-> StartTimes(fr.polys[m], down) ],
         ends   |-> [ m \in 1..Len(fr.polys) |-> EndTimes(fr.polys[m], down) ],
         moved  |-> [ j \in 1..Len(Deltas) |-> [ m \in 1..Len(fr.polys) |-> PropagateBy(fr.polys[m], Deltas[j]) ] ],
         acc |-> Acceptance(fr, "none"),
         alive |-> SetToSeq({ n \in Neutrons(p) : Transmitted(n, SubSeq(cs, 1, k)) }) ]

RecordOf(p, cs) ==
    [ pulse |-> <<p.t0, p.t1, p.w0, p.w1>>, choppers |-> cs, L |-> L, deltas |-> Deltas,
      down |-> SelectSeq(Deltas, LAMBDA x : x >= 0),
      frames |-> [ k \in 1..(Len(cs) + 1) |-> FrameRecord(p, cs, k - 1) ] ]

Records ==
    LET ps == SetToSeq(Pulses)
        cs == SetToSeq(Cascades(MaxChops))
        idx == { ij \in (1..Len(ps)) \X (1..Len(cs)) : (ij[1] * 5 + ij[2]) % Stride = 0 }
    IN SetToSeq({ RecordOf(ps[ij[1]], cs[ij[2]]) : ij \in idx })

ASSUME ndJsonSerialize(IOEnv.OUT_CASES, Records)
ASSUME PrintT(<<"EMITTED", Len(Records)>>)

EInit == dummy = 0
ENext == UNCHANGED dummy
ESpec == EInit /\ [][ENext]_dummy
=============================================================================
