SPECIFICATION Spec
CONSTANTS
  Bug = "none"
  Order = "fixed"
INVARIANT AnswerIsTable
INVARIANT GivenReturnedAsIs
INVARIANT OnlyGivenInputsUsed
INVARIANT CallerUntouched
INVARIANT WorkOnlyGrows
INVARIANT NoScatterIsStraightDistance
INVARIANT ScatterIsSumOfLegs
INVARIANT SampleIrrelevantWithoutScatter
CHECK_DEADLOCK FALSE
INVARIANT Emit
