"""C20 — bundled nuclear data are returned verbatim; attenuation follows the 1/v law.

Spec: spec/atoms/AtomTablesDefs.tla (tables as constants read by TLC from a JSON export of the CSV files,
declarative lookups, element/isotope rule, periodic table, near-miss generator, attenuation law on
rationals), AtomTables.tla (lookups with memoisation as a state machine: documented mechanism vs
declarative meaning), MC_AtomTables.tla, Cases_AtomTables.tla, Trace_AtomTables.tla.
harness/lib_atoms.py reads the CSV files with Python's csv module (never with scippneutron's parser) and
regenerates the JSON on every run (CommunityModules' CSVRead cannot read these files, see lib_atoms).

1. TLC, exhaustive on a sub-table: for every history of lookups over real names and all their near-miss
   names the memoised linear-scan mechanism answers exactly as the declarative definition; negative
   controls (case-folded cache key, prefix match, stripped blanks) must be rejected.
2. TLC on the FULL tables: data facts (unique names, name syntax, every isotope's element tabulated,
   Z = position in the periodic table, uncertainty only next to a value); near-miss names of every
   selected row with the expected outcome (spec -> code); the attenuation law on a rational grid.
3. code -> spec over ALL 371 + 118 + 3557 rows (plus repeated lookups in random order and the near-miss
   names): every field of Atom.for_isotope / ScatteringParams.for_isotope is compared here with
   float(text) of the table (exact equality), variance with float(text)**2 (<= 1 ulp), unit string,
   blank => None; one event per lookup; Trace_AtomTables.tla decides name membership, row identity,
   blank pattern column by column, Z, mass only for isotopes, weight only where tabulated.  Any exception
   counts as rejection of an unknown name (DESIGN §3.4).
4. Material.attenuation_coefficient for tabulated isotopes and for the rational grid, wavelengths and
   number densities in several units, against n(sigma_s + sigma_a*lambda/1.7982 A) evaluated exactly
   (Fractions; the floats handed to the code are taken as exact rationals), relative 1e-14, and
   convertible to 1/m (dimension 1/length).

TLC cannot compare floats: equality of a returned double with float(text) is evaluated here and handed
to TLC as one letter per CSV column (b/m/x).  Returned objects are never mutated (aliasing of the cached
objects is C09's subject).
"""

from __future__ import annotations

import json
import os
from fractions import Fraction as F

from .. import lib_atoms as A
from ..core import MachineryError
from ..refmap import ulp_diff
from ..tlc import require_ok, write_ndjson

WORKERS = int(os.environ.get('VERIF_TLC_WORKERS', '16'))

RULE = ('names = first-column entries of the three bundled tables (all 4046 rows) and their near-miss names '
        '(proper prefixes/suffixes, one character added, case changes, inserted blank, header words); '
        'non-trivial = lookup of a tabulated name with at least one value, or a near-miss that is itself '
        'another tabulated name; attenuation: isotopes with both cross-sections tabulated')

LENGTH_TO_M = {'angstrom': F(1, 10**10), 'nm': F(1, 10**9), 'pm': F(1, 10**12), 'm': F(1), 'um': F(1, 10**6)}


def _name(cp):
    return ''.join(chr(c) for c in cp)


def _letter(var, text, unit, is_std=False):
    """One CSV column against the returned Variable (or None)."""
    if is_std:
        if var is None or var.variance is None:
            return 'b'
        if text == '':
            return 'x'
        want = float(text) ** 2
        return 'm' if ulp_diff(float(var.variance), want) <= 1 else 'x'
    if var is None:
        return 'b'
    if text == '':
        return 'x'
    return 'm' if float(var.value) == float(text) else 'x'


def _var_ok(var, unit):
    """Shape/unit contract of one returned Variable."""
    import scipp as sc

    return var is None or (isinstance(var, sc.Variable) and var.ndim == 0 and var.unit == sc.Unit(unit)
                           and var.dtype == sc.DType.float64)


class Tables:
    def __init__(self, t):
        self.t = t
        self.scat = {r['name']: (i + 1, r) for i, r in enumerate(t['scat'])}
        self.weights = {r['name']: (i + 1, r) for i, r in enumerate(t['weights'])}
        self.masses = {r['name']: (i + 1, r) for i, r in enumerate(t['masses'])}


def _lookup_scat(ctx, tb, name, tid):
    from scippneutron.atoms import ScatteringParams

    ev = {'ev': 'scat', 'tid': tid, 'cp': [ord(c) for c in name], 'out': 'ok', 'row': 0, 'pat': ['b'] * 16,
          'units_ok': True, 'name_ok': True}
    try:
        p = ScatteringParams.for_isotope(name)
    except Exception as e:  # noqa: BLE001  any exception = rejection
        ev['out'] = 'raised'
        ev['exc'] = type(e).__name__
        return ev, None
    row = tb.scat.get(name)
    ev['row'] = row[0] if row else 0
    f = row[1]['f'] if row else [''] * 16
    try:
        ev['name_ok'] = p.isotope == name
        pat, uok = [], True
        for q, (attr, unit) in enumerate(A.SCAT_FIELDS):
            var = getattr(p, attr)
            pat += [_letter(var, f[2 * q], unit), _letter(var, f[2 * q + 1], unit, is_std=True)]
            uok = uok and _var_ok(var, unit)
        ev['pat'], ev['units_ok'] = pat, bool(uok)
    except Exception as e:  # noqa: BLE001
        ctx.violation(f'ScatteringParams result cannot be read ({type(e).__name__})', {'name': name, 'exc': repr(e)[:200]})
        ev['pat'] = ['x'] * 16
    return ev, p


def _prop_or_none(obj, attr):
    """atomic_weight / atomic_mass raise ValueError where nothing is tabulated: that is 'nothing'."""
    try:
        return getattr(obj, attr), None
    except ValueError:
        return None, None
    except Exception as e:  # noqa: BLE001
        return None, e


def _lookup_atom(ctx, tb, name, tid):
    from scippneutron.atoms import Atom

    ev = {'ev': 'atom', 'tid': tid, 'cp': [ord(c) for c in name], 'out': 'ok', 'wrow': 0, 'mrow': 0, 'z': 0,
          'wpat': ['b', 'b'], 'mpat': ['b', 'b'], 'units_ok': True, 'name_ok': True}
    try:
        a = Atom.for_isotope(name)
    except Exception as e:  # noqa: BLE001
        ev['out'] = 'raised'
        ev['exc'] = type(e).__name__
        return ev, None
    element = name.lstrip('0123456789')
    wrow = tb.weights.get(element)
    mrow = tb.masses.get(name)
    ev['wrow'] = wrow[0] if wrow else 0
    ev['mrow'] = mrow[0] if mrow else 0
    wf = wrow[1]['f'] if wrow else ['0', '', '']
    mf = mrow[1]['f'] if mrow else ['', '']
    try:
        ev['name_ok'] = a.isotope == name
        ev['z'] = int(a.z) if isinstance(a.z, int) and not isinstance(a.z, bool) else -1
        w, e1 = _prop_or_none(a, 'atomic_weight')
        m, e2 = _prop_or_none(a, 'atomic_mass')
        for e in (e1, e2):
            if e is not None:
                ctx.violation(f'Atom property raised {type(e).__name__}', {'name': name, 'exc': repr(e)[:200]})
        ev['wpat'] = [_letter(w, wf[1], 'Da'), _letter(w, wf[2], 'Da', is_std=True)]
        ev['mpat'] = [_letter(m, mf[0], 'Da'), _letter(m, mf[1], 'Da', is_std=True)]
        ev['units_ok'] = bool(_var_ok(w, 'Da') and _var_ok(m, 'Da'))
    except Exception as e:  # noqa: BLE001
        ctx.violation(f'Atom result cannot be read ({type(e).__name__})', {'name': name, 'exc': repr(e)[:200]})
        ev['wpat'] = ['x', 'x']
    return ev, a


# ------------------------------------------------------------------------------------------------ attenuation
def _mu_event(ctx, tid, sp, n, n_unit_len, lam, lam_unit, sig_s, sig_a, sig_unit_m2, small=None, as_int=False):
    """n: Fraction in 1/<n_unit_len>^3; lam: Fraction in lam_unit; sig_*: Fractions in units of sig_unit_m2 m^2."""
    import scipp as sc
    from scippneutron.absorption import Material

    nf, lf = float(n), float(lam)
    ev = {'ev': 'mu', 'tid': tid, 'small': False, 'n': [0, 1], 'ss': [0, 1], 'sa': [0, 1], 'lam': [1, 1],
          'want': [0, 1], 'raised': False, 'dim_ok': True, 'rel_ok': True}
    # exact expectation in 1/m from the floats actually handed over
    n_m3 = F(nf) / LENGTH_TO_M[n_unit_len] ** 3
    lam_A = F(lf) * LENGTH_TO_M[lam_unit] / LENGTH_TO_M['angstrom']
    want = n_m3 * (sig_s + sig_a * lam_A / A.REFERENCE_WAVELENGTH_ANGSTROM) * sig_unit_m2
    if small is not None:
        ev.update(small=True, **small)
    info = {'n': f'{nf} 1/{n_unit_len}^3', 'lambda': f'{lf} {lam_unit}', 'want_per_m': float(want), 'want_exact': want}
    try:
        mat = Material(sp, sc.scalar(nf, unit=f'1/{n_unit_len}**3'))
        # an integer-valued wavelength may be handed over with an integer dtype: the number is the same
        wl = sc.scalar(int(lf), unit=lam_unit, dtype='int64') if as_int and lf.is_integer() else sc.scalar(lf, unit=lam_unit)
        info['wavelength_dtype'] = str(wl.dtype)
        got = mat.attenuation_coefficient(wl)
    except Exception as e:  # noqa: BLE001
        ev['raised'] = True
        info['exc'] = repr(e)[:200]
        return ev, info
    try:
        g = float(got.to(unit='1/m').value)
    except Exception as e:  # noqa: BLE001
        ev['dim_ok'] = False
        info['unit'] = str(got.unit)
        info['exc'] = repr(e)[:200]
        return ev, info
    info['got_per_m'] = g
    import math
    if not math.isfinite(g):
        ev['rel_ok'] = False
    elif want == 0:
        ev['rel_ok'] = g == 0.0
    else:
        ev['rel_ok'] = bool(abs(F(g) - want) <= abs(want) * F(1, 10**14))
    return ev, info


def run(ctx):
    import scipp as sc
    from scippneutron.atoms import ScatteringParams

    ctx.rule = RULE
    ctx.assume('any exception raised for an untabulated name counts as rejection (DESIGN §3.4)')
    ctx.assume('atomic_weight / atomic_mass raising ValueError is the documented way of returning nothing')
    ctx.assume('the CSV files next to the imported scippneutron.atoms are the bundled tables; they are read '
               'independently with Python\'s csv module')
    ctx.extra['tolerances'] = {'value': 'float(text) exactly', 'variance': 'float(text)**2 within 1 ulp',
                               'attenuation': '1e-14 relative to the exact rational'}
    t = A.read_tables()
    tb = Tables(t)
    full, mini = ctx.tmp / 'tables.json', ctx.tmp / 'mini.json'
    A.write_json(full, t)
    A.write_json(mini, A.mini_tables(t))
    counts = (len(t['scat']), len(t['weights']), len(t['masses']))
    ctx.extra['rows'] = {'scat': counts[0], 'weights': counts[1], 'masses': counts[2]}

    # ---- 1. design: memoised mechanism = declarative meaning; negative controls
    env = {'TABLES_FILE': mini}
    res = ctx.tlc('atoms/MC_AtomTables.tla', 'MC_AtomTables.cfg', env=env, workers=WORKERS, timeout=900)
    require_ok(ctx, res, 'AtomTables model (histories)')
    res = ctx.tlc('atoms/MC_AtomTables.tla', 'MC_AtomTables_thorough.cfg' if ctx.thorough else 'MC_AtomTables_wide.cfg',
                  env=env, workers=WORKERS, timeout=1500)
    require_ok(ctx, res, 'AtomTables model (wide universe)')
    for bug in ('cache_casefold', 'prefix_match', 'strip'):
        ctx.tlc('atoms/MC_AtomTables.tla', f'Neg_AtomTables_{bug}.cfg', env=env, expect_error=True,
                workers=WORKERS, timeout=300)

    # ---- 2. full tables: facts, near-miss cases, attenuation grid
    near_f, att_f = ctx.tmp / 'near.ndjson', ctx.tmp / 'att.ndjson'
    res = ctx.tlc('atoms/Cases_AtomTables.tla', workers=1, timeout=1500, count=False,
                  env={'TABLES_FILE': full, 'NEAR_FILE': near_f, 'ATT_FILE': att_f,
                       'STRIDE': 1 if ctx.thorough else 12})
    require_ok(ctx, res, 'Cases_AtomTables')
    facts = res.tagged('FACT')
    if len(facts) != 5:
        raise MachineryError(f'expected 5 data facts, got {facts}')
    for _, fact, ok in facts:
        ctx.case(nontrivial_id=('fact', fact))
        if ok is not True:
            ctx.violation(f'bundled tables: {fact} does not hold', {'fact': fact})
    cnt = res.tagged('COUNTS')
    if not cnt or tuple(cnt[0][1:]) != counts:
        raise MachineryError(f'TLC and the harness read different tables: {cnt} vs {counts}')

    events, infos = [], []

    def add(ev, info=None):
        events.append(ev)
        infos.append(info)

    # ---- 3a. all rows, in a seeded random order, each looked up again later (memoised or not)
    order = ([('scat', r['name']) for r in t['scat']] + [('atom', r['name']) for r in t['weights']]
             + [('atom', r['name']) for r in t['masses']])
    ctx.rng.shuffle(order)
    repeats = ctx.rng.sample(order, 600 if ctx.thorough else 150)
    first = {}
    for api, name in order + repeats + order[:100]:
        ev, obj = (_lookup_scat if api == 'scat' else _lookup_atom)(ctx, tb, name, len(events))
        add(ev, {'api': api, 'name': name})
        key = (api, name)
        sig = json.dumps({k: v for k, v in ev.items() if k != 'tid'}, sort_keys=True)
        if key in first and first[key] != sig:
            ctx.violation(f'{api} lookup: a repeated lookup of the same name gives a different answer',
                          {'name': name, 'first': first[key], 'again': sig})
        first.setdefault(key, sig)
        nontrivial = ev['out'] == 'ok' and (any(x == 'm' for x in ev.get('pat', [])) or api == 'atom')
        ctx.case(nontrivial_id=key if nontrivial else None)

    # ---- 3b. near-miss names enumerated by TLC (spec -> code); the expected outcome is checked directly
    #          and the event is judged again by TLC
    n_near = 0
    with open(near_f) as fh:
        for line in fh:
            rec = json.loads(line)
            name = _name(rec['cp'])
            ev, _ = (_lookup_scat if rec['api'] == 'scat' else _lookup_atom)(ctx, tb, name, len(events))
            add(ev, {'api': rec['api'], 'name': name, 'near': True, 'expect': rec['expect']})
            n_near += 1
            if (rec['expect'] == 'reject') != (ev['out'] == 'raised'):
                pass  # TLC reports it with the clause; nothing to add here
            ctx.case(nontrivial_id=(rec['api'], name) if rec['expect'] != 'reject' else None)
    ctx.extra['near_miss_cases'] = n_near

    # ---- 4. attenuation
    n_mu = 0
    with open(att_f) as fh:
        grid = [json.loads(x) for x in fh]
    for i, rec in enumerate(grid):
        n, ss, sa, lam = (F(*rec[k]) for k in ('n', 'ss', 'sa', 'lam'))
        # sigma in angstrom^2 (= 1e-20 m^2), n in 1/angstrom^3, lambda in angstrom, varied units below
        lam_unit = ('angstrom', 'nm', 'pm', 'm')[i % 4]
        n_unit = ('angstrom', 'nm', 'angstrom', 'pm')[(i // 4) % 4]
        lam_u = lam * LENGTH_TO_M['angstrom'] / LENGTH_TO_M[lam_unit]
        n_u = n * (LENGTH_TO_M[n_unit] / LENGTH_TO_M['angstrom']) ** 3
        if F(float(lam_u)) != lam_u or F(float(n_u)) != n_u:
            # not representable after the unit change: keep the spec's own units for this case
            lam_unit, n_unit, lam_u, n_u = 'angstrom', 'angstrom', lam, n
        exact_inputs = F(float(lam_u)) == lam_u and F(float(n_u)) == n_u and F(float(ss)) == ss and F(float(sa)) == sa
        sp = ScatteringParams('Fake', absorption_cross_section=sc.scalar(float(sa), unit='angstrom**2'),
                              total_scattering_cross_section=sc.scalar(float(ss), unit='angstrom**2'))
        small = {'n': rec['n'], 'ss': rec['ss'], 'sa': rec['sa'], 'lam': rec['lam'], 'want': rec['mu']}
        ev, info = _mu_event(ctx, len(events), sp, n_u, n_unit, lam_u, lam_unit, ss, sa, F(1, 10**20),
                             small=small if exact_inputs else None)
        if exact_inputs:
            # the spec's value (1/angstrom) must be what the harness' formula gives (1/m)
            if F(*rec['mu']) * 10**10 != info['want_exact']:
                raise MachineryError(f'harness formula and spec Attenuation disagree on {rec}')
        info.update(grid=rec)
        add(ev, info)
        n_mu += 1
        ctx.case(nontrivial_id=('mu-grid', i) if sa != 0 else None)
    # real isotopes: both cross-sections tabulated
    cand = [r for r in t['scat'] if r['f'][12] != '' and r['f'][14] != '']
    picks = cand if ctx.thorough else ctx.rng.sample(cand, 80)
    for r in picks:
        try:
            sp = ScatteringParams.for_isotope(r['name'])
        except Exception:  # noqa: BLE001  (already reported by the lookup events)
            continue
        for _ in range(3 if ctx.thorough else 2):
            lam_unit = ctx.rng.choice(['angstrom', 'nm', 'pm', 'm', 'um'])
            lam = F(ctx.rng.choice([0.1, 0.25, 1.0, 1.7982, 2.5, 6.0, 20.0])) * LENGTH_TO_M['angstrom'] / LENGTH_TO_M[lam_unit]
            n_unit = ctx.rng.choice(['angstrom', 'nm', 'pm', 'm'])
            n = F(ctx.rng.choice([0.001, 0.0722, 0.5, 1.0, 3.0])) * (LENGTH_TO_M[n_unit] / LENGTH_TO_M['angstrom']) ** 3
            ev, info = _mu_event(ctx, len(events), sp, n, n_unit, lam, lam_unit, A.dec(r['f'][12]), A.dec(r['f'][14]),
                                 F(1, 10**28))
            info.update(isotope=r['name'])
            add(ev, info)
            n_mu += 1
            ctx.case(nontrivial_id=('mu', r['name'], lam_unit, n_unit))
        # integer-typed wavelengths (2 angstrom, 1 nm, 180 pm, ...): same law
        lam_unit, lam_i = ctx.rng.choice([('angstrom', 1), ('angstrom', 2), ('angstrom', 6), ('nm', 1), ('nm', 2), ('pm', 180), ('pm', 250)])
        ev, info = _mu_event(ctx, len(events), sp, F(0.0722), 'angstrom', F(lam_i), lam_unit, A.dec(r['f'][12]), A.dec(r['f'][14]),
                             F(1, 10**28), as_int=True)
        info.update(isotope=r['name'])
        add(ev, info)
        n_mu += 1
        ctx.case(nontrivial_id=('mu-int', r['name'], lam_unit, lam_i))
    ctx.extra['attenuation_cases'] = n_mu

    for kind in ('scat', 'atom', 'mu'):
        e = next((e for e in events if e['ev'] == kind and (kind == 'mu' or e['out'] == 'ok')), None)
        if e:
            ctx.sample(e)
    ctx.extra['events'] = {k: sum(1 for e in events if e['ev'] == k) for k in ('scat', 'atom', 'mu')}
    ctx.extra['lookups_rejected'] = sum(1 for e in events if e.get('out') == 'raised')
    ctx.extra['rejection_classes'] = sorted({e['exc'] for e in events if 'exc' in e})

    tf = ctx.tmp / 'c20.ndjson'
    write_ndjson(tf, [{k: v for k, v in e.items() if k != 'exc'} for e in events])
    tr = ctx.tlc('atoms/Trace_AtomTables.tla', workers=1, env={'TRACE_FILE': str(tf), 'TABLES_FILE': full},
                 timeout=1500)
    require_ok(ctx, tr, 'Trace_AtomTables')
    done = tr.tagged('DONE')
    if not done or done[0][1] != len(events):
        raise MachineryError(f'trace validation incomplete: {done} vs {len(events)} events')
    ctx.traces(len(events))
    _trace_control(ctx, events, {line for _, line, _tid, _c in tr.tagged('REJECT')}, full)
    for _, line, _tid, clause in tr.tagged('REJECT'):
        ev, info = events[line - 1], infos[line - 1]
        if clause.startswith('oracle_') or clause == 'unknown_event':
            raise MachineryError(f'harness and TLA+ specification disagree: {clause} on {ev} {info}')
        if ev['ev'] == 'mu':
            ctx.violation(f'Material.attenuation_coefficient: {clause.replace("_", " ")}', {'event': ev, 'info': info})
            continue
        api = 'ScatteringParams.for_isotope' if ev['ev'] == 'scat' else 'Atom.for_isotope'
        name = info['name']
        if clause == 'unknown_name_accepted':
            cls = _near_class(name, tb, ev['ev'])
            key = f'{api}: untabulated name accepted ({cls})'
        else:
            key = f'{api}: {clause.replace("_", " ")}'
        ctx.violation(key, {'name': name, 'event': ev, 'info': info})

    # ---------------------------------------------------------------- growth (hosted here for its time budget):
    # the bundled quadrature tables as symmetric measures, the disk x line product construction, the node-count
    # rule of Cylinder.quadrature and the labelled layout of compute_transmission_map
    # (spec/absorption/Growth_*.tla; deviations are GROWTH-FINDINGs, not violations of C20)
    from .. import lib_growth_absorption
    lib_growth_absorption.run(ctx)


def _trace_control(ctx, events, rejected, full):
    """Vacuity guard of the trace specification: accepted events corrupted in one field must be rejected by
    TLC with the expected clause (a removed event is caught by the DONE count)."""
    import copy

    def pick(pred):
        return next((copy.deepcopy(e) for i, e in enumerate(events) if (i + 1) not in rejected and pred(e)), None)

    bad = []
    e = pick(lambda e: e['ev'] == 'scat' and e['out'] == 'ok' and e['pat'][0] == 'm' and e['pat'][1] == 'b')
    if e:
        p1, p2, p3 = (list(e['pat']) for _ in range(3))
        p1[0], p2[1], p3[0] = 'b', 'x', 'x'
        bad += [(dict(e, pat=p1), 'nothing_where_table_has_value'), (dict(e, pat=p2), 'value_where_table_is_blank'),
                (dict(e, pat=p3), 'value_differs_from_table'), (dict(e, out='raised'), 'tabulated_name_rejected'),
                (dict(e, row=e['row'] % 300 + 1), 'oracle_row_is_not_the_named_row'), (dict(e, units_ok=False), 'wrong_unit')]
    e = pick(lambda e: e['ev'] == 'scat' and e['out'] == 'raised')
    if e:
        bad.append((dict(e, out='ok'), 'unknown_name_accepted'))
    e = pick(lambda e: e['ev'] == 'atom' and e['out'] == 'ok' and e['mrow'] == 0 and e['wpat'][0] == 'm')
    if e:
        bad += [(dict(e, z=e['z'] + 1), 'Z_differs_from_table'), (dict(e, mpat=['m', 'm']), 'mass_for_an_element'),
                (dict(e, wpat=['b', 'b']), 'no_weight_although_tabulated')]
    e = pick(lambda e: e['ev'] == 'atom' and e['out'] == 'ok' and e['mrow'] > 0)
    if e:
        bad += [(dict(e, mpat=['b', 'b']), 'no_mass_for_an_isotope'), (dict(e, mpat=['x', 'm']), 'mass_differs_from_table')]
    e = pick(lambda e: e['ev'] == 'atom' and e['out'] == 'ok' and e['wpat'][0] == 'b')
    if e:
        bad.append((dict(e, wpat=['m', 'm']), 'weight_where_none_is_tabulated'))
    e = pick(lambda e: e['ev'] == 'mu' and e['small'])
    if e:
        bad += [(dict(e, rel_ok=False), 'attenuation_differs_from_law'), (dict(e, dim_ok=False), 'attenuation_is_not_an_inverse_length'),
                (dict(e, want=[e['want'][0] + 1, e['want'][1]]), 'oracle_attenuation_formula')]
    if len(bad) < 12:
        raise MachineryError(f'trace control: only {len(bad)} corrupted events could be built')
    for i, (b, _) in enumerate(bad):
        b['tid'] = i
        b.pop('exc', None)
    tf = ctx.tmp / 'c20-control.ndjson'
    write_ndjson(tf, [b for b, _ in bad])
    tr = ctx.tlc('atoms/Trace_AtomTables.tla', workers=1, env={'TRACE_FILE': str(tf), 'TABLES_FILE': full},
                 timeout=600, count=False)
    require_ok(ctx, tr, 'Trace_AtomTables (control)')
    got = {line: clause for _, line, _tid, clause in tr.tagged('REJECT')}
    for i, (_, want) in enumerate(bad):
        if got.get(i + 1) != want:
            raise MachineryError(f'trace control: corrupted event {i + 1} expected {want}, TLC said {got.get(i + 1)}')
    ctx.extra['trace_control'] = f'{len(bad)} corrupted events, all rejected with the expected clause'


def _near_class(name, tb, api):
    """Stable description of how an accepted unknown name relates to a tabulated one."""
    names = tb.scat if api == 'scat' else {**tb.weights, **tb.masses}
    if name.strip() != name and name.strip() in names:
        return 'blank added to a tabulated name'
    if name != name.strip() or ' ' in name:
        return 'name with blanks'
    low = {k.lower(): k for k in names}
    if name.lower() in low:
        return 'case variant of a tabulated name'
    if any(k.startswith(name) for k in names):
        return 'proper prefix of a tabulated name'
    if any(name.startswith(k) for k in names):
        return 'tabulated name with characters appended'
    if any(name.endswith(k) for k in names):
        return 'tabulated name with characters prepended'
    return 'other'



META = {
    'design_ref': 'DESIGN.md §5 C20',
    'technique': 'TLA+ specification of the three bundled tables (constants read by TLC from a JSON export of the '
                 'CSV files) with declarative lookups, a memoising lookup state machine model-checked by TLC, '
                 'TLC-generated near-miss names replayed into the code, and every recorded lookup of all 4046 rows '
                 'judged by TLC against the tables; attenuation law as exact rational arithmetic',
    'text': 'TLC proves on a sub-table that, for every history of lookups over real names and all their near-miss '
            'names, the memoised linear-scan mechanism (element = letters after optional digits) answers exactly as '
            'the declarative definition (the row whose first column is exactly the name, else rejection), and checks on '
            'the full tables that names are unique, follow the element/isotope syntax, every isotope has its element, '
            'and Z equals the position in an independently written periodic table. Atom.for_isotope and '
            'ScatteringParams.for_isotope are then called for every row of the three tables (random order, repeats) '
            'and for every TLC-generated near-miss name; each field is compared with float(text) of the CSV file '
            '(exact; variance = float(text)^2 to 1 ulp; unit; blank => None) and TLC judges every recorded lookup: '
            'tabulated or not, row identity, blank pattern per column, Z, mass only for isotopes, weight only where '
            'tabulated, rejection of every other name. Material.attenuation_coefficient is compared with '
            'n(sigma_s + sigma_a*lambda/1.7982 A) in exact rational arithmetic (1e-14) in several units.',
    'note': 'Trusted: TLC, Python\'s csv/float parsing, scipp unit conversion to 1/m. float(text) equality and the '
            '1e-14 closeness are evaluated by the harness (TLC has no floats) and handed to TLC as letters/booleans. '
            'Sharing of cached mutable objects is C09, not checked here.',
}
