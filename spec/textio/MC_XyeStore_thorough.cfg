SPECIFICATION Spec
CONSTANTS
  NPaths = 2
  MaxOps = 7
  Bug = "none"
INVARIANT TypeOK
INVARIANT LoadReturnsLastSaved
INVARIANT FilesWellFormed
CHECK_DEADLOCK FALSE
