SPECIFICATION Spec
CONSTANTS
  Bug = "none"
  MaxBlocks = 2
  MaxItems = 2
  ItemDecls <- MC_ItemDeclsQuick
INVARIANT CoreWheneverAny
INVARIANT DeclaredAreUsed
INVARIANT NothingUndeclared
INVARIANT NoSchemaNoLoop
PROPERTY WriteFaithful
PROPERTY Steps
CHECK_DEADLOCK FALSE
