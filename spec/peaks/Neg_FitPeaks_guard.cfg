SPECIFICATION Spec
CONSTANTS
  Parts = {"windows"}
  Bug = "narrow_by_extent"
  EstVals <- MC_EstValsQuick
  MaxEst = 3
  Widths <- MC_Widths
  Factors <- MC_FactorsQuick
  DataLo = 0
  DataHi = 96
  DataStep = 24
  GuardParams = 3
  PkParams <- MC_PkParams
  BkParams <- MC_BkParams
  NptsVals = {0, 5}
  MaxPeaks = 2
  GuessMin = 4
  RN = 3
  RVals = {0, 5}
  RMaxRes = 1
  RAmps = {1, 10}
INVARIANT WConfigsExact
INVARIANT OneWindowPerEstimate
INVARIANT WindowsInsideRange
INVARIANT WindowContainsEstimate
INVARIANT NeighbourDistance
INVARIANT WindowsAreDeclarative
INVARIANT UncutWindowHasWidth
INVARIANT NarrowDecidedByPoints
INVARIANT PointCountsConsistent
INVARIANT OneResultPerPeak
INVARIANT FirstSuccessWins
INVARIANT NoFitWhenNarrow
INVARIANT Isolation
INVARIANT SuccessImpliesAllRequirements
INVARIANT VerdictIsAssessOf
INVARIANT InputUnchanged
INVARIANT RemoveTouchesOnlyWindows
INVARIANT RemoveSubtractsPeaks
PROPERTY ResultsAppendOnly
CHECK_DEADLOCK FALSE
