--------------------------- MODULE Gen_PeakModels ---------------------------
(* spec -> code: constant-level enumeration of the cases the driver replays into the real  *)
(* models: every model expression of the bounded name algebra (including the refused       *)
(* compositions), the parameter grid for the closed forms, the canonical unit assignments. *)
(* Expected outcomes are recomputed from the same definitions by Trace_PeakModels.         *)
EXTENDS PeakModelsDefs, TLC, Json, IOUtils, SequencesExt

Letters == {"a", "0", "_"}
MaxPrefixLen == 2
PrefixSet == UNION {[1..k -> Letters] : k \in 0..MaxPrefixLen}
OuterPrefixes == {<<>>, <<"a">>, <<"_">>, <<"a", "0">>}
Leaves == {[kind |-> "poly", deg |-> d, prefix |-> p] : d \in {1, 2}, p \in PrefixSet}
          \cup {[kind |-> k, deg |-> 0, prefix |-> p] : k \in {"gauss", "lorentz", "pvoigt"}, p \in PrefixSet}
Comps == {[kind |-> "comp", deg |-> 0, prefix |-> p, left |-> l, right |-> r] :
            l \in Leaves, r \in Leaves, p \in OuterPrefixes}
ASSUME ndJsonSerialize(IOEnv.MODEL_FILE, SetToSeq(Leaves \cup Comps))

(* parameter grid: amplitude A * 10^ea, scale 10^e, location mu * 10^em, fraction f/4        *)
(* (fe = 1: the fraction is moved by 2^-30 into the interior of [0, 1])                       *)
Grid == {[A |-> A, ea |-> 0, e |-> e, mu |-> mu, em |-> 0, f |-> f, fe |-> 0] :
           A \in {-3, -1, 2, 7}, e \in -6..6, mu \in {-5, 0, 3, 1000}, f \in 0..4}
(* hardening round: uniformly tiny / huge amplitudes and locations (hidden absolute           *)
(* thresholds), fractions a hair inside the interval.  A location is kept within 10^9 scales  *)
(* of the origin so that x still resolves the peak in double precision.                       *)
LocPairs == {<<0, 0>>, <<3, -9>>, <<-5, 6>>, <<1, 9>>}
Extreme == {g \in {[A |-> A, ea |-> ea, e |-> e, mu |-> lp[1], em |-> lp[2], f |-> f, fe |-> fe] :
                     A \in {-3, 7}, ea \in {-100, -12, 12, 100}, e \in {-6, 0, 6}, lp \in LocPairs,
                     f \in {0, 2, 4}, fe \in {0, 1}} :
              g.mu = 0 \/ g.em - g.e <= 9}
ASSUME ndJsonSerialize(IOEnv.GRID_FILE, SetToSeq(Grid \cup Extreme))

(* every evaluation variant (element types of x and of the parameters, layout of x, order of  *)
(* the keyword arguments); the driver attaches them to the grid points and polynomials in turn *)
ASSUME ndJsonSerialize(IOEnv.VARIANT_FILE, SetToSeq(EvalVariants))

(* canonical unit assignments *)
Units == {<<p, i, j>> : p \in {0, -3}, i \in {-1, 0, 1}, j \in {-1, 0, 1}}
UKinds == {"poly1", "poly2", "poly3", "gauss", "lorentz", "pvoigt"}
UCases == {[kind |-> k, ux |-> ux, pu |-> Canonical(k, ux, uy)] : k \in UKinds, ux \in Units, uy \in Units}
ASSUME \A c \in UCases : ResultUnit(c.kind, c.pu, c.ux)[1] = 1
ASSUME ndJsonSerialize(IOEnv.UNIT_FILE, SetToSeq(UCases))

ASSUME PrintT(<<"GEN", Cardinality(Leaves \cup Comps), Cardinality(Grid \cup Extreme), Cardinality(UCases),
                 Cardinality(EvalVariants)>>)

VARIABLE x
Init == x = 0
Next == x' = x
=============================================================================
