----------------------------- MODULE Kinematics -----------------------------
(* C01: a state machine that walks the elastic conversion graph.                           *)
(*                                                                                          *)
(* A behaviour fixes a neutron (grid point t, L, s = sin theta), starts at one coordinate   *)
(* (tof, wavelength, energy or Q) holding its physical value, and then repeatedly converts: *)
(* action Apply(o, target) is one call of the kernel that graph `o` wires to `target`,       *)
(* evaluated by the kernel's own documented formula on the *current* value.  A conversion   *)
(* either continues inside the graph of the running convert() (o = origin) or starts a new  *)
(* convert() from the current coordinate (o = kind).                                        *)
(*                                                                                          *)
(* Second use (hardening round): the scattering angle is an operand *object* of the          *)
(* instrument that lives across conversions; Retarget overwrites it in place (another        *)
(* detector angle s2) and a new walk starts from the coordinate held.  `memoS` records the   *)
(* sine seen by the first kernel that took the angle; a correct kernel never looks at it.    *)
(* Negative control Bug = "stale_angle": kernels reuse the remembered sine.                  *)
(*                                                                                          *)
(* Invariants: whatever route was taken, the value held equals the physical definition      *)
(* (RouteAgreement), every return to a coordinate returns its value (RoundTrip), and        *)
(* Q d = 2 pi (QdTwoPi).                                                                     *)
EXTENDS KinematicsDefs, TLC

CONSTANTS TGrid, LGrid,   \* sets of positive integers
          SinGrid,        \* set of rationals <<n, d>> in (0, 1]
          MaxDepth,       \* maximal number of conversions in a walk
          Bug,            \* "none" | "efactor" | "qtwopi" | "stale_angle"
          Emit,           \* TRUE: print every maximal walk (for the replay into the code)
          MaxRetarget     \* how often the angle operand may be overwritten in place (0 or 1)

VARIABLES t, L,           \* time and path of the neutron (never change)
          s,              \* sine of half the scattering angle: the current content of the angle operand
          memoS,          \* sine seen by the first angle-taking kernel (NoSin = none yet)
          retargets,      \* number of Retarget steps taken
          start,          \* coordinate the walk started from
          origin,         \* graph of the running convert()
          kind, val,      \* coordinate currently held and its value
          route           \* history: sequence of [o, ker, target, val]

vars == <<t, L, s, memoS, retargets, start, origin, kind, val, route>>

NoSin == <<0, 1>>
AngleKernels == { k \in ScalarKernels : "two_theta" \in KernelSig[k].aux }

Init == /\ t \in TGrid /\ L \in LGrid /\ s \in SinGrid
        /\ start \in Origins
        /\ origin = start /\ kind = start
        /\ val = Canon(start, t, L, s)
        /\ route = <<>>
        /\ memoS = NoSin /\ retargets = 0

Apply(o, target) ==
    /\ Len(route) < MaxDepth
    /\ o \in Origins /\ (o = origin \/ o = kind)
    /\ target \in DOMAIN EdgeTable[o]
    /\ LET ker == EdgeTable[o][target] IN
       /\ KernelSig[ker].in = kind
       /\ KernelSig[ker].out = target
       /\ LET sUsed == IF Bug = "stale_angle" /\ ker \in AngleKernels /\ memoS # NoSin THEN memoS ELSE s
          IN val' = KEval(ker, val, L, sUsed, Bug)
       /\ memoS' = IF ker \in AngleKernels /\ memoS = NoSin THEN s ELSE memoS
       /\ route' = Append(route, [o |-> o, ker |-> ker, target |-> target, val |-> val'])
    /\ kind' = target
    /\ origin' = o
    /\ UNCHANGED <<t, L, s, start, retargets>>

(* the angle operand is overwritten in place; what is held (a quantity that does not depend on the *)
(* angle) starts a new walk                                                                        *)
Retarget(s2) ==
    /\ retargets < MaxRetarget /\ Len(route) > 0
    /\ s2 \in SinGrid /\ s2 # s
    /\ kind \in {"tof", "wavelength", "energy"}
    /\ s' = s2 /\ retargets' = retargets + 1
    /\ start' = kind /\ origin' = kind /\ route' = <<>>
    /\ UNCHANGED <<t, L, memoS, kind, val>>

Next == \/ \E o \in Origins, target \in Kinds : Apply(o, target)
        \/ \E s2 \in SinGrid : Retarget(s2)

Spec == Init /\ [][Next]_vars

-----------------------------------------------------------------------------
TypeOK == /\ kind \in Kinds /\ origin \in Origins
          /\ val # NotSquare /\ val[2] > 0 /\ val[1] > 0
          /\ Len(route) <= MaxDepth
          /\ retargets \in 0..MaxRetarget /\ (memoS = NoSin \/ memoS \in SinGrid)

RouteAgreement == val = Canon(kind, t, L, s)

(* history including the start *)
Hist == <<[target |-> start, val |-> Canon(start, t, L, s)]>>
        \o [i \in 1..Len(route) |-> [target |-> route[i].target, val |-> route[i].val]]

RoundTrip == \A i, j \in 1..Len(Hist) :
                Hist[i].target = Hist[j].target => Hist[i].val = Hist[j].val

QdTwoPi == /\ RMul(Canon("Q", t, L, s), Canon("dspacing", t, L, s)) = <<2, 1>>
           /\ \A i, j \in 1..Len(Hist) :
                (Hist[i].target = "Q" /\ Hist[j].target = "dspacing")
                   => RMul(Hist[i].val, Hist[j].val) = <<2, 1>>

(* the two definitions of the energy coincide (E from tof = E from wavelength) *)
EnergyDefinitions ==
    KEval("energy_from_wavelength", Canon("wavelength", t, L, s), L, s, "none")
        = KEval("energy_from_tof", RInt(t), L, s, "none")

(* every scalar kernel is reachable in some graph, with matching data input *)
Maximal == Len(route) = MaxDepth \/ kind = "dspacing"
EmitWalk == (Emit /\ Maximal /\ Len(route) > 0) =>
               PrintT(<<"WALK", t, L, s, start, Canon(start, t, L, s), route>>)
=============================================================================
