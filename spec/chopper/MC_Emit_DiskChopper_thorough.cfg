SPECIFICATION ESpec
CONSTANTS
  K = 12
  MaxSlits = 3
  BeamPos <- MC_BeamT
  Phases <- MC_Phases12
  Ratios <- MC_Ratios
  MaxPulses = 4
  Stride = 83
  SlitStride = 23
