-------------------------- MODULE Growth_MaskingTool --------------------------
(* Growth module G05: the interactive MaskingTool as a state machine (one action per thing a   *)
(* user can do with it).  Definitions, state layout and the documented behaviour the model is   *)
(* written from: Growth_MaskingToolDefs.                                                         *)
(*                                                                                               *)
(* Quantifier (what a user is assumed to do; nothing outside it is judged):                      *)
(*   - disabled buttons are not pressed; the save button is clicked only while enabled          *)
(*   - vertices are moved, shapes dragged and deleted only while no shape is half drawn and      *)
(*     while the shapes are shown (a hidden shape offers nothing to grab)                         *)
(*   - pressing another button / releasing the button while a shape is half drawn abandons it   *)
(*     ("left-click again to persist the shape": an unfinished shape is not a mask)              *)
(*   - pointer positions lie in ClickX x ClickY, shapes stay inside that range                   *)
(*   - simulated behaviours (those replayed into the real tool) never mask EVERY data point: a   *)
(*     figure of data without a single unmasked point cannot be drawn (the harness probes that    *)
(*     case separately)                                                                           *)
EXTENDS Growth_MaskingToolDefs, TLC, Json

CONSTANTS ClickX, ClickY,   \* doubled pointer positions
          DragD,            \* doubled drag distances per axis
          MaxShapes,        \* bound on the number of shapes
          Names,            \* file name texts [stem, k] that may be typed / passed (not empty)
          Sim,              \* TRUE: -simulate run, one random parameter choice per action and step
          SimLen            \* length of the recorded behaviours (Sim only)

VARIABLES st,     \* the tool
          hist    \* Sim only: the steps taken so far (printed with the expected observations by Flush)
vars == <<st, hist>>

Pick(S) == IF Sim THEN {RandomElement(S)} ELSE S
Pick2(S) == IF Sim THEN {RandomElement(S), RandomElement(S)} ELSE S
Log(a) == hist' = IF Sim THEN Append(hist, a) ELSE hist
Going == ~Sim \/ Len(hist) < SimLen

ActiveUsesX == \E k \in st.active : UsesX(k)
ActiveUsesY == \E k \in st.active : UsesY(k)
ShapeIds == { ki \in KindSet \X (1..MaxShapes) : ki[2] <= Len(st.shapes[ki[1]]) }
Editable == st.pending = <<>> /\ st.visible

Init == st = Init0 /\ hist = <<>>

Activate(k) ==
    /\ Allowed(k) /\ k \notin st.active
    /\ st' = DoActivate(st, k)
    /\ Log([op |-> "activate", k |-> k])
Deactivate(k) ==
    /\ k \in st.active
    /\ st' = DoDeactivate(st, k)
    /\ Log([op |-> "deactivate", k |-> k])
(* a click; coordinates the pressed tool does not use are reported as 0 (any value will do) *)
Click ==
    /\ st.active = {} \/ st.pending # <<>> \/ Total(st) < MaxShapes
    /\ \E x \in IF ActiveUsesX THEN Pick2(ClickX) ELSE {0}, y \in IF ActiveUsesY THEN Pick2(ClickY) ELSE {0} :
          /\ st' = DoClick(st, x, y)
          /\ Log([op |-> "click", x |-> x, y |-> y, usesx |-> ActiveUsesX, usesy |-> ActiveUsesY])
MoveVertex ==
    /\ Editable /\ ShapeIds # {}
    /\ \E ki \in Pick(ShapeIds) :
         LET k == ki[1]  i == ki[2]  g == st.shapes[k][i] IN
         \E h \in Pick(Handles(k, g)) :
         \E x \in IF h[1] # 0 THEN Pick(ClickX) ELSE {0}, y \in IF h[2] # 0 THEN Pick(ClickY) ELSE {0} :
            /\ st' = DoMove(st, k, i, h, x, y)
            /\ Log([op |-> "move", k |-> k, i |-> i, h |-> h, at4 |-> HandlePos4(g, h), x |-> x, y |-> y])
DragX(k, g) == IF UsesX(k) THEN { d \in DragD : g[1] + d \in ClickX /\ g[3] + d \in ClickX } ELSE {0}
DragY(k, g) == IF UsesY(k) THEN { d \in DragD : g[2] + d \in ClickY /\ g[4] + d \in ClickY } ELSE {0}
Draggable == { ki \in ShapeIds : LET g == st.shapes[ki[1]][ki[2]] IN DragX(ki[1], g) # {} /\ DragY(ki[1], g) # {} }
DragShape ==
    /\ Editable /\ Draggable # {}
    /\ \E ki \in Pick(Draggable) :
         LET k == ki[1]  i == ki[2]  g == st.shapes[k][i] IN
         \E dx \in Pick(DragX(k, g)), dy \in Pick(DragY(k, g)) :
              /\ st' = DoDrag(st, k, i, dx, dy)
              /\ Log([op |-> "drag", k |-> k, i |-> i, dx |-> dx, dy |-> dy])
RemoveShape ==
    /\ Editable /\ ShapeIds # {}
    /\ \E ki \in Pick(ShapeIds) :
            /\ st' = DoRemove(st, ki[1], ki[2])
            /\ Log([op |-> "remove", k |-> ki[1], i |-> ki[2]])
ToggleVisibility ==
    /\ st' = DoToggle(st)
    /\ Log([op |-> "toggle"])
SetFilename ==
    \E f \in Pick((Names \cup {NoName}) \ {st.fname}) :
        /\ st' = DoSetName(st, f)
        /\ Log([op |-> "setname", f |-> f])
(* Saving never changes the tool; what is written is SaveOut(st, name) (see the invariants). *)
Save ==                                   \* the save button
    /\ SaveEnabled(st)
    /\ st' = st
    /\ Log([op |-> "save"])
SaveAs ==                                 \* save_masks(filename) called directly
    \E f \in Pick(Names) :
        /\ st' = st
        /\ Log([op |-> "saveas", f |-> f])

(* end of a simulated behaviour: print it once (steps with the observable state after each) *)
Flush ==
    /\ Sim /\ Len(hist) = SimLen
    /\ LET F == StatesAlong(hist) IN
         /\ F[Len(hist)] = st               \* the recorded steps reproduce the state
         /\ PrintT(<<"BEH", NDim, NX, NYe,
                     ToJson([n \in 1..Len(hist) |->
                               [a |-> hist[n], e |-> Obs(F[n], OutOf(F[n - 1], hist[n])), shapes |-> F[n].shapes]])>>)
    /\ UNCHANGED vars

Step == \/ \E k \in KindSet : Activate(k)
        \/ \E k \in KindSet : Deactivate(k)
        \/ Click \/ MoveVertex \/ DragShape \/ RemoveShape
        \/ ToggleVisibility \/ SetFilename \/ Save \/ SaveAs
(* Simulation runs draw the kind of the next step with weights (r is one random number in 1..100) *)
(* so that behaviours draw, edit and delete shapes most of the time; if the drawn kind is not      *)
(* possible in the current state any step is taken.                                               *)
Weighted(r) ==
    IF st.active = {} /\ r <= 45 THEN \E k \in KindSet : Activate(k)
    ELSE IF ~st.visible /\ r <= 35 THEN ToggleVisibility
    ELSE IF r <= 36 THEN Click
    ELSE IF r <= 54 THEN MoveVertex
    ELSE IF r <= 64 THEN DragShape
    ELSE IF r <= 71 THEN RemoveShape
    ELSE IF r <= 79 THEN \E k \in KindSet : Activate(k)
    ELSE IF r <= 82 THEN \E k \in KindSet : Deactivate(k)
    ELSE IF r <= 86 THEN ToggleVisibility
    ELSE IF r <= 92 THEN SetFilename
    ELSE IF r <= 96 THEN Save
    ELSE SaveAs
SomethingLeft(s) == UnionMask(s) # { PointId(p) : p \in Points }
SimStep == \E r \in {RandomElement(1..100)} :
              IF ENABLED (Weighted(r) /\ SomethingLeft(st')) THEN Weighted(r) /\ SomethingLeft(st')
              ELSE Step /\ SomethingLeft(st')
Next == Flush \/ (Going /\ IF Sim THEN SimStep ELSE Step)
Spec == Init /\ [][Next]_vars

-----------------------------------------------------------------------------
(* invariants *)
Geoms == ((ClickX \cup {0}) \X (ClickY \cup {0}) \X (ClickX \cup {0}) \X (ClickY \cup {0}))
TypeOK ==
    /\ st.active \subseteq KindSet
    /\ st.pending = <<>> \/ st.pending \in (ClickX \cup {0}) \X (ClickY \cup {0})
    /\ st.visible \in BOOLEAN
    /\ st.fname \in Names \cup {NoName}
    /\ \A k \in KindSet : /\ Len(st.shapes[k]) = Len(st.applied[k])
                          /\ \A i \in 1..Len(st.shapes[k]) : /\ st.shapes[k][i] \in Geoms
                                                             /\ st.applied[k][i] \subseteq 0..((NX + 1) * (NYe + 1) - 1)
    /\ Total(st) <= MaxShapes

AtMostOneActive == Cardinality(st.active) <= 1
(* 1-D data: the rectangle and the horizontal-span tool are out of use *)
OnlyAllowedKinds == \A k \in KindSet : ~Allowed(k) => (k \notin st.active /\ st.shapes[k] = <<>>)
PendingNeedsTool == st.pending # <<>> => st.active # {}

(* the applied masks are those of the CURRENT shapes, whatever the history of edits was *)
Coherent == \A k \in KindSet : \A i \in 1..Len(st.shapes[k]) : st.applied[k][i] = MaskOf(k, st.shapes[k][i])

(* closed intervals: the mask is the box (points with min <= coordinate <= max) *)
MaskIsClosedBox ==
    \A k \in KindSet : \A i \in 1..Len(st.shapes[k]) :
        LET g == st.shapes[k][i]
            nx == IF UsesX(k) THEN CountOnGrid(Min2(g[1], g[3]), Max2(g[1], g[3]), NX) ELSE NX + 1
            ny == IF UsesY(k) THEN CountOnGrid(Min2(g[2], g[4]), Max2(g[2], g[4]), NYe) ELSE NYe + 1
        IN  Cardinality(MaskOf(k, g)) = nx * ny
CornerOrderIrrelevant ==
    \A k \in KindSet : \A i \in 1..Len(st.shapes[k]) :
        LET g == st.shapes[k][i] IN
        /\ MaskOf(k, g) = MaskOf(k, <<g[3], g[4], g[1], g[2]>>)
        /\ MaskOf(k, g) = MaskOf(k, <<g[3], g[2], g[1], g[4]>>)
(* a shape lying exactly on a grid line masks that line *)
OnPointIsMasked ==
    \A k \in KindSet : \A i \in 1..Len(st.shapes[k]) : \A p \in Points :
        LET g == st.shapes[k][i] IN
        (/\ UsesX(k) => 2 * p[1] \in {g[1], g[3]}
         /\ UsesY(k) => 2 * p[2] \in {g[2], g[4]}) => PointId(p) \in MaskOf(k, g)

DocWellFormed ==
    LET d == Doc(st) IN
    /\ Len(d) = Total(st)
    /\ \A n \in 1..Len(d) :
        /\ d[n].counter = n - 1                                       \* 0..n-1 without gaps
        /\ n > 1 => Rank(d[n - 1].kind) <= Rank(d[n].kind)            \* rectangles, vspans, hspans
        /\ d[n].axes = AxesOf(d[n].kind)
        /\ d[n].x # <<>> => d[n].x[1] <= d[n].x[2]
        /\ d[n].y # <<>> => d[n].y[1] <= d[n].y[2]
    /\ \A k \in KindSet : \A i \in 1..Len(st.shapes[k]) :            \* drawing order within a kind
        LET e == d[Offset(st, k) + i]  g == st.shapes[k][i] IN
        /\ e.kind = k
        /\ UsesX(k) => e.x = <<Min2(g[1], g[3]), Max2(g[1], g[3])>>
        /\ UsesY(k) => e.y = <<Min2(g[2], g[4]), Max2(g[2], g[4])>>

SaveEnabledIffName == SaveEnabled(st) <=> ~EmptyName(st.fname)
SavableNames == Names \cup (IF SaveEnabled(st) THEN {st.fname} ELSE {})     \* SaveAs(f) / Save
SavedFileWellFormed ==
    \A f \in SavableNames :
        LET o == SaveOut(st, f) IN
        /\ ~EmptyName(o.asked)
        /\ o.file.stem = f.stem
        /\ o.file.k = (IF f.k = 0 THEN 1 ELSE f.k)        \* one suffix added if there is none, none doubled
        /\ o.doc = Doc(st)

(* action properties *)
ToggleKeepsMasks == [][st'.visible # st.visible =>
                         /\ Doc(st') = Doc(st) /\ st'.applied = st.applied /\ st'.shapes = st.shapes
                         /\ st'.active = st.active /\ st'.fname = st.fname]_vars
ActivationIsExclusive == [][\A k \in KindSet : (k \in st'.active /\ k \notin st.active) => st'.active = {k}]_vars
(* deleting a shape removes exactly its mask, the other shapes keep their relative order *)
RemoveKeepsTheRest ==
    [][Total(st') = Total(st) - 1 =>
         \E k \in KindSet : \E i \in 1..Len(st.shapes[k]) :
            /\ st'.shapes = [st.shapes EXCEPT ![k] = RemoveAt(@, i)]
            /\ AppliedSeq(st') = RemoveAt(AppliedSeq(st), Offset(st, k) + i)
            /\ [n \in 1..Len(Doc(st')) |-> <<Doc(st')[n].kind, Doc(st')[n].x, Doc(st')[n].y>>]
                 = RemoveAt([n \in 1..Len(Doc(st)) |-> <<Doc(st)[n].kind, Doc(st)[n].x, Doc(st)[n].y>>], Offset(st, k) + i)]_vars
(* an edit touches one shape only; only a second click adds a shape *)
EditsAreLocal ==
    [][(Total(st') = Total(st) /\ st'.shapes # st.shapes) =>
         \E k \in KindSet : \E i \in 1..Len(st.shapes[k]) :
            /\ \A k2 \in KindSet : \A j \in 1..Len(st.shapes[k2]) :
                   <<k2, j>> # <<k, i>> => /\ st'.shapes[k2][j] = st.shapes[k2][j]
                                           /\ st'.applied[k2][j] = st.applied[k2][j]]_vars
(* pressing buttons, hiding, typing a name and saving never touch shapes, masks or the document *)
MasksFollowShapes ==
    [][(st'.applied # st.applied \/ Doc(st') # Doc(st)) => st'.shapes # st.shapes]_vars
GrowthOnlyBySecondClick ==
    [][Total(st') > Total(st) => /\ st.pending # <<>> /\ st'.pending = <<>>
                                 /\ Total(st') = Total(st) + Cardinality(st.active)]_vars

=============================================================================
