---------------------------- MODULE MC_SqwContent ----------------------------
EXTENDS SqwContent, TLC
MC_RunLists == {<<0>>, <<0, 1>>, <<3, 4, 9>>, <<0, 1, 2, 3, 4>>, <<4, 0, 9>>, <<2, 1, 0>>}
Asc(k)  == [p \in 1..k |-> p]
Desc(k) == [p \in 1..k |-> k + 1 - p]
(* minimum in the middle, maximum at the end, ties *)
Zig(k)  == [p \in 1..k |-> IF p = (k + 1) \div 2 THEN 0 ELSE IF p = k THEN k + 5 ELSE 3 + (p % 2)]
MC_Orders == UNION {{Asc(k), Desc(k), Zig(k)} : k \in NPix}
(* export of the model's configurations: the driver performs each on the real builder *)
EmitCfg == (phase = "done" /\ gen = 1) => PrintT(<<"CFG", n, chunk, runs>>)
=============================================================================
