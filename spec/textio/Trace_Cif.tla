----------------------------- MODULE Trace_Cif -----------------------------
(* Judges text produced by the real scippneutron.io.cif.  One NDJSON line per written    *)
(* document:                                                                             *)
(*   tid, api ("lowlevel": Chunk/Loop/Block/save_cif, "builder": cif.CIF, "objects":       *)
(*   programs over Chunk/Loop/Block objects), out ("text" | "raised"), text = the produced *)
(*   characters as code points, and what was supplied: blocks (low-level: abstract         *)
(*   document with cells, see CifDocDefs), name + calls (builder: the calls made on the    *)
(*   builder; the expected document is SaveDoc) or ops (objects: the operations performed  *)
(*   on the objects, the last one being the write; the expected document is ObjDoc).       *)
(* The text is lexed and parsed by the specification's own CIF 1.1 lexer and parser and   *)
(* compared with the supplied document.  Every line gets a verdict; a rejected line       *)
(* prints <<"REJECT", line, tid, clause, block, item, cell, lexical error, parse error,    *)
(* supplied cell at that place>>.                                                         *)
EXTENDS CifObjDefs, TLC, Json, IOUtils

Tr == ndJsonDeserialize(IOEnv.TRACE_FILE)

VARIABLES l, nbad
tvars == <<l, nbad>>

Supplied(e) == IF e.api = "builder" THEN SaveDoc(e.name, e.calls)
               ELSE IF e.api = "objects" THEN ObjDoc(e.ops)
               ELSE e.blocks

(* Programs over the low-level objects supply no dictionary information: whether a block  *)
(* (e.g. a copy, which io/cif.py gives the coreCIF schema) starts with the dictionary-      *)
(* conformance loop is not part of what was supplied and not judged here.                   *)
IsConformLoop(it) == it.k = "loop" /\ it.tags = <<Tg.conform_name, Tg.conform_version, Tg.conform_location>>
WithoutConform(rd) ==
    [rd EXCEPT !.blocks = [b \in 1..Len(rd.blocks) |->
        IF rd.blocks[b].items # <<>> /\ IsConformLoop(rd.blocks[b].items[1])
        THEN [rd.blocks[b] EXCEPT !.items = Tail(@)] ELSE rd.blocks[b]]]

(* the supplied cell at (or nearest to) the place of the first difference and the first  *)
(* data name of its item: [t, s, tag]                                                     *)
NoCell == [t |-> "none", s |-> <<>>, tag |-> <<>>]
CellAt(exp, b, j, c) ==
    IF b \in 1..Len(exp) /\ j \in 1..Len(exp[b].items)
    THEN LET vals == exp[b].items[j].vals
             cc == IF c < 1 THEN 1 ELSE IF c > Len(vals) THEN Len(vals) ELSE c
         IN IF vals = <<>> THEN NoCell ELSE [t |-> vals[cc].t, s |-> vals[cc].s, tag |-> exp[b].items[j].tags[1]]
    ELSE NoCell

(* <<clause, block, item, cell, lexical error, parse error, supplied cell>> *)
Judge(e) ==
    LET exp == Supplied(e) IN
    IF e.out = "raised"
    THEN IF HasUnrepresentable(exp) THEN <<"ok", 0, 0, 0, "", "", NoCell>>
         ELSE <<"exception_for_representable_content", 0, 0, 0, "", "", NoCell>>
    ELSE LET rd == IF e.api = "objects" THEN WithoutConform(Read(e.text)) ELSE Read(e.text)
             v == DocVerdict(exp, rd)
         IN IF v[1] = "ok" /\ ~MagicOK(e.text)
            THEN <<"version_identifier_is_not_CIF_1.1", 0, 0, 0, "", "", NoCell>>
            ELSE <<v[1], v[2], v[3], v[4], rd.le, rd.pe, CellAt(exp, v[2], v[3], v[4])>>

TInit == l = 1 /\ nbad = 0
TNext == /\ l <= Len(Tr)
         /\ l' = l + 1
         /\ LET v == Judge(Tr[l]) IN
            /\ nbad' = IF v[1] = "ok" THEN nbad ELSE nbad + 1
            /\ (v[1] = "ok" \/ PrintT(<<"REJECT", l, Tr[l].tid, v[1], v[2], v[3], v[4], v[5], v[6], v[7]>>))
TSpec == TInit /\ [][TNext]_tvars
Done == (l = Len(Tr) + 1) => PrintT(<<"DONE", l - 1, nbad>>)
=============================================================================
