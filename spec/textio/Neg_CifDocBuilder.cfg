SPECIFICATION Spec
CONSTANTS
  MaxCalls = 3
  Bug = "dupid"
INVARIANT TypeOK
INVARIANT SavedReadsBack
INVARIANT NoAuthorLostOrMerged
INVARIANT EveryRoleHasOneAuthor
INVARIANT ContentInCallOrder
CHECK_DEADLOCK FALSE
