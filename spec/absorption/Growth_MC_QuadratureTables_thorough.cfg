SPECIFICATION Spec
CONSTANTS
  Groups <- MC_GroupsThorough
  Gens <- MC_GensThorough
  Weights = {1, 2}
  LineWeights = {1, 3}
  MaxOrbits = 2
  Nodes = {1, 2}
  MaxPairs = 1
  MaxDeg = 3
  Bug = "none"
INVARIANT DiskInvariantUnderGroup
INVARIANT CompleteOrbits
INVARIANT OnlyCentreFixedByRotation
INVARIANT WeightBookkeeping
INVARIANT MomentsInvariant
INVARIANT OddMomentsVanish
INVARIANT MirrorMomentsVanish
INVARIANT IsotropicSecondMoments
INVARIANT LineOK
INVARIANT LineOddMomentsVanish
INVARIANT ProductIsCartesian
INVARIANT ProductTotalWeight
INVARIANT ProductMomentsFactorise
INVARIANT ProductSymmetric
INVARIANT ProductLayout
CHECK_DEADLOCK FALSE
