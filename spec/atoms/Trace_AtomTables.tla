--------------------------- MODULE Trace_AtomTables ---------------------------
(* Judges recorded lookups (Atom.for_isotope, ScatteringParams.for_isotope) and attenuation       *)
(* coefficients against the tables TLC reads itself (TABLES_FILE) — one NDJSON line per call,      *)
(* every line gets a verdict: <<"REJECT", line, tid, clause>>, at the end <<"DONE", n, nbad>>.      *)
(*                                                                                                *)
(* An event carries the queried name as code points, the outcome ("ok" / "raised": ANY exception   *)
(* counts as a rejection), the row(s) the harness believes were answered, and per CSV column one   *)
(* letter: "b" nothing returned (None), "m" the returned number equals float(text) of that column  *)
(* of that row (uncertainties: variance equals float(text)^2 to 1 ulp), "x" anything else.  TLC     *)
(* decides: whether the name is tabulated (exact match in the first column), that the claimed rows  *)
(* are the rows of exactly that name (never another nuclide's), the blank pattern column by        *)
(* column, Z against the periodic table, mass only for isotopes, weight only where tabulated.       *)
(* float(text) equality itself is evaluated by the harness (TLC has no floats).                    *)
EXTENDS AtomTablesDefs, TLC

Tr == ndJsonDeserialize(IOEnv.TRACE_FILE)

VARIABLES l, nbad
tvars == <<l, nbad>>

(* expected letters for a row's fields f: value columns (odd) and uncertainty columns (even) *)
WantPat(f) == [j \in 1..Len(f) |-> IF f[j] = "" THEN "b" ELSE "m"]
SamePat(pat, f) == Len(pat) = Len(f) /\ \A j \in 1..Len(f) : pat[j] = WantPat(f)[j]

JudgeScat(e) ==
    LET exp == ScatOutcome(e.cp)
    IN  IF exp = "reject" THEN (IF e.out = "raised" THEN "ok" ELSE "unknown_name_accepted")
        ELSE IF e.out = "raised" THEN "tabulated_name_rejected"
        ELSE IF ~(e.row \in 1..NScat) \/ Tab.scat[e.row].cp # e.cp THEN "oracle_row_is_not_the_named_row"
        ELSE IF ~e.name_ok THEN "isotope_field_is_not_the_query"
        ELSE IF \E j \in 1..16 : e.pat[j] = "x" /\ Tab.scat[e.row].f[j] = "" THEN "value_where_table_is_blank"
        ELSE IF \E j \in 1..16 : e.pat[j] = "b" /\ Tab.scat[e.row].f[j] # "" THEN "nothing_where_table_has_value"
        ELSE IF ~SamePat(e.pat, Tab.scat[e.row].f) THEN "value_differs_from_table"
        ELSE IF ~e.units_ok THEN "wrong_unit"
        ELSE "ok"

JudgeAtom(e) ==
    LET exp == AtomOutcome(e.cp)
    IN  IF exp = "reject" THEN (IF e.out = "raised" THEN "ok" ELSE "unknown_name_accepted")
        ELSE IF e.out = "raised" THEN "tabulated_name_rejected"
        ELSE IF ~(e.wrow \in 1..NWeights) \/ Tab.weights[e.wrow].cp # ElementOf(e.cp)
             THEN "oracle_row_is_not_the_named_row"
        ELSE IF exp = "isotope" /\ (~(e.mrow \in 1..NMasses) \/ Tab.masses[e.mrow].cp # e.cp)
             THEN "oracle_row_is_not_the_named_row"
        ELSE IF ~e.name_ok THEN "isotope_field_is_not_the_query"
        ELSE IF e.z # atoi(Tab.weights[e.wrow].f[1]) THEN "Z_differs_from_table"
        ELSE IF e.z # ZOfSymbol(Tab.weights[e.wrow].name) THEN "Z_is_not_the_atomic_number_of_the_element"
        ELSE IF exp = "element" /\ e.mpat # <<"b", "b">> THEN "mass_for_an_element"
        ELSE IF exp = "isotope" /\ e.mpat[1] = "b" THEN "no_mass_for_an_isotope"
        ELSE IF exp = "isotope" /\ ~SamePat(e.mpat, Tab.masses[e.mrow].f) THEN "mass_differs_from_table"
        ELSE IF e.wpat[1] # "b" /\ Tab.weights[e.wrow].f[2] = "" THEN "weight_where_none_is_tabulated"
        ELSE IF e.wpat[1] = "b" /\ Tab.weights[e.wrow].f[2] # "" THEN "no_weight_although_tabulated"
        ELSE IF ~SamePat(e.wpat, SubSeq(Tab.weights[e.wrow].f, 2, 3)) THEN "weight_differs_from_table"
        ELSE IF ~e.units_ok THEN "wrong_unit"
        ELSE "ok"

JudgeMu(e) ==
    IF e.small /\ Attenuation(e.n, e.ss, e.sa, e.lam) # RNorm(e.want) THEN "oracle_attenuation_formula"   \* lowest terms
    ELSE IF e.raised THEN "attenuation_raised"
    ELSE IF ~e.dim_ok THEN "attenuation_is_not_an_inverse_length"
    ELSE IF ~e.rel_ok THEN "attenuation_differs_from_law"
    ELSE "ok"

Judge(e) == IF e.ev = "scat" THEN JudgeScat(e)
            ELSE IF e.ev = "atom" THEN JudgeAtom(e)
            ELSE IF e.ev = "mu" THEN JudgeMu(e)
            ELSE "unknown_event"

TInit == l = 1 /\ nbad = 0
TNext == /\ l <= Len(Tr)
         /\ l' = l + 1
         /\ LET v == Judge(Tr[l]) IN
            /\ nbad' = IF v = "ok" THEN nbad ELSE nbad + 1
            /\ (v = "ok" \/ PrintT(<<"REJECT", l, Tr[l].tid, v>>))
TSpec == TInit /\ [][TNext]_tvars
Done == (l = Len(Tr) + 1) => PrintT(<<"DONE", l - 1, nbad>>)
=============================================================================
