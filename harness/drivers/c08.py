"""C08 — Q-vector and hkl conversions satisfy their defining algebra.

Spec: spec/conv/QVecDefs.tla (beams with integer norm => rational unit vectors; e_i - e_f as an
exact rational vector; rational rotations from integer quaternions; R U B as integer matrix over an
integer denominator; Cramer inverse), QVec.tla (state machine on the two beams: rescale either beam,
rotate the beamline; invariants NormIdentity / Direction / Rotations, action properties
LengthIndependent / Covariant), QVecHkl.tla (state machine on goniometer, orientation, lattice
matrix; invariants HklInverse, UBProduct, RotationKeepsNorm, Lossless), QVecCases.tla (export),
Trace_QVec.tla (judge of recorded executions).

1. TLC, exhaustive: |e_i - e_f|^2 = 4 sin^2(theta) with cos(2theta) the cosine of C03's angle class,
   independence of the beam lengths, covariance under every rational rotation, Solve(R UB, Q) = hkl
   for every (R, U, B, hkl) of the grid, (R U) B = R (U B), adjugate anti-multiplicativity, split /
   reassemble.  Negative controls: unnormalised beams, k_f - k_i; wrong order of R and U, R dropped.
2. spec -> code (M1): TLC writes the cases; the driver replays them into
   Q_elements_from_wavelength, Q_vec_from_Q_elements, Q_from_wavelength + two_theta (scalar route),
   ub_matrix_from_u_and_b, hkl_vec_from_Q_vec, hkl_elements_from_hkl_vec with scalar and array
   operands, wavelengths 0.01..100 angstrom, beams rescaled by exactly representable factors,
   B rescaled column-wise by powers of ten up to condition numbers of 1e6, R as rotation3 and as
   matrix.
3. Every replay is one NDJSON event judged by TLC (Trace_QVec): TLC recomputes the harness' own
   exact rationals / integer matrices with the spec operators and judges the measured errors.

Numeric part (not decidable by TLC): the factor 2 pi / lambda and the rounding of the floats.  The
driver multiplies the spec's exact rational by 2 pi / lambda in mpmath (60 digits, exact rational of
the wavelength float) and compares.  Bounds (eps = 2^-52, k = 2 pi / lambda):
  Q components: unit vectors 3.5 eps each, difference 9 eps, k = 2*pi/lambda 2.2 eps, product
      1 eps  -> 16 eps k absolute (the components can cancel to zero, so the bound is absolute);
  |Q_vec| and 4 pi sin(theta)/lambda (with theta from two_theta, 3e-15 rad, C03): 24 eps k;
  R * Q(b1, b2) against Q(R b1, R b2): both sides 16 eps k plus the rounded quaternion: 48 eps k;
  hkl: forward error of the explicit inverse of the rounded product R*UB applied to Q: the product
      perturbs the matrix by 3 eps |R||UB|, the cofactor inverse adds ~4 eps cond, the matrix-vector
      product 3 eps cond, the division by 2 pi 2 eps: <= 32 eps cond_2(R UB) |hkl| (48 when R is
      given as a quaternion that scipp converts itself).  The reference hkl is the exact rational
      solution for the float matrices actually passed, divided by 2 pi in mpmath.
  U*B with integer entries is exact (bit-for-bit); split/reassemble is bit-for-bit.
B matrices with condition number 1e6 exceed TLC's 32-bit integers (stated limit): TLC decides the
small integer B, the harness rescales columns by powers of ten and solves exactly with Python
rationals using the same Cramer formula.
"""

from __future__ import annotations

import json
import math
import os
from fractions import Fraction

import mpmath
import numpy as np
import scipp as sc

from .. import lib_geom as G
from ..core import MachineryError
from ..tlc import require_ok, write_ndjson

WORKERS = min(8, int(os.environ.get('VERIF_TLC_WORKERS', '8') or 8))
HALF = 2.0 ** -53
RULE = ('beams = signed permutations of (1,0,0), (1,2,2), (0,3,4), (2,3,6), (1,4,8) rescaled by exactly '
        'representable factors; rotations from integer quaternions; integer B rescaled column-wise by powers '
        'of ten (cond <= 2e6); integer hkl; wavelengths 0.01..100 angstrom; non-trivial = kernels returned; '
        'identity = (case integers, variant)')
LAMS = [0.01, 0.37, 1.0, 4.5, 100.0]
SCALINGS = [(1.0, 1.0), (3.0, 2.0 ** -12), (2.0 ** 15, 7.0)]


def _rvec(fr3):
    return [G.reduce_frac(x.numerator, x.denominator) for x in fr3]


def _isqrt_exact(n):
    r = math.isqrt(n)
    if r * r != n:
        raise MachineryError(f'beam without integer norm: {n}')
    return r


def _units_abs(err, k):
    """|err| / (2^-53 * k) rounded up."""
    return G.units_of(err / k, HALF)


# ------------------------------------------------------------------------------ Q vector
def _q_reference(b1, b2, quat):
    """The harness' own Euclidean evaluation with exact rationals."""
    n1, n2 = _isqrt_exact(sum(x * x for x in b1)), _isqrt_exact(sum(x * x for x in b2))
    ei = tuple(Fraction(x, n1) for x in b1)
    ef = tuple(Fraction(x, n2) for x in b2)
    q = G.vsub(ei, ef)
    m, n = G.quat_mat(quat)
    rot = tuple(tuple(Fraction(x, n) for x in row) for row in m)
    rq = G.matvec(rot, q)
    r1, r2 = G.matvec(m, b1), G.matvec(m, b2)  # integer beams N * R b
    cos = Fraction(sum(a * b for a, b in zip(b1, b2)), n1 * n2)
    return {'q': q, 'rq': rq, 'r1': r1, 'r2': r2, 'four_sin2': 2 * (1 - cos), 'rot': rot, 'n': n}


def _replay_q(ctx, cases, events, stats):
    from scippneutron.conversion import beamline as bl
    from scippneutron.conversion import tof

    # group by (b1, quat): scattered beams become a per-pixel array
    groups = {}
    for c in cases:
        groups.setdefault((tuple(c['b1']), tuple(c['quat'])), []).append(c)
    lam = sc.array(dims=['wavelength'], values=LAMS, unit='angstrom')
    kk = [2 * mpmath.pi / G.to_mpf(Fraction(x)) for x in LAMS]  # 1/angstrom
    for gi, ((b1, quat), items) in enumerate(sorted(groups.items())):
        refs = [_q_reference(b1, tuple(c['b2']), quat) for c in items]
        b2s = np.array([c['b2'] for c in items], dtype='float64')
        r2s = np.array([r['r2'] for r in refs], dtype='float64')
        r1 = np.array(refs[0]['r1'], dtype='float64')
        x, y, z, w = quat[1], quat[2], quat[3], quat[0]
        nq = math.sqrt(refs[0]['n'])
        rvar = sc.spatial.rotation(value=np.array([x, y, z, w], dtype='float64') / nq)
        unit_b = ('m', 'mm', 'angstrom')[gi % 3]
        res = {}
        try:
            for si, (s1, s2) in enumerate(SCALINGS):
                ib = sc.vector(np.array(b1, dtype='float64') * s1, unit=unit_b)
                sb = sc.vectors(dims=['det'], values=b2s * s2, unit=unit_b)
                res['el', si] = tof.Q_elements_from_wavelength(wavelength=lam, incident_beam=ib, scattered_beam=sb)
            el = res['el', 0]
            qv = tof.Q_vec_from_Q_elements(Qx=el['Qx'], Qy=el['Qy'], Qz=el['Qz'])
            ibr = sc.vector(r1, unit=unit_b)
            sbr = sc.vectors(dims=['det'], values=r2s, unit=unit_b)
            elr = tof.Q_elements_from_wavelength(wavelength=lam, incident_beam=ibr, scattered_beam=sbr)
            qvr = tof.Q_vec_from_Q_elements(Qx=elr['Qx'], Qy=elr['Qy'], Qz=elr['Qz'])
            qrot = rvar * qv
            qnorm = sc.norm(qv)
            ib0 = sc.vector(np.array(b1, dtype='float64'), unit=unit_b)
            sb0 = sc.vectors(dims=['det'], values=b2s, unit=unit_b)
            tt = bl.two_theta(incident_beam=ib0, scattered_beam=sb0)
            qs = tof.Q_from_wavelength(wavelength=lam, two_theta=tt)
            returned, exc = True, None
        except Exception as e:  # noqa: BLE001
            returned, exc = False, repr(e)
            ctx.violation(f'Q-vector kernels raised {type(e).__name__}', {'exc': exc, 'b1': b1, 'quat': quat})

        def comp(d, name):
            return d[name].transpose(['det', 'wavelength']).values

        if returned:
            want_unit = sc.Unit('1/angstrom')
            unit_ok = all(el[n].unit == want_unit and el[n].dtype == sc.DType.float64 for n in ('Qx', 'Qy', 'Qz')) \
                and qv.unit == want_unit and qv.dtype == sc.DType.vector3 and qs.unit == want_unit
            E = [[comp(res['el', si], n) for n in ('Qx', 'Qy', 'Qz')] for si in range(len(SCALINGS))]
            ER = [comp(elr, n) for n in ('Qx', 'Qy', 'Qz')]
            QV = qv.transpose(['det', 'wavelength']).values
            QVR = qvr.transpose(['det', 'wavelength']).values
            QROT = qrot.transpose(['det', 'wavelength']).values
            QN = qnorm.transpose(['det', 'wavelength']).values
            QS = qs.transpose(['det', 'wavelength']).values
        for i, (c, ref) in enumerate(zip(items, refs)):
            o = {'returned': returned, 'unit_ok': False, 'e_q': 0, 'e_len': 0, 'e_rot': 0, 'e_cov': 0, 'e_norm': 0,
                 'e_scal': 0, 'bits_ok': False}
            if returned:
                o['unit_ok'] = bool(unit_ok)
                qm = G.mp_vec(ref['q'])
                rqm = G.mp_vec(ref['rq'])
                nrm = mpmath.sqrt(G.to_mpf(ref['four_sin2']))
                bits = True
                for j, k in enumerate(kk):
                    for a in range(3):
                        want = k * qm[a]
                        o['e_q'] = max(o['e_q'], _units_abs(G.mpf(float(E[0][a][i][j])) - want, k))
                        for si in range(1, len(SCALINGS)):
                            o['e_len'] = max(o['e_len'], _units_abs(G.mpf(float(E[si][a][i][j])) - want, k))
                        o['e_rot'] = max(o['e_rot'], _units_abs(G.mpf(float(ER[a][i][j])) - k * rqm[a], k))
                        o['e_cov'] = max(o['e_cov'], _units_abs(G.mpf(float(QROT[i][j][a])) - G.mpf(float(QVR[i][j][a])), k))
                        bits = bits and (float(QV[i][j][a]).hex() == float(E[0][a][i][j]).hex())
                    o['e_norm'] = max(o['e_norm'], _units_abs(G.mpf(float(QN[i][j])) - k * nrm, k))
                    o['e_scal'] = max(o['e_scal'], _units_abs(G.mpf(float(QS[i][j])) - G.mpf(float(QN[i][j])), k),
                                      _units_abs(G.mpf(float(QS[i][j])) - k * nrm, k))
                o['bits_ok'] = bool(bits)
                for key in ('e_q', 'e_len', 'e_rot', 'e_cov', 'e_norm', 'e_scal'):
                    stats[key] = max(stats.get(key, 0), o[key])
            events.append({'ev': 'q', 'tid': len(events), 'b1': list(b1), 'n1': c['n1'], 'b2': c['b2'], 'n2': c['n2'],
                           'quat': list(quat),
                           'want': {'q': _rvec(ref['q']), 'rq': _rvec(ref['rq']),
                                    'four_sin2': G.reduce_frac(ref['four_sin2'].numerator, ref['four_sin2'].denominator)},
                           'o': o, 'unit': unit_b})
            ctx.case(nontrivial_id=repr(('q', b1, tuple(c['b2']), quat)) if returned else None)


# ------------------------------------------------------------------------------ hkl
def _mat_var(m, unit='dimensionless'):
    return sc.spatial.linear_transform(value=np.array(m, dtype='float64'), unit=unit)


def _frac_mat(a):
    return tuple(tuple(Fraction(float(x)) for x in row) for row in a)


def _solve_exact(A, v):
    """Cramer's rule with exact rationals: x = Adj(A) v / Det(A)."""
    d = G.det3(A)
    w = G.matvec(G.adj3(A), v)
    return tuple(x / d for x in w)


def _replay_hkl(ctx, cases, events, stats, thorough):
    from scippneutron.conversion import tof

    # column-wise powers of ten (condition numbers up to 1e6) and uniform ones: a uniformly small / large B
    # (large / small unit cell) has a tiny / huge determinant at an unchanged condition number, so any
    # absolute threshold on det(UB) shows up
    col_scalings = [(0, 0, 0), (3, 0, -3), (-2, 1, 2), (1, 0, -1), (-3, -3, -3), (-4, -4, -4), (3, 3, 3)]
    if thorough:
        col_scalings += [(0, -3, 2), (-5, -5, -5), (-2, -3, -4)]
    two_pi = 2 * mpmath.pi
    # group by (qr, qu, B): hkl become an array
    groups = {}
    for c in cases:
        groups.setdefault((tuple(c['qr']), tuple(c['qu']), json.dumps(c['B'])), []).append(c)
    for gi, ((qr, qu, bj), items) in enumerate(sorted(groups.items())):
        B = json.loads(bj)
        mr, nr = G.quat_mat(qr)
        mu, nu = G.quat_mat(qu)
        ub_int = G.matmul(mu, B)
        A_int = G.matmul(mr, ub_int)
        D = nr * nu
        hs = [tuple(c['h']) for c in items]
        want = {'A': [list(r) for r in A_int], 'D': D, 'ub': [list(r) for r in ub_int]}
        for vi, var in enumerate(('matrix', 'rotation3')):
            exps = col_scalings[(gi + vi) % len(col_scalings)]
            # floats actually passed
            Bf = np.array([[B[r][c_] * 10.0 ** exps[c_] for c_ in range(3)] for r in range(3)])
            Uf = np.array(mu, dtype='float64') / nu
            Rf = np.array(mr, dtype='float64') / nr
            UBf_exact = G.matmul(_frac_mat(Uf), _frac_mat(Bf))
            o_common = {}
            try:
                if var == 'matrix':
                    u_var, r_var = _mat_var(Uf), _mat_var(Rf)
                else:
                    u_var = sc.spatial.rotation(value=np.array([qu[1], qu[2], qu[3], qu[0]], dtype='float64') / math.sqrt(nu))
                    r_var = sc.spatial.rotation(value=np.array([qr[1], qr[2], qr[3], qr[0]], dtype='float64') / math.sqrt(nr))
                b_var = _mat_var(Bf, unit='1/angstrom')
                ub_var = tof.ub_matrix_from_u_and_b(u_matrix=u_var, b_matrix=b_var)
                ubv = np.array(ub_var.value, dtype='float64')
                # U*B: exact reference for the floats passed (matrix variant) / mpmath (quaternion variant)
                e_ub = 0
                # entrywise bound 3 eps sum_k |u_rk||b_kc| <= 3 eps colsum_c|B| (|u| <= 1); a quaternion
                # operand adds the rounding of the quaternion (entries of U off by a few eps)
                colsum = [sum(abs(Bf[k][c_]) for k in range(3)) for c_ in range(3)]
                for r in range(3):
                    for c_ in range(3):
                        ref = G.to_mpf(UBf_exact[r][c_]) if var == 'matrix' else \
                            sum(G.mpf(mu[r][k]) / nu * G.mpf(float(Bf[k][c_])) for k in range(3))
                        e_ub = max(e_ub, G.units_of((G.mpf(float(ubv[r][c_])) - ref) / colsum[c_], 2.0 ** -52))
                # small dyadic U (N in {1,2,4}) times unscaled integer B: every product and partial sum is
                # exactly representable, so U*B must be bit-for-bit the exact product
                ub_exact_required = var == 'matrix' and nu in (1, 2, 4) and tuple(exps) == (0, 0, 0)
                ub_bits_ok = all(Fraction(float(ubv[r][c_])) == UBf_exact[r][c_] for r in range(3) for c_ in range(3)) \
                    if ub_exact_required else True
                # the Q vectors: exact 2 pi R U B h for the floats of UB and R, rounded once
                ubf = _frac_mat(ubv)
                rfm = _frac_mat(Rf)
                Aex = G.matmul(rfm, ubf)
                qf = []
                for h in hs:
                    v = G.matvec(Aex, tuple(Fraction(x) for x in h))
                    qf.append([float(two_pi * G.to_mpf(x)) for x in v])
                q_var = sc.vectors(dims=['peak'], values=np.array(qf), unit='1/angstrom')
                hkl = tof.hkl_vec_from_Q_vec(Q_vec=q_var, ub_matrix=ub_var, sample_rotation=r_var)
                hv = np.asarray(hkl.values).reshape(-1, 3)
                parts = tof.hkl_elements_from_hkl_vec(hkl_vec=hkl)
                split_ok = all(np.array_equal(parts[n].values.view('int64'), np.ascontiguousarray(hv[:, a]).view('int64'))
                               for a, n in enumerate(('h', 'k', 'l')))
                # scalar operand
                h0 = tof.hkl_vec_from_Q_vec(Q_vec=sc.vector(qf[0], unit='1/angstrom'), ub_matrix=ub_var,
                                            sample_rotation=r_var)
                scalar_same = np.array_equal(np.asarray(h0.value), hv[0]) or bool(np.allclose(np.asarray(h0.value), hv[0], rtol=1e-15, atol=0))
                unit_ok = hkl.unit == sc.Unit('dimensionless') and hkl.dtype == sc.DType.vector3 and \
                    ub_var.unit == sc.Unit('1/angstrom')
                cond = float(np.linalg.cond(Rf @ ubv))
                returned = True
            except Exception as e:  # noqa: BLE001
                returned = False
                ctx.violation(f'hkl kernels raised {type(e).__name__} ({var})', {'exc': repr(e), 'qr': qr, 'qu': qu, 'B': B})
            for i, (c, h) in enumerate(zip(items, hs)):
                o = {'returned': returned, 'unit_ok': False, 'e_ub': 0, 'ub_bits_ok': False, 'e_hkl': 0, 'split_ok': False}
                if returned:
                    o['unit_ok'] = bool(unit_ok)
                    o['e_ub'] = int(e_ub)
                    o['ub_bits_ok'] = bool(ub_bits_ok)
                    o['split_ok'] = bool(split_ok and (i != 0 or scalar_same))
                    if cond <= 2e6:
                        # exact solution for the floats passed: x = (R_f UB_f)^-1 Q_f / (2 pi)
                        xq = _solve_exact(Aex, tuple(Fraction(v) for v in qf[i]))
                        xm = [G.to_mpf(v) / two_pi for v in xq]
                        nx = mpmath.sqrt(sum(v * v for v in xm))
                        err = mpmath.sqrt(sum((G.mpf(float(hv[i][a])) - xm[a]) ** 2 for a in range(3)))
                        if nx == 0:
                            o['e_hkl'] = 0 if err == 0 else 2**30
                        else:
                            o['e_hkl'] = G.units_of(err / (nx * cond), 2.0 ** -52)
                        stats['e_hkl'] = max(stats.get('e_hkl', 0), o['e_hkl'])
                        stats['cond_max'] = max(stats.get('cond_max', 0), cond)
                    stats['e_ub'] = max(stats.get('e_ub', 0), o['e_ub'])
                qlab = [int(x) for x in G.matvec(A_int, h)]
                events.append({'ev': 'hkl', 'tid': len(events), 'qr': list(qr), 'qu': list(qu), 'B': B, 'h': list(h),
                               'var': var, 'exps': list(exps), 'want': dict(want, qlab=qlab), 'o': o})
                ctx.case(nontrivial_id=repr(('hkl', qr, qu, bj, h, var)) if returned else None)


def _replay_split(ctx, events, n):
    from scippneutron.conversion import tof

    rng = ctx.rng
    specials = [0.0, -0.0, 5e-324, -2.2250738585072014e-308, 1.7976931348623157e308, math.inf, -math.inf, 1 / 3, math.pi]
    for t in range(n):
        m = rng.choice([1, 2, 7, 64])
        vals = np.array([[rng.choice(specials) if rng.random() < 0.3 else rng.uniform(-1, 1) * 10.0 ** rng.uniform(-300, 300)
                          for _ in range(3)] for _ in range(m)])
        try:
            if t % 4 == 0:
                v = sc.vector(vals[0], unit='1/angstrom')
                vv = vals[:1]
            else:
                v = sc.vectors(dims=['p'], values=vals, unit='1/angstrom')
                vv = vals
            parts = tof.hkl_elements_from_hkl_vec(hkl_vec=v)
            back = tof.Q_vec_from_Q_elements(Qx=parts['h'], Qy=parts['k'], Qz=parts['l'])
            got = np.asarray(back.values).reshape(-1, 3)
            ok = np.array_equal(np.ascontiguousarray(got).view('int64'), np.ascontiguousarray(vv).view('int64'))
            ok = ok and all(np.array_equal(np.atleast_1d(parts[nm].values).view('int64'), np.ascontiguousarray(vv[:, a]).view('int64'))
                            for a, nm in enumerate(('h', 'k', 'l')))
            ok = ok and back.unit == v.unit and back.dtype == sc.DType.vector3
            events.append({'ev': 'split', 'tid': len(events), 'n': int(len(vv)), 'returned': True, 'bits_ok': bool(ok)})
        except Exception as e:  # noqa: BLE001
            ctx.violation(f'split/reassemble raised {type(e).__name__}', {'exc': repr(e)})
            events.append({'ev': 'split', 'tid': len(events), 'n': int(m), 'returned': False, 'bits_ok': False})
        ctx.case(nontrivial_id=repr(('split', t)))


def _key(ev, clause):
    if ev['ev'] == 'q':
        return f'Q vector: {clause}'
    if ev['ev'] == 'hkl':
        return f'hkl ({ev["var"]} rotation operands): {clause}'
    return f'{ev["ev"]}: {clause}'


def run(ctx):
    ctx.rule = RULE
    ctx.assume('beams are integer vectors with integer norm times exactly representable factors, so the floats '
               'passed are exactly the spec values; wavelengths are arbitrary floats taken as exact rationals')
    ctx.assume('hkl reference = exact rational solution for the float matrices actually passed (the rounded '
               'rotation and U*B), so only the kernel\'s own arithmetic is judged; cond_2 is estimated with numpy')
    thorough = ctx.thorough

    # ---- 1. design
    res = ctx.tlc('conv/MC_QVec.tla', 'MC_QVec_thorough.cfg' if thorough else 'MC_QVec.cfg', workers=WORKERS, timeout=2400)
    require_ok(ctx, res, 'QVec model')
    res = ctx.tlc('conv/MC_QVecHkl.tla', 'MC_QVecHkl_thorough.cfg' if thorough else 'MC_QVecHkl.cfg', workers=WORKERS,
                  timeout=2400)
    require_ok(ctx, res, 'QVecHkl model')
    for mod, neg in (('MC_QVec', 'Neg_QVec_unnormalised'), ('MC_QVec', 'Neg_QVec_kf_minus_ki'),
                     ('MC_QVecHkl', 'Neg_QVecHkl_order'), ('MC_QVecHkl', 'Neg_QVecHkl_no_rotation')):
        ctx.tlc(f'conv/{mod}.tla', f'{neg}.cfg', workers=WORKERS, expect_error=True, timeout=300)

    # ---- 2. cases
    out = ctx.tmp / 'c08-cases.ndjson'
    cres = ctx.tlc('conv/QVecCases.tla', 'QVecCases_thorough.cfg' if thorough else 'QVecCases.cfg', workers=1,
                   env={'OUT_FILE': str(out)}, timeout=900, count=False)
    require_ok(ctx, cres, 'QVecCases export')
    recs = [json.loads(line) for line in open(out)]
    tag = cres.tagged('CASES')
    if not tag or sum(tag[0][1:]) != len(recs):
        raise MachineryError(f'case export incomplete: {tag} vs {len(recs)}')
    qcases = [r for r in recs if r['kind'] == 'q']
    hcases = [r for r in recs if r['kind'] == 'hkl']
    ctx.extra['cases_exported'] = {'q': len(qcases), 'hkl': len(hcases)}

    events, stats = [], {}
    _replay_q(ctx, qcases, events, stats)
    nq = len(events)
    _replay_hkl(ctx, hcases, events, stats, thorough)
    _replay_split(ctx, events, 400 if thorough else 100)
    ctx.extra['worst_errors_in_units'] = stats
    ctx.extra['tolerances_in_units'] = {'e_q/e_len/e_rot': 32, 'e_norm/e_scal': 48, 'e_cov': 96, 'e_hkl': '32 (48 rotation3)',
                                        'e_ub': 16}
    for e in (events[0], events[nq], events[-1]):
        ctx.sample(e)

    # ---- 3. TLC judges
    tf = ctx.tmp / 'c08.ndjson'
    write_ndjson(tf, events)
    tr = ctx.tlc('conv/Trace_QVec.tla', workers=1, env={'TRACE_FILE': str(tf)}, timeout=2400)
    require_ok(ctx, tr, 'Trace_QVec')
    done = tr.tagged('DONE')
    if not done or done[0][1] != len(events):
        raise MachineryError(f'trace validation incomplete: {done} vs {len(events)} events')
    ctx.traces(len(events))
    for rej in tr.tagged('REJECT'):
        _, line, _tid, clause = rej
        ev = events[line - 1]
        if clause.startswith('harness_') or clause in ('invalid_case', 'unknown_event', 'cramer_solution_is_not_hkl'):
            raise MachineryError(f'harness and specification disagree ({clause}) on event {ev}')
        ctx.violation(_key(ev, clause), {'event': ev})


META = {
    'design_ref': 'DESIGN.md §5 C08',
    'technique': 'TLA+ models of the Q-vector (beams with integer norm, rational rotations) and of the hkl inverse '
                 '(integer R U B over an integer denominator, Cramer) model-checked by TLC; TLC-enumerated cases '
                 'replayed into the real kernels; every replay recorded and judged by TLC (Trace_QVec)',
    'text': 'TLC proves |e_i - e_f|^2 = 4 sin^2 theta, independence of beam lengths, covariance under rational '
            'rotations, Solve(R UB, 2 pi R UB hkl) = hkl, associativity and split/reassemble on the grid.  The '
            'kernels are evaluated on every exported case (scalar and array operands, wavelengths 0.01..100 '
            'angstrom, rescaled beams, B up to cond 1e6, R as quaternion and as matrix) and compared with the '
            'spec\'s exact rationals times 2 pi / lambda (mpmath); TLC re-derives the harness\' references.',
    'note': 'Trusted: TLC, mpmath, scipp, numpy (condition number estimate only). Rounding bounds are checked on '
            'finitely many points; B with cond 1e6 is beyond TLC integers and handled by the harness exactly.',
}
