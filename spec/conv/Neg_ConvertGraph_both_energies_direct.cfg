SPECIFICATION Spec
CONSTANTS
  Heads <- AllHeads
  Masks <- MC_NegMasks
  Bug = "both_energies_direct"
INVARIANT NoWrongMode
