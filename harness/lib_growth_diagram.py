"""Growth module G06: time-distance diagrams and the beamline-component accessors.
Deviations are reported with ctx.growth_finding (GROWTH-FINDING lines), never as violations of a host check.

Part A - scippneutron.tof.TimeDistanceDiagram  (spec/tof/Growth_TimeDistance.tla)
  The specification is a state machine of what a time-distance diagram of a pulsed source IS, in natural units
  (h = m_n = 1, time of flight = L * lambda, integer ticks / distances / wavelengths, frame length F = 20 ticks):
  the state is the sequence of drawn objects, one group per call (AddSourcePulse, AddNeutron, AddNeutrons,
  AddDetector, AddSample in any order and number).  TLC checks: one pulse rectangle [t0, t0 + p] x [-1, 0] and one
  frame line per frame start k F < tmax (count = ceil(tmax / F)); worldlines start at the source at the emission
  time and have slope 1 / lambda; faster / earlier neutrons are ahead at every distance, lines of one emission
  never cross above the source; a neutron label sits at the end of its line; bands are convex, ordered, emitted from
  one point at Lmin, repeated `frames` times shifted by stride F, contain exactly the wavelengths
  [lambda_min, lambda_max]; without lambda_max consecutive bands never overlap at Lmax, with lambda_max they overlap
  exactly when tof_max - tof_min > stride F; a neutron emitted with a band stays inside it; components are drawn
  from 0 to tmax at their distance; a call draws its own kinds of objects only, the same objects whatever was drawn
  before, and never changes earlier objects.  Six negative controls (Bug constant) must be rejected.
  spec -> code: TLC prints complete behaviours with the exact expected objects: every diagram of two calls of the
  quick grid (exhaustive) and random walks of six calls on a larger grid (-simulate).  Thorough additionally checks
  every two-call diagram of a larger grid and every three-call diagram of the quick grid (no export).  Each is replayed into a real
  TimeDistanceDiagram on a matplotlib Axes (Figure + FigureCanvasAgg, no pyplot) in physical units and the objects
  found on the Axes after every call (Rectangle, Polygon, Line2D, Text; objects of earlier calls must be untouched)
  are compared with the expected group.
  Refinement mapping: the axes are documented by their labels, "time [ms]" and "distance [m]".  The frame rate is
  4 / 8 / 16 / 32 Hz, so one tick = 1 / (20 rate) is a dyadic number of ms; distances and wavelengths are scaled by
  d0 and lam0 with d0 lam0 m_n / h = one tick (one of the two is a round number, the other an exact rational of the
  floats scipp holds for h and m_n).  Operands are handed over in s / ms / us, m / mm / cm, angstrom / nm as float64,
  float32 (all operands of a diagram) or int64 (one operand per call, only where the value is a whole number in the
  unit).  Numeric steps outside TLC: a drawn coordinate must be within 1e-12 (1e-6 for float32 diagrams) relative of
  the exact rational image of the specification's integer (the operands themselves are rounded by <= 2^-53, resp.
  2^-24, relative; all sums have non-negative terms); an expected 0 is a literal 0.  tmax on a frame boundary
  (tmax = k F) is handed over only in a form that converts to ms without rounding (ms, or s if dyadic), so that the
  frame count is decided exactly; otherwise tmax is at least one tick (5 % of a frame) away from a boundary.
  Without lambda_max only the documented part of the slow edge is demanded: after the fast edge, not after the fast
  edge of the next band ("no frame overlap at Lmax").  Captions: only what they assert (a pulse-length caption must
  state the pulse length, a neutron label is anchored at the end of its line, a component label at its distance).
  Known alternative readings (distance taken in the unit it was given in, an integer-typed time rounded to whole
  ms, a label without the time offset) are evaluated by the oracle only to give a deviation a specific, stable key.

Part B - scippneutron.beamline_components  (spec/conv/Growth_Components.tla)
  Decision table over the 2^9 sets of present coordinates x 10 calls (Ltotal with scatter True / False): given (the
  coordinate as it is), derived (with the formula as a term over the given coordinates) or refused; plus the
  lookup as a state machine on a working copy (rules fire in any order) with the caller's object as a separate
  variable.  TLC checks that every order arrives at the table, that given coordinates are returned as is, that only
  given coordinates are used, that the caller's object is untouched, that Ltotal without scattering is the straight
  source-detector distance and needs no sample, monotonicity, "nothing from nothing".  Three negative controls.
  spec -> code: all 5120 calls are replayed on lattice geometries in which every given coordinate has its own,
  deliberately inconsistent value (so the value reveals which inputs were used) and all lengths are whole numbers
  (Pythagorean triples), for DataArray, Dataset with one item and Dataset with two items: outcome class, value
  (lengths to 1e-15 relative, angles to 1e-14 rad against mpmath), dims / unit, "given" results identical to the
  coordinate, the input object identical to a deep copy taken before the call, Dataset answer identical to the
  DataArray answer.  A DataGroup is not among the documented inputs; what happens with it is only recorded.
"""

from __future__ import annotations

import math
import re
import threading
import time
from fractions import Fraction

import mpmath
import numpy as np
import scipp as sc

from .core import MachineryError
from .refmap import H, LENGTH, MN, TIME, check_constants, mpf
from .tlc import require_ok

PRE = 'TimeDistanceDiagram'
F_TICKS = 20
REL64 = Fraction(1, 10**12)
REL32 = Fraction(1, 10**6)


# ============================================================================ TLC runs in threads (<= 6 cores in total)
class _Par:
    def __init__(self, ctx):
        self.ctx, self.jobs = ctx, []

    def start(self, module, cfg, **kw):
        job = {'res': None, 'exc': None, 'count': not kw.get('expect_error', False) and kw.pop('count', True)}
        kw['count'] = False

        def wrap():
            try:
                job['res'] = self.ctx.tlc(module, cfg, **kw)
            except BaseException as e:  # noqa: BLE001
                job['exc'] = e

        job['t'] = threading.Thread(target=wrap, daemon=True)
        job['t'].start()
        self.jobs.append(job)
        time.sleep(0.03)
        return job

    def join(self, job):
        job['t'].join()
        if job['exc'] is not None:
            raise job['exc']
        r = job['res']
        if job['count'] and not job.get('counted'):
            job['counted'] = True
            self.ctx.states += r.generated
            self.ctx.distinct_states += r.distinct
            self.ctx.transitions += max(r.generated - 1, 0)
        return r

    def join_all(self):
        first = None
        for j in self.jobs:
            try:
                self.join(j)
            except BaseException as e:  # noqa: BLE001
                first = first or e
        if first is not None:
            raise first


# ============================================================================ Part A: refinement mapping
class Scale:
    """Physical meaning of the model units: one tick [s], d0 [m], lam0 [m]; d0 * lam0 * m_n / h = one tick."""

    def __init__(self, rate_hz: int, nice: str, factor: Fraction):
        self.rate = rate_hz
        self.tick_s = Fraction(1, rate_hz * F_TICKS)
        if nice == 'distance':
            self.d0_m = factor                                         # metres per model distance
            self.lam0_m = self.tick_s * H / (MN * self.d0_m)
        else:
            self.lam0_m = factor * LENGTH['angstrom']                  # factor angstrom per model wavelength
            self.d0_m = self.tick_s * H / (MN * self.lam0_m)
        assert self.d0_m * self.lam0_m * MN / H == self.tick_s

    def describe(self):
        return {'frame_rate_Hz': self.rate, 'tick_ms': float(self.tick_s * 1000), 'd0_m': float(self.d0_m),
                'lam0_angstrom': float(self.lam0_m / LENGTH['angstrom'])}


TIME_UNITS = ('ms', 's', 'us')
DIST_UNITS = ('m', 'mm', 'cm')
WAVE_UNITS = ('angstrom', 'nm')
INT_UNITS = {'time': ('ms', 'us', 'ns', 's'), 'distance': ('m', 'cm', 'mm', 'um'), 'wavelength': ('angstrom', 'nm')}
TABLE = {'time': TIME, 'distance': LENGTH, 'wavelength': LENGTH}
FLOAT_UNITS = {'time': TIME_UNITS, 'distance': DIST_UNITS, 'wavelength': WAVE_UNITS}


def _operand(rng, si: Fraction, quantity: str, flavour: str, *, as_int=False, exact=False, unit=None):
    """A scalar for the SI value `si` -> (Variable, info).  info: unit, dtype, value (the number handed over)."""
    table = TABLE[quantity]
    units = FLOAT_UNITS[quantity]
    if as_int:
        cands = [u for u in INT_UNITS[quantity] if (unit is None or u == unit) and (si / table[u]).denominator == 1
                 and abs(si / table[u]) < 2**31 and not (exact and u not in ('ms', 's'))]
        if cands:
            # prefer a unit finer than the axis unit if there is one: that is where a conversion of integers can go wrong
            fine = [u for u in cands if table[u] < table[units[0]] and (si / table[units[0]]).denominator != 1]
            u = rng.choice(fine or cands)
            v = int(si / table[u])
            return sc.scalar(v, unit=u, dtype='int64'), {'unit': u, 'dtype': 'int64', 'value': v}
    dt = 'float32' if flavour == 'f32' else 'float64'
    rnd = (lambda x: float(np.float32(x))) if dt == 'float32' else float
    if unit is not None:
        u = unit
    elif flavour in ('plain', 'int'):
        u = units[0]
    else:
        u = rng.choice(units)
    if exact:
        # the value must reach the axis unit without rounding: ms as it is, s if the number of seconds is dyadic
        ok = [w for w in ('ms', 's') if Fraction(rnd(si / table[w])) == si / table[w]]
        if not ok:
            raise MachineryError(f'no exact representation of {si} s')
        u = u if u in ok else ok[0]
    v = rnd(si / table[u])
    return sc.scalar(v, unit=u, dtype=dt), {'unit': u, 'dtype': dt, 'value': v}


class Exp:
    """One expected object in axis units (exact rationals) with the alternative readings used for diagnosis."""

    def __init__(self, kind, xs, ys, *, text=None, limit=None):
        self.kind, self.xs, self.ys, self.text, self.limit = kind, list(xs), list(ys), text, limit
        self.xalts, self.yalts = [], []          # (key, coordinates[, limit])


def _int_ms_candidates(info):
    """Whole numbers of ms next to an integer-typed time that is not a whole number of ms."""
    if info['dtype'] != 'int64':
        return []
    exact = Fraction(info['value']) * TIME[info['unit']] / TIME['ms']
    if exact.denominator == 1:
        return []
    lo = Fraction(math.floor(exact))
    return [lo - exact, lo + 1 - exact]


def _raw(info, si_values):
    """Distances as plain numbers in the unit they were handed over in (None if that is the axis unit)."""
    if info is None or info['unit'] == 'm':
        return None
    return [v / LENGTH[info['unit']] for v in si_values]


# ---------------------------------------------------------------------------- reading the Axes back
def _read_axes(ax):
    """[(object, snapshot)] in drawing order.  snapshot = (kind, xs, ys, text) with plain floats."""
    from matplotlib.lines import Line2D
    from matplotlib.patches import Polygon, Rectangle
    from matplotlib.text import Text

    mine = {id(a) for a in list(ax.patches) + list(ax.lines) + list(ax.texts)}
    mine |= {id(a) for a in list(ax.collections) + list(ax.images)}
    out = []
    for c in ax.get_children():
        if id(c) not in mine:
            continue
        if isinstance(c, Rectangle):
            x, y, w, h = float(c.get_x()), float(c.get_y()), float(c.get_width()), float(c.get_height())
            snap = ('rect', tuple(sorted((x, x + w))), tuple(sorted((y, y + h))), None)
        elif isinstance(c, Polygon):
            xy = np.asarray(c.get_xy(), dtype='float64')
            if len(xy) > 1 and np.all(xy[0] == xy[-1]):
                xy = xy[:-1]
            snap = ('band', tuple(float(v) for v in xy[:, 0]), tuple(float(v) for v in xy[:, 1]), None)
        elif isinstance(c, Line2D):
            xd = [float(v) for v in np.asarray(c.get_xdata()).ravel()]
            yd = [float(v) for v in np.asarray(c.get_ydata()).ravel()]
            data = c.get_transform() == ax.transData
            if len(xd) != 2 or len(yd) != 2:
                snap = ('other:line', tuple(xd), tuple(yd), None)
            elif data and yd[0] == yd[1]:
                snap = ('hline', tuple(sorted(xd)), (yd[0],), None)
            elif xd[0] == xd[1]:
                snap = ('vline', (xd[0],), (), None)
            elif data:
                pts = sorted(zip(yd, xd))
                snap = ('worldline', (pts[0][1], pts[1][1]), (pts[0][0], pts[1][0]), None)
            else:
                snap = ('other:line', tuple(xd), tuple(yd), None)
        elif isinstance(c, Text):
            px, py = c.get_position()
            snap = ('text', (float(px),), (float(py),), c.get_text())
        else:
            snap = (f'other:{type(c).__name__}', (), (), None)
        out.append((c, snap))
    return out


def _canonical_band(snap):
    """(xs, ys) of a drawn quadrilateral as [low, low, slow, fast] (a polygon is a cyclic point sequence), convex?"""
    _, xs, ys, _ = snap
    if len(xs) != 4 or not all(math.isfinite(v) for v in xs + ys):
        return None
    n = 4
    turns = []
    for i in range(n):
        o, a, b = i, (i + 1) % n, (i + 2) % n
        turns.append(Fraction(xs[a] - xs[o]) * Fraction(ys[b] - ys[o]) - Fraction(ys[a] - ys[o]) * Fraction(xs[b] - xs[o]))
    scale = max([abs(v) for v in xs + ys] + [1e-300]) ** 2
    eps = Fraction(scale) * Fraction(1, 10**9)
    convex = all(t >= -eps for t in turns) or all(t <= eps for t in turns)
    pts = sorted(zip(ys, xs))
    low, up = sorted(pts[:2], key=lambda p: p[1]), sorted(pts[2:], key=lambda p: p[1])
    cxs = (low[0][1], low[1][1], up[1][1], up[0][1])
    cys = (low[0][0], low[1][0], up[1][0], up[0][0])
    return cxs, cys, convex


def _close(obs, want: Fraction, rel: Fraction):
    if not math.isfinite(obs):
        return False
    return abs(Fraction(obs) - want) <= rel * abs(want)


def _all_close(obs, want, rel):
    return len(obs) == len(want) and all(_close(o, w, rel) for o, w in zip(obs, want))


# ---------------------------------------------------------------------------- naming an unexpected exception
_MINIMAL = {}


def _neutralise(feature, args, kw):
    """The same call without one unusual feature (None if the feature cannot be taken away)."""
    kw = dict(kw)
    f64 = lambda v: v.to(dtype='float64') if isinstance(v, sc.Variable) else v  # noqa: E731
    if feature.startswith('int64 '):
        name = feature.split()[1]
        if name in kw:
            kw[name] = f64(kw[name])
        elif args:
            args = tuple(f64(a) for a in args)
        else:
            return None
        if name in ('Lmin', 'Lmax'):
            for other in ('Lmin', 'Lmax'):
                if other in kw:
                    kw[other] = f64(kw[other])
    elif feature == 'float32 operands':
        args, kw = tuple(f64(a) for a in args), {k: f64(v) for k, v in kw.items()}
    elif feature == 'Lmin defaulted':
        kw['Lmin'] = kw['Lmax'] * 0
    elif feature == 'lambda_max not given':
        kw['lambda_max'] = kw['lambda_min'] * 2
    elif feature == 'Lmax not in m':
        for name in ('Lmin', 'Lmax'):
            if name in kw:
                kw[name] = kw[name].to(unit='m', dtype='float64').to(dtype=kw[name].dtype)
    else:
        return None
    return args, kw


def _minimal_features(rp, method, args, kw, exc_type, feats):
    """Drop the features of a failing call that are not needed for the failure (greedy).  This calls the
    implementation, but only to give the finding - which is already established - a specific, stable key."""
    memo = (method, exc_type.__name__, tuple(feats))
    if memo in _MINIMAL:
        return _MINIMAL[memo]
    from matplotlib.figure import Figure
    from scippneutron.tof import TimeDistanceDiagram

    def raises(a, k):
        fig = Figure()
        try:
            d = TimeDistanceDiagram(fig.add_subplot(), tmax=sc.scalar(float(rp.t(max(rp.tmax, 1)) * rp.t_axis / TIME['ms']), unit='ms'),
                                    frame_rate=sc.scalar(float(rp.scale.rate), unit='Hz'))
            getattr(d, method)(*a, **k)
            return False
        except exc_type:
            return True
        except Exception:  # noqa: BLE001
            return False
        finally:
            fig.clear()

    keep = list(feats)
    try:
        if raises(args, kw):                      # reproducible on a fresh diagram at all
            for f in list(feats):
                trial = _neutralise(f, args, kw)
                if trial is not None and raises(*trial):
                    args, kw = trial
                    keep.remove(f)
    except Exception:  # noqa: BLE001
        keep = list(feats)
    _MINIMAL[memo] = keep
    return keep


# ---------------------------------------------------------------------------- one replayed diagram
class Replay:
    def __init__(self, ctx, rec, idx, source):
        self.ctx, self.idx, self.source = ctx, idx, source
        _, self.tmax, self.ops, self.drawn = rec
        rng = self.rng = ctx.rng
        self.flavour = rng.choice(['plain', 'plain', 'units', 'units', 'units', 'f32', 'f32', 'int', 'int', 'int'])
        rate = rng.choice([4, 8, 16, 32])
        if rng.random() < 0.5:
            self.scale = Scale(rate, 'distance', rng.choice([Fraction(1), Fraction(5, 2), Fraction(10), Fraction(1, 2)]))
        else:
            self.scale = Scale(rate, 'wavelength', rng.choice([Fraction(1, 4), Fraction(1, 2), Fraction(1), Fraction(2)]))
        self.rel = REL32 if self.flavour == 'f32' else REL64
        self.t_axis, self.d_axis = TIME['ms'], LENGTH['m']       # replaced by what the axis labels say
        self.desc = {'tmax_ticks': self.tmax, 'calls': self.ops, 'flavour': self.flavour, 'source': source,
                     **self.scale.describe()}
        self.keep = []                                            # keeps every artist alive (ids stay unique)

    # ---- reporting
    def finding(self, key, extra=None):
        self.ctx.growth_finding(key, {**self.desc, **(extra or {})})

    # ---- model -> axis units
    def t(self, ticks):
        return Fraction(ticks) * self.scale.tick_s / self.t_axis

    def d(self, units):
        return Fraction(units) * self.scale.d0_m / self.d_axis

    def time_op(self, ticks, **kw):
        return _operand(self.rng, Fraction(ticks) * self.scale.tick_s, 'time', self.flavour, **kw)

    def dist_op(self, units, **kw):
        return _operand(self.rng, Fraction(units) * self.scale.d0_m, 'distance', self.flavour, **kw)

    def wave_op(self, w, **kw):
        return _operand(self.rng, Fraction(w) * self.scale.lam0_m, 'wavelength', self.flavour, **kw)

    # ---- construction
    def build(self):
        from matplotlib.backends.backend_agg import FigureCanvasAgg
        from matplotlib.figure import Figure
        from scippneutron.tof import TimeDistanceDiagram

        rng = self.rng
        self.fig = Figure()
        FigureCanvasAgg(self.fig)
        self.ax = self.fig.add_subplot()
        boundary = self.tmax > 0 and self.tmax % F_TICKS == 0
        which_int = rng.choice(['tmax', 'frame_rate', 'none']) if self.flavour == 'int' else 'none'
        tmax_v, self.tmax_info = self.time_op(self.tmax, as_int=which_int == 'tmax', exact=boundary)
        if which_int == 'frame_rate':
            rate_v, rinfo = sc.scalar(self.scale.rate, unit='Hz', dtype='int64'), {'dtype': 'int64'}
        else:
            dt = 'float32' if self.flavour == 'f32' else 'float64'
            rate_v, rinfo = sc.scalar(float(self.scale.rate), unit='Hz', dtype=dt), {'dtype': dt}
        self.desc['constructor'] = {'tmax': self.tmax_info, 'frame_rate': rinfo}
        feats = [f'{i["dtype"]} {n}' for n, i in (('tmax', self.tmax_info), ('frame_rate', rinfo)) if i['dtype'] != 'float64']
        try:
            self.diagram = TimeDistanceDiagram(self.ax, tmax=tmax_v, frame_rate=rate_v)
        except Exception as e:  # noqa: BLE001
            self.finding(f'{PRE}(ax, tmax, frame_rate) raised {type(e).__name__} [{", ".join(sorted(feats)) or "float64 operands"}]',
                         {'exc': repr(e)[:300]})
            return False
        # the documented meaning of the axes
        xl, yl = self.ax.get_xlabel(), self.ax.get_ylabel()
        mx, my = re.search(r'\[(.*?)\]', xl or ''), re.search(r'\[(.*?)\]', yl or '')
        if xl != 'time [ms]' or yl != 'distance [m]':
            self.finding(f'{PRE}: axis labels are not "time [ms]" / "distance [m]"', {'xlabel': xl, 'ylabel': yl})
        if mx and mx.group(1) in TIME:
            self.t_axis = TIME[mx.group(1)]
        if my and my.group(1) in LENGTH:
            self.d_axis = LENGTH[my.group(1)]
        try:
            fl = self.diagram.frame_length
            got = Fraction(float(fl.to(unit='s', dtype='float64').value))
            if abs(got - F_TICKS * self.scale.tick_s) > self.rel * F_TICKS * self.scale.tick_s:
                self.finding(f'{PRE}.frame_length is not 1 / frame_rate', {'got': str(fl)})
        except Exception as e:  # noqa: BLE001
            self.finding(f'{PRE}.frame_length raised {type(e).__name__}', {'exc': repr(e)[:300]})
        self.seen = {}
        self._register()
        return True

    def _register(self, method=None):
        """Read the Axes once: objects of earlier calls must be untouched; returns the new objects."""
        new = []
        now = {}
        for obj, snap in _read_axes(self.ax):
            now[id(obj)] = snap
            if id(obj) not in self.seen:
                self.seen[id(obj)] = snap
                self.keep.append(obj)
                new.append(snap)
        if method is not None:
            for oid, snap in self.seen.items():
                if repr(now.get(oid)) != repr(snap):            # repr: a NaN equals itself
                    self.finding(f'{PRE}.{method}: an object drawn by an earlier call was changed or removed',
                                 {**self.desc_call, 'before': snap, 'after': now.get(oid)})
                    self.seen[oid] = now.get(oid, snap)
        return new

    def close(self):
        try:
            self.fig.clear()
        except Exception:  # noqa: BLE001
            pass
        self.keep.clear()
        self.fig = self.ax = self.diagram = None

    # ---- one call
    def step(self, k):
        op, group = self.ops[k], self.drawn[k]
        kind = op[0]
        method, (args, kw), expected, feats, info = getattr(self, '_' + kind)(k, op, group)
        self.desc_call = {'call_index': k, 'call': op, 'operands': info}
        try:
            getattr(self.diagram, method)(*args, **kw)
        except Exception as e:  # noqa: BLE001
            feats = _minimal_features(self, method, args, kw, type(e), sorted(feats))
            self.finding(f'{PRE}.{method} raised {type(e).__name__} [{", ".join(feats) or "float64 operands"}]',
                         {**self.desc_call, 'exc': repr(e)[:300]})
            self._register(method)
            return
        new = self._register(method)
        self._compare(method, new, expected)

    # ---- the calls with their expected objects
    def _pick_int(self, names):
        return self.rng.choice(names) if self.flavour == 'int' else None

    def _feats(self, info, extra=()):
        if self.flavour == 'f32':
            return ['float32 operands', *extra]
        return [f'int64 {n}' for n, i in info.items() if i and i.get('dtype') == 'int64'] + list(extra)

    def _AddSourcePulse(self, k, op, group):
        p = op[1]
        pv, pinfo = self.time_op(p, as_int=self._pick_int(['pulse_length', None]) == 'pulse_length')
        style = self.rng.randrange(2)
        call = ((pv,), {}) if style else ((), {'pulse_length': pv})
        exp = []
        shifts = _int_ms_candidates(pinfo)
        for a in group:
            if a[0] == 'rect':
                e = Exp('rect', [self.t(a[1]), self.t(a[2])], [Fraction(a[3]), Fraction(a[4])])
                for s in shifts:
                    e.xalts.append((f'{PRE}.add_source_pulse: integer-typed pulse_length in a unit finer than ms is rounded to whole ms',
                                    [e.xs[0], e.xs[1] + s * TIME['ms'] / self.t_axis]))
                exp.append(e)
            elif a[0] == 'vline':
                exp.append(Exp('vline', [self.t(a[1])], []))
            elif a[0] == 'pulselabel':
                exp.append(Exp('caption', [], [], text=Fraction(a[1]) * self.scale.tick_s))
        info = {'pulse_length': pinfo}
        return 'add_source_pulse', call, exp, self._feats(info), info

    def _AddNeutron(self, k, op, group):
        _, off, lam, L, labelled = op
        which = self._pick_int(['time_offset', 'wavelength', 'L', None])
        ov, oinfo = self.time_op(off, as_int=which == 'time_offset')
        wv, winfo = self.wave_op(lam, as_int=which == 'wavelength')
        lv, linfo = self.dist_op(L, as_int=which == 'L')
        label = f'n{k}' if labelled else None
        kw = {'time_offset': ov, 'wavelength': wv, 'L': lv}
        if label is not None:
            kw['label'] = label
        call = ((), kw)
        shifts = [s * TIME['ms'] / self.t_axis for s in _int_ms_candidates(oinfo)]
        k_int = f'{PRE}.add_neutron: integer-typed time_offset in a unit finer than ms is rounded to whole ms'
        k_raw = f'{PRE}.add_neutron: distance drawn in the unit it was given in, axis is in m'
        exp = []
        for a in group:
            if a[0] == 'worldline':
                e = Exp('worldline', [self.t(a[1]), self.t(a[3])], [self.d(a[2]), self.d(a[4])])
                raw = _raw(linfo, [Fraction(a[2]) * self.scale.d0_m, Fraction(a[4]) * self.scale.d0_m])
            else:
                e = Exp('nlabel', [self.t(a[1])], [self.d(a[2])], text=label)
                raw = _raw(linfo, [Fraction(a[2]) * self.scale.d0_m])
                k_lab = f'{PRE}.add_neutron: label anchored at the time of flight without the time offset, off the worldline'
                if off != 0:
                    e.xalts.append((k_lab, [self.t(a[1] - off)]))
            for s in shifts:
                e.xalts.append((k_int, [x + s for x in e.xs]))
            if raw is not None:
                e.yalts.append((k_raw, raw))
            exp.append(e)
        info = {'time_offset': oinfo, 'wavelength': winfo, 'L': linfo}
        return 'add_neutron', call, exp, self._feats(info), info

    def _AddNeutrons(self, k, op, group):
        _, lmin, lmax, Lmin, Lmax, off, stride, frames = op
        rng = self.rng
        which = self._pick_int(['time_offset', 'lambda_min', 'lambda_max', 'Lmin', 'Lmax', None])
        ov, oinfo = self.time_op(off, as_int=which == 'time_offset')
        w1, w1info = self.wave_op(lmin, as_int=which == 'lambda_min')
        kw = {'lambda_min': w1, 'time_offset': ov}
        info = {'time_offset': oinfo, 'lambda_min': w1info}
        extra = []
        if lmax != 0:
            kw['lambda_max'], info['lambda_max'] = self.wave_op(lmax, as_int=which == 'lambda_max')
        else:
            extra.append('lambda_max not given')
        omit_lmin = Lmin == 0 and rng.random() < 0.4          # "The default is at 0.0, i.e., the source position"
        # one unit and one dtype for both ends (scipp refuses arithmetic between different units by convention)
        both = [Fraction(Lmax) * self.scale.d0_m] + ([] if omit_lmin else [Fraction(Lmin) * self.scale.d0_m])
        int_units = [u for u in INT_UNITS['distance'] if all((v / LENGTH[u]).denominator == 1 and v / LENGTH[u] < 2**31 for v in both)]
        if which in ('Lmin', 'Lmax') and int_units:
            u = rng.choice(int_units)
            as_int = True
        else:
            u = 'm' if self.flavour in ('plain', 'int') else rng.choice(DIST_UNITS)
            as_int = False
        l2, l2info = self.dist_op(Lmax, as_int=as_int, unit=u)
        kw['Lmax'], info['Lmax'] = l2, l2info
        if not omit_lmin:
            kw['Lmin'], info['Lmin'] = self.dist_op(Lmin, as_int=as_int, unit=u)
        else:
            extra.append('Lmin defaulted')
            if u != 'm':
                extra.append('Lmax not in m')
        if not (stride == 1 and rng.random() < 0.5):
            kw['stride'] = stride
        if not (frames == 2 and rng.random() < 0.5):
            kw['frames'] = frames
        call = ((), kw)
        shifts = [s * TIME['ms'] / self.t_axis for s in _int_ms_candidates(oinfo)]
        k_int = f'{PRE}.add_neutrons: integer-typed time_offset in a unit finer than ms is rounded to whole ms'
        k_raw = f'{PRE}.add_neutrons: distance drawn in the unit it was given in, axis is in m'
        exp = []
        for a in group:
            pts = a[1:5]
            auto, limit = a[5], a[6]
            e = Exp('band', [self.t(p[0]) for p in pts], [self.d(p[1]) for p in pts], limit=self.t(limit) if auto else None)
            for s in shifts:
                e.xalts.append((k_int, [x + s for x in e.xs], None if e.limit is None else e.limit + s))
            raw = _raw(l2info, [Fraction(p[1]) * self.scale.d0_m for p in pts])
            if raw is not None:
                e.yalts.append((k_raw, raw))
            exp.append(e)
        return 'add_neutrons', call, exp, self._feats(info, extra), info

    def _component(self, method, k, op, group, name):
        dist = op[1]
        dv, dinfo = self.dist_op(dist, as_int=self._pick_int(['distance', None]) == 'distance')
        kw = {'distance': dv}
        if method == 'add_detector' and name is not None:
            kw['name'] = name
        call = ((), kw)
        tm_shifts = _int_ms_candidates(self.tmax_info)
        k_raw = f'{PRE}.{method}: distance drawn in the unit it was given in, axis is in m'
        k_int = f'{PRE}(tmax): integer-typed tmax in a unit finer than ms is rounded to whole ms'
        raw = _raw(dinfo, [Fraction(dist) * self.scale.d0_m])
        exp = []
        for a in group:
            if a[0] == 'hline':
                e = Exp('hline', [self.t(a[2]), self.t(a[3])], [self.d(a[4])])
                for s in tm_shifts:
                    e.xalts.append((k_int, [e.xs[0], e.xs[1] + s * TIME['ms'] / self.t_axis]))
            else:
                e = Exp('hlabel', [], [self.d(a[3])], text=name if method == 'add_detector' else None)
                if method == 'add_detector' and name is None:
                    e.text = 'detector'          # the default of the `name` parameter
            if raw is not None:
                e.yalts.append((k_raw, raw))
            exp.append(e)
        info = {'distance': dinfo}
        return method, call, exp, self._feats(info), info

    def _AddDetector(self, k, op, group):
        return self._component('add_detector', k, op, group, f'det{k}' if self.rng.random() < 0.7 else None)

    def _AddSample(self, k, op, group):
        return self._component('add_sample', k, op, group, None)

    # ---- comparison of the objects a call added with its expected group
    def _compare(self, method, new, expected):
        rel = self.rel
        geo_kinds = ('rect', 'vline', 'worldline', 'band', 'hline')
        texts = [s for s in new if s[0] == 'text']
        for s in new:
            if s[0].startswith('other'):
                self.finding(f'{PRE}.{method}: draws an object of an unexpected type', {**self.desc_call, 'object': s})
        for kind in geo_kinds:
            obs = sorted((s for s in new if s[0] == kind), key=lambda s: (s[1], s[2]))
            exp = sorted((e for e in expected if e.kind == kind), key=lambda e: (e.xs, e.ys))
            if len(obs) != len(exp):
                what = {'rect': 'source-pulse rectangles', 'vline': 'frame lines', 'worldline': 'neutron lines',
                        'band': 'band polygons', 'hline': 'component lines'}[kind]
                self.finding(f'{PRE}.{method}: number of drawn {what} differs from the specification',
                             {**self.desc_call, 'drawn': len(obs), 'specified': len(exp),
                              'objects': [s[1:3] for s in obs][:6]})
                continue
            for o, e in zip(obs, exp):
                self._compare_one(method, o, e, rel)
        # captions and labels: only what they assert
        for e in expected:
            if e.kind == 'caption':
                for s in texts:
                    m = re.search(r'\(\s*([-+0-9.eE]+)\s*([^\s()]+)\s*\)', s[3] or '')
                    if not m:
                        continue
                    try:
                        val = Fraction(float(m.group(1)))
                        unit = sc.Unit(m.group(2))
                        fac = Fraction(float(sc.scalar(1.0, unit=unit).to(unit='ns').value)) * TIME['ns']
                    except Exception:  # noqa: BLE001
                        continue
                    if abs(val * fac - e.text) > max(rel, Fraction(1, 10**9)) * e.text:
                        self.finding(f'{PRE}.{method}: the caption states a different pulse length',
                                     {**self.desc_call, 'caption': s[3]})
            elif e.kind == 'nlabel':
                mine = [s for s in texts if s[3] == e.text]
                if len(mine) != 1:
                    self.finding(f'{PRE}.{method}: the label of the neutron is not drawn exactly once',
                                 {**self.desc_call, 'texts': [s[3] for s in texts]})
                else:
                    self._compare_one(method, ('nlabel', mine[0][1], mine[0][2], None), e, rel)
            elif e.kind == 'hlabel':
                mine = [s for s in texts if e.text is None or s[3] == e.text]
                if e.text is not None and len(mine) != 1:
                    self.finding(f'{PRE}.{method}: the name of the component is not drawn exactly once',
                                 {**self.desc_call, 'texts': [s[3] for s in texts]})
                for s in mine:
                    self._compare_one(method, ('hlabel', (), s[2], None), e, rel)

    def _compare_one(self, method, obs, e, rel):
        kind = e.kind
        noun = {'rect': 'source-pulse rectangle', 'vline': 'frame line', 'worldline': 'neutron line', 'band': 'band',
                'hline': 'component line', 'nlabel': 'neutron label', 'hlabel': 'component label'}[kind]
        oxs, oys = obs[1], obs[2]
        if kind == 'band':
            can = _canonical_band(obs)
            if can is None:
                self.finding(f'{PRE}.{method}: a band is not drawn as a quadrilateral with finite vertices', {**self.desc_call, 'drawn': obs[1:3]})
                return
            oxs, oys, convex = can
            if not convex:
                self.finding(f'{PRE}.{method}: a band polygon is not convex', {**self.desc_call, 'drawn': obs[1:3]})

        def x_ok(xs, limit):
            if kind != 'band' or limit is None:
                return _all_close(oxs, xs, rel)
            # lambda_max not given: the slow edge is only required to avoid overlap with the next band
            if not (_close(oxs[0], xs[0], rel) and _close(oxs[1], xs[1], rel) and _close(oxs[3], xs[3], rel)):
                return False
            slow = Fraction(oxs[2]) if math.isfinite(oxs[2]) else None
            return slow is not None and slow > xs[3] * (1 + rel) and slow <= limit * (1 + rel)

        detail = {**self.desc_call, 'object': noun, 'drawn': [list(oxs), list(oys)],
                  'specified': [[float(v) for v in e.xs], [float(v) for v in e.ys]]}
        if e.limit is not None:
            detail['slow_edge_limit'] = float(e.limit)
        if not x_ok(e.xs, e.limit):
            for alt in e.xalts:
                if x_ok(alt[1], alt[2] if len(alt) > 2 else e.limit):
                    self.finding(alt[0], detail)
                    break
            else:
                if kind == 'band' and e.limit is not None and _close(oxs[3], e.xs[3], rel) and _close(oxs[0], e.xs[0], rel):
                    self.finding(f'{PRE}.{method}: lambda_max not given, but the slow edge of a band overlaps the next band at '
                                 'Lmax (or is not after the fast edge)', detail)
                else:
                    self.finding(f'{PRE}.{method}: {noun} drawn at a different time than specified', detail)
        if not _all_close(oys, e.ys, rel):
            for key, ys in e.yalts:
                if _all_close(oys, ys, rel):
                    self.finding(key, detail)
                    break
            else:
                self.finding(f'{PRE}.{method}: {noun} drawn at a different distance than specified', detail)


def _replay_diagrams(ctx, chosen):
    ncalls = 0
    for idx, rec, source in chosen:
        rp = Replay(ctx, rec, idx, source)
        try:
            if rp.build():
                for k in range(len(rp.ops)):
                    rp.step(k)
                    ncalls += 1
        finally:
            rp.close()
        ctx.case(nontrivial_id=('diagram', idx))
    ctx.extra['diagram_behaviours_replayed'] = ctx.extra.get('diagram_behaviours_replayed', 0) + len(chosen)
    ctx.extra['diagram_calls_replayed'] = ctx.extra.get('diagram_calls_replayed', 0) + ncalls


def _diagram_walks(ctx, par, jobs):
    """Random walks of six calls on the larger grid (-simulate)."""
    sim = par.join(jobs['sim'])
    require_ok(ctx, sim, 'Growth_TimeDistance random walks')
    walks = sim.tagged('DIAGRAM')
    m = re.findall(r'(\d+) states checked', sim.out)
    if m:
        ctx.extra['diagram_simulated_states'] = int(m[-1])
    if len(walks) < 50:
        raise MachineryError(f'only {len(walks)} walks exported')
    t0 = time.time()
    _replay_diagrams(ctx, [(10**6 + i, r, 'random walk') for i, r in enumerate(walks)])
    ctx.extra['diagram_python_s'] = round(ctx.extra.get('diagram_python_s', 0) + time.time() - t0, 1)
    ctx.sample({'diagram': {'tmax': walks[-1][1], 'calls': walks[-1][2], 'objects': walks[-1][3]}})


def _diagram_pairs(ctx, par, jobs):
    """Every diagram of two calls of the quick grid (exhaustive model); a seed-dependent sample is replayed."""
    res = par.join(jobs['mc'])
    require_ok(ctx, res, 'Growth_TimeDistance model')
    pairs = res.tagged('DIAGRAM')
    if len(pairs) < 5000:
        raise MachineryError(f'only {len(pairs)} two-call diagrams exported')
    step = max(1, len(pairs) // (2000 if ctx.thorough else 100))
    t0 = time.time()
    _replay_diagrams(ctx, [(i, r, 'exhaustive two-call model') for i, r in enumerate(pairs) if i % step == ctx.seed % step])
    ctx.extra['diagram_python_s'] = round(ctx.extra.get('diagram_python_s', 0) + time.time() - t0, 1)


# ============================================================================ Part B: beamline components
GEOMETRIES = [
    # every given coordinate has its own value; derived lengths are whole numbers (3-4-5, 5-12-13, 9-12-15)
    {'unit': 'm', 'npix': 2,
     'source_position': (1, 2, 3), 'sample_position': (1, 2, 7),
     'position': [(13, 2, 12), (1, 5, 7)],
     'incident_beam': (0, 6, 8), 'scattered_beam': [(8, 0, 6), (0, 0, 2)],
     'L1': 21, 'L2': [22, 23], 'Ltotal': [41, 47], 'two_theta': [Fraction(1, 4), Fraction(1, 2)]},
    # beam along x; pixels: general, at right angle, exactly backwards (pi), exactly forwards (0)
    {'unit': 'mm', 'npix': 4,
     'source_position': (-2, 5, -7), 'sample_position': (6, 5, -7),
     'position': [(16, 29, -7), (6, 5, -1), (3, 5, -7), (10, 5, -7)],
     'incident_beam': (0, 0, -9), 'scattered_beam': [(3, 4, 0), (6, 8, 0), (0, 5, 12), (1, 0, 0)],
     'L1': 50, 'L2': [51, 52, 53, 54], 'Ltotal': [200, 201, 202, 203],
     'two_theta': [Fraction(1, 8), Fraction(1, 4), Fraction(3, 8), Fraction(1, 2)]},
]
VECTORS = {'position', 'source_position', 'sample_position', 'incident_beam', 'scattered_beam'}
PER_PIXEL = {'position', 'scattered_beam', 'L2', 'Ltotal', 'two_theta'}


def _coord(geo, name):
    v = geo[name]
    unit = 'rad' if name == 'two_theta' else geo['unit']
    if name in VECTORS:
        if name in PER_PIXEL:
            return sc.vectors(dims=['spectrum'], values=np.asarray(v, dtype='float64'), unit=unit)
        return sc.vector(np.asarray(v, dtype='float64'), unit=unit)
    if name in PER_PIXEL:
        return sc.array(dims=['spectrum'], values=[float(x) for x in v], unit=unit)
    return sc.scalar(float(v), unit=unit)


def _eval(term, geo):
    """Exact value of a term: ('vec' | 'num' | 'ang', per pixel?, [values])."""
    op = term[0]
    if op == 'given':
        name = term[1]
        v = geo[name]
        kind = 'vec' if name in VECTORS else 'ang' if name == 'two_theta' else 'num'
        if name in PER_PIXEL:
            return kind, True, [tuple(Fraction(c) for c in x) if kind == 'vec' else Fraction(x) for x in v]
        return kind, False, [tuple(Fraction(c) for c in v) if kind == 'vec' else Fraction(v)]
    args = [_eval(t, geo) for t in term[1:]]
    pix = any(a[1] for a in args)
    n = geo['npix'] if pix else 1

    def at(a, i):
        return a[2][i] if a[1] else a[2][0]

    if op == 'sub':
        return 'vec', pix, [tuple(p - q for p, q in zip(at(args[0], i), at(args[1], i))) for i in range(n)]
    if op == 'add':
        return 'num', pix, [at(args[0], i) + at(args[1], i) for i in range(n)]
    if op == 'norm':
        out = []
        for i in range(n):
            s = sum(c * c for c in at(args[0], i))
            r = Fraction(math.isqrt(s.numerator), math.isqrt(s.denominator))
            out.append(r if r * r == s else mpmath.sqrt(mpf(s)))
        return 'num', pix, out
    if op == 'angle':
        out = []
        for i in range(n):
            a, b = at(args[0], i), at(args[1], i)
            na = mpmath.sqrt(mpf(sum(c * c for c in a)))
            nb = mpmath.sqrt(mpf(sum(c * c for c in b)))
            ua = [mpf(c) / na for c in a]
            ub = [mpf(c) / nb for c in b]
            y = mpmath.sqrt(sum((p - q) ** 2 for p, q in zip(ua, ub)))
            x = mpmath.sqrt(sum((p + q) ** 2 for p, q in zip(ua, ub)))
            out.append(2 * mpmath.atan2(y, x))
        return 'ang', pix, out
    raise MachineryError(f'unknown term {term}')


def _value_matches(res, want, geo):
    """The Variable `res` holds the exact value `want`?  -> None or a description of the difference."""
    kind, pix, vals = want
    if not isinstance(res, sc.Variable):
        return f'result is a {type(res).__name__}'
    if res.dims != (('spectrum',) if pix else ()):
        return f'dims {res.dims}'
    unit = 'rad' if kind == 'ang' else geo['unit']
    if res.unit != sc.Unit(unit):
        return f'unit {res.unit}'
    if (res.dtype == sc.DType.vector3) != (kind == 'vec'):
        return f'dtype {res.dtype}'
    arr = np.asarray(res.values, dtype='float64')
    arr = arr.reshape((len(vals), 3) if kind == 'vec' else (len(vals),))
    for i, v in enumerate(vals):
        if kind == 'vec':
            if any(Fraction(float(arr[i, j])) != v[j] for j in range(3)):
                return f'vector {arr[i].tolist()} instead of {[float(c) for c in v]}'
        elif kind == 'num':
            w = mpf(v)
            if not math.isfinite(arr[i]) or abs(mpmath.mpf(float(arr[i])) - w) > mpmath.mpf('1e-15') * abs(w):
                return f'length {float(arr[i])!r} instead of {float(w)!r}'
        else:
            w = mpf(v)
            if not math.isfinite(arr[i]) or abs(mpmath.mpf(float(arr[i])) - w) > mpmath.mpf('1e-14'):
                return f'angle {float(arr[i])!r} instead of {float(w)!r}'
    return None


def _containers(geo, present, variant):
    coords = {c: _coord(geo, c) for c in sorted(present)}
    n = geo['npix']
    if variant % 2:
        data = sc.array(dims=['spectrum', 'tof'], values=np.arange(3.0 * n).reshape(n, 3), unit='counts')
    else:
        data = sc.array(dims=['spectrum'], values=np.arange(1.0, n + 1), unit='counts')
    da = sc.DataArray(data, coords=coords)
    if variant % 3 == 0:
        da.masks['m'] = sc.array(dims=['spectrum'], values=[i % 2 == 0 for i in range(n)])
    return {'DataArray': da,
            'Dataset (one item)': sc.Dataset({'a': da.copy()}),
            'Dataset (two items)': sc.Dataset({'a': da.copy(), 'b': da.copy() * 2.0})}


def _components_part(ctx, par, jobs):
    from scippneutron import beamline_components as bc
    import scippneutron as scn

    res = par.join(jobs['emit'])
    require_ok(ctx, res, 'Growth_Components emit')
    cases = res.tagged('COMP')
    if len(cases) != 5120:
        raise MachineryError(f'{len(cases)} component cases exported, expected 5120')
    t0 = time.time()
    part = 1 if ctx.thorough else 5
    tally = {'given': 0, 'derived': 0, 'refused': 0}
    ncalls = 0
    for idx, (_, pset, target, scatter, outcome, answer) in enumerate(cases):
        if idx % part != ctx.seed % part:
            continue
        present = set(pset['$set'])
        geo = GEOMETRIES[idx % len(GEOMETRIES)]
        tally[outcome] += 1
        fn = getattr(bc, target, None)
        call_name = f'{target}(scatter={scatter})' if target == 'Ltotal' else target
        desc = {'present': sorted(present), 'call': call_name, 'specified': outcome, 'term': answer, 'geometry_unit': geo['unit']}
        if fn is None or getattr(scn, target, None) is not fn:
            ctx.growth_finding(f'beamline_components.{target} is not available as scippneutron.{target}', desc)
            continue
        want = None if outcome == 'refused' else _eval(answer, geo)
        results = {}
        devs = {}                                   # deviation -> (containers, detail)

        def dev(what, cname, extra=None):
            devs.setdefault(what, ([], {**desc, **(extra or {})}))[0].append(cname)

        conts = _containers(geo, present, idx)
        for cname, obj in conts.items():
            before = obj.copy()
            names_before = list(obj.coords.keys())
            ncalls += 1
            try:
                out = fn(obj, scatter=scatter) if target == 'Ltotal' else fn(obj)
                exc = None
            except Exception as e:  # noqa: BLE001
                out, exc = None, e
            try:
                same = bool(sc.identical(before, obj)) and list(obj.coords.keys()) == names_before
            except Exception:  # noqa: BLE001
                same = False
            if not same:
                dev('the input object is modified by the call', cname,
                    {'coords_before': names_before, 'coords_after': list(obj.coords.keys())})
            if outcome == 'refused':
                if exc is None:
                    dev('returns a value although the coordinate is neither present nor derivable', cname, {'returned': repr(out)[:200]})
                continue
            if exc is not None:
                dev(f'raised {type(exc).__name__} although the coordinate is '
                    f'{"present" if outcome == "given" else "derivable from the coordinates present"}', cname, {'exc': repr(exc)[:300]})
                continue
            results[cname] = out
            if outcome == 'given':
                try:
                    asis = bool(sc.identical(out, before.coords[target]))
                except Exception:  # noqa: BLE001
                    asis = False
                if not asis:
                    dev('a coordinate that is present is not returned as it is', cname, {'returned': repr(out)[:200]})
                    continue
            diff = _value_matches(out, want, geo)
            if diff is not None:
                dev(f'value differs from the specified {"coordinate" if outcome == "given" else "derivation (" + answer[0] + ")"}',
                    cname, {'difference': diff})
        ref = results.get('DataArray')
        for cname, out in results.items():
            if ref is not None and cname != 'DataArray':
                try:
                    same = bool(sc.identical(ref, out))
                except Exception:  # noqa: BLE001
                    same = False
                if not same:
                    dev('the answer differs from the answer for the DataArray', cname)
        for what, (where, detail) in devs.items():
            on = 'DataArray and Dataset' if len(where) == len(conts) else ' and '.join(where)
            ctx.growth_finding(f'beamline_components.{call_name} on {on}: {what}', detail)
        ctx.case(nontrivial_id=('component', idx) if outcome != 'refused' or present else None)
    # a DataGroup is not among the documented inputs: recorded, not judged
    try:
        geo = GEOMETRIES[0]
        dg = sc.DataGroup({'a': _containers(geo, {'position', 'source_position', 'sample_position'}, 0)['DataArray']})
        try:
            bc.L1(dg)
            ctx.extra['components_datagroup'] = 'accepted'
        except Exception as e:  # noqa: BLE001
            ctx.extra['components_datagroup'] = f'refused with {type(e).__name__}'
    except Exception:  # noqa: BLE001
        pass
    ctx.extra['components_cases_replayed'] = sum(tally.values())
    ctx.extra['components_calls_replayed'] = ncalls
    ctx.extra['components_outcomes'] = tally
    ctx.extra['components_python_s'] = round(time.time() - t0, 1)
    mid = cases[len(cases) // 2]
    ctx.sample({'component_case': {'present': mid[1]['$set'], 'call': mid[2], 'scatter': mid[3], 'outcome': mid[4], 'term': mid[5]}})
    require_ok(ctx, par.join(jobs['mc']), 'Growth_Components model')


# ============================================================================ entry point
A_BUGS = ('frames_le', 'gap', 'stride_ignored', 'band_min_both', 'offset_dropped', 'rect_up')
B_BUGS = ('keep_on_input', 'scatter_ignored', 'recompute')


def run(ctx):
    check_constants()
    t0 = time.time()
    ctx.assume('growth/diagram: axes as labelled (time [ms], distance [m]); frame rates 4..32 Hz (dyadic frame lengths); '
               'tmax on a frame boundary only in a form that converts to ms without rounding; without lambda_max only '
               '"no overlap with the next band at Lmax" is demanded of the slow edge; Lmin and Lmax share one unit')
    ctx.assume('growth/components: a refusal is any exception; DataGroup input is not judged')
    th = ctx.thorough
    mcA, mcB = 'tof/Growth_MC_TimeDistance.tla', 'conv/Growth_MC_Components.tla'
    par = _Par(ctx)
    try:
        # first wave: the three runs that export behaviours (one worker each)
        ja = {'sim': par.start(mcA, 'Growth_MC_TimeDistance_sim.cfg', workers=1, timeout=600,
                               simulate=f'num={2000 if th else 75}', depth=7, extra=['-seed', str(ctx.seed + 6)]),
              'mc': par.start(mcA, 'Growth_MC_TimeDistance.cfg', workers=1, timeout=600)}
        jb = {'emit': par.start(mcB, 'Growth_MC_Components_emit.cfg', workers=1, timeout=600, count=False)}
        # negative controls: quick runs two of part A and one of part B, chosen by the seed; thorough all
        a_bugs = A_BUGS if th else tuple(A_BUGS[(ctx.seed + i) % len(A_BUGS)] for i in (0, 3))
        b_bugs = B_BUGS if th else (B_BUGS[ctx.seed % len(B_BUGS)],)
        _diagram_walks(ctx, par, ja)
        # second wave while Python replays: exhaustive models without export, negative controls
        par.join(jb['emit'])
        jb['mc'] = par.start(mcB, 'Growth_MC_Components.cfg', workers=2, timeout=600)
        for b in b_bugs:
            par.start(mcB, f'Growth_Neg_Components_{b}.cfg', workers=1, expect_error=True, timeout=300)
        _components_part(ctx, par, jb)
        par.join(ja['mc'])
        if th:
            ja['thorough'] = par.start(mcA, 'Growth_MC_TimeDistance_thorough.cfg', workers=2, timeout=900)
            ja['deep'] = par.start(mcA, 'Growth_MC_TimeDistance_deep.cfg', workers=2, timeout=900)
        for b in a_bugs:
            par.start(mcA, f'Growth_Neg_TimeDistance_{b}.cfg', workers=1, expect_error=True, timeout=300)
        _diagram_pairs(ctx, par, ja)
        if th:
            require_ok(ctx, par.join(ja['thorough']), 'Growth_TimeDistance thorough model')
            require_ok(ctx, par.join(ja['deep']), 'Growth_TimeDistance three-call model')
    finally:
        par.join_all()          # never leave a TLC process behind; negative controls must have been rejected
    ctx.extra['growth_diagram_wall_s'] = round(time.time() - t0, 1)
