SPECIFICATION Spec
CONSTANTS
  Universe <- UQ
  ArgSeq <- ArgsQ
  MaxSteps = 2
  LibKnown <- LibQ
  Bug = "case_sensitive"
  Export = FALSE
INVARIANT CaseInsensitive
CHECK_DEADLOCK FALSE
