SPECIFICATION Spec
CONSTANTS
  Universe <- MC_UniverseSmall
  MaxHist = 3
  Bug = "none"
INVARIANT SameAsDeclarative
INVARIANT NeverAnotherRow
INVARIANT MassOnlyForIsotopes
INVARIANT CacheFaithful
CHECK_DEADLOCK FALSE
