SPECIFICATION Spec
CONSTANTS
  MaxEvents = 3
  Shapes <- MC_ShapesQuick
  FullPermBins = 4
  MaxCalls = 1
  Bug = "column_geometry"
INVARIANT ResultPerEvent
