from .. import lib_growth_filehandles


def run(ctx):
    lib_growth_filehandles.run(ctx)
