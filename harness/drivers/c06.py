"""C06 — event-mode conversion equals dense conversion and preserves the data.

Spec: spec/conv/EventModeDefs.tla (layouts, value-ids, what the converted object must contain),
EventMode.tla (state machine: build a binned layout bin by bin in memory order, broadcast pixel
geometry to the slots, apply the kernel, convert the edges, store), Trace_EventMode.tla (judge).

1. TLC, exhaustive: all layouts within the bounds (quick: <= 4 events, grids up to 2x2 / 3 pixels;
   thorough: <= 6 events, grids up to 3x2; empty bins, uneven bins, at most one unreferenced slot,
   every memory order of the bins for <= 4 bins, four characteristic orders for 6 bins):
   ResultPerEvent, MembershipPreserved, OrderPreserved, WeightsUntouched, EdgesSameFunction,
   InputUntouched, and Repeatable (a second call on the same object - action Recall - gives the same
   result; quick: on the <= 3-event model of the coverage run, thorough: on the full model); eight
   negative controls must be rejected.
2. spec -> code (M1): every layout TLC reaches (printed by the Seal action) becomes a real binned
   DataArray (1-d pixel grid, pixel x coordinate-bin grid with a bin-edge coordinate, 2-d pixel
   grid; event coordinate float64 / float32 / int64 / int32; geometry per pixel given as positions,
   as derived quantities or as beam vectors; dense and event masks; unrelated dense and event coordinates) and is
   converted with scippneutron.convert for the elastic and inelastic targets (variants rotate
   over the layouts).  Value-ids: all event coordinate values, weights, variances are pairwise
   distinct; the *dense conversion of the implementation* applied to the (pixel x slot) table gives
   the dictionary value -> <<pixel, slot>>; every converted event value (all event coordinates the
   conversion added, not only the target) is mapped back by exact equality (NaN == NaN), weights /
   variances / the unrelated event coordinate are mapped back to slot ids, the converted bin-edge
   coordinate is mapped back through the dense (pixel x edge) table.  TLC (Trace_EventMode) judges
   the id structure of every call; snapshot comparisons (array_equal / sc.identical) provide the
   booleans for masks, unrelated coordinates, the retained origin coordinate and the input object.
   That the dense kernels themselves are right is C01/C05's job.
3. code -> spec (M2): seeded random layouts far beyond the bounds (up to 6x4 bins, 60 events, many
   unreferenced slots) judged by the same trace spec.
A dtype the dense conversion itself refuses (int32 with energy targets) is recorded as
"unsupported", not as a violation.
4. Hardening round (HARDENING.md; three of four cases carry options drawn by lib_convert.event_opts):
   * targets (8): time_at_sample (pulse_time per event or per run), hkl_vec, l, Qz from tof / wavelength;
   * units per operand (5): event coordinate in us / ns / ms (nm, ueV / eV, 1/nm), the bin-edge coordinate in
     another unit than the events, positions / L1 / L2 / Ltotal in m / mm / cm independently, angle in deg,
     incident / final energy in eV; the dense reference gets the same numbers in the same units;
   * dtypes (1): geometry float32 with float64 / int events and vice versa, weights float32 / float64
     independent of the event coordinate, bin edges float32 / int64;
   * layouts (2, 7, 8): per-pixel (2-d) bin edges, the grid as the interior of a larger binned array
     (sliced view: strided begin / end, many unreferenced slots), data stored as [origin, spectrum],
     a single pixel as a 0-d binned array, the data array inside a Dataset, coordinates inserted in a
     random order;
   * history (6; EventMode.tla action Recall / invariant Repeatable): the judged call comes after a
     call with the same arguments or with another target on the same object, or another object of the
     same shape is converted before the result is looked at; at the end a sample of the cases is
     executed again in the main process in reverse order, judged again and compared with the first run;
   * a result that is not a binned array over the same grid with a consistent buffer is the verdict
     result_malformed, not a crash (11).
"""

from __future__ import annotations

import multiprocessing as mp
import os
import threading
import time

from ..core import MachineryError
from ..tlc import require_actions, require_ok, write_ndjson
from .. import lib_convert as L

RULE = ('layout = (grid kind, R, C, N, begin/end per bin); event coordinate values, weights and variances '
        'pairwise distinct so that exact equality identifies <<pixel, slot>>; non-trivial = the conversion '
        'returned and the layout has at least two non-empty bins')

NEG = ['memory_order:ResultPerEvent', 'column_geometry:ResultPerEvent', 'inplace:InputUntouched',
       'weights_by_memory_rank:WeightsUntouched', 'reversed_bins:OrderPreserved',
       'edges_first_pixel:EdgesSameFunction', 'shifted_slices:MembershipPreserved',
       'consumed_work_buffer:Repeatable']


def _nproc():
    try:
        n = int(os.environ.get('VERIF_PROCS', '16'))
    except ValueError:
        n = 16
    return max(1, min(n, os.cpu_count() or 1))


def _run_negs(ctx, errs):
    want = dict(n.split(':') for n in NEG)

    def one(i, name):
        try:
            r = L.spaced_tlc(ctx, 'conv/MC_EventMode.tla', f'Neg_EventMode_{name}.cfg', workers=2, expect_error=True,
                        timeout=600)
            if want[name] not in r.error:
                errs.append(MachineryError(f'negative control {name}: expected {want[name]} violated, got {r.error}'))
        except Exception as e:  # noqa: BLE001
            errs.append(e if isinstance(e, MachineryError) else MachineryError(repr(e)))

    def coverage():
        try:
            r = L.spaced_tlc(ctx, 'conv/MC_EventMode.tla', 'Cov_EventMode.cfg', workers=2, coverage=True, timeout=600,
                        count=False)
            require_ok(ctx, r, 'EventMode coverage run')
            require_actions(r, ['Place', 'Seal', 'Broadcast', 'Apply', 'Store', 'Recall'])
        except Exception as e:  # noqa: BLE001
            errs.append(e if isinstance(e, MachineryError) else MachineryError(repr(e)))

    ths = [threading.Thread(target=one, args=(i, n)) for i, n in enumerate(want)]
    ths.append(threading.Thread(target=coverage))
    for t in ths:
        t.start()
    return ths


def _random_layout(rng):
    kind = rng.choice(['p', 'pt', 'pp'])
    R = rng.randint(1, 6)
    C = 1 if kind == 'p' else rng.randint(1, 4)
    B = R * C
    order = list(range(B))
    mode = rng.random()
    if mode < 0.3:
        pass
    elif mode < 0.5:
        order = [(i % R) * C + i // R for i in range(B)]  # column-major (a transposed array)
    else:
        rng.shuffle(order)
    bg, en = [0] * B, [0] * B
    cur = 0
    # a third of the layouts tile the buffer without gaps (in row-major, column-major or shuffled order):
    # "contiguous buffer" is the usual precondition of a fast path
    dense_buffer = rng.random() < 0.33
    for b in order:
        cur += 0 if dense_buffer else rng.choice([0, 0, 0, 1, 3])
        size = rng.choice([0, 0, 1, 1, 2, 3, 5, 9])
        if cur + size > 60:
            size = 0
        bg[b], en[b] = cur, cur + size
        cur += size
    N = cur + (0 if dense_buffer else rng.choice([0, 0, 2]))
    return {'kind': kind, 'R': R, 'C': C, 'N': N, 'bg': bg, 'en': en}


def _key(meta, clause):
    # the plain form keeps the historical keys; hardening options that change the shape of the call are named
    flags = meta.get('layout_flags') or []
    extra = ('; ' + '+'.join(flags)) if flags else ''
    u = meta.get('units') or {}
    canon = {'event': None, 'edges': None, 'lengths': ['m', 'm', 'm'], 'angle': 'rad', 'inelastic': 'meV'}
    var_o = meta['variant'].split('->')[0]
    canon['event'] = L.ORIGIN_UNIT[var_o]
    canon['edges'] = L.ORIGIN_UNIT[var_o] if meta['kind'] == 'pt' else None
    if u and any(u.get(k) != v for k, v in canon.items()):
        extra += '; operands in other units'
    return (f"event-mode convert({meta['variant']}; event dtype {meta['dtype']}; geometry from {meta['geom']}; "
            f"grid {meta['kind']}{extra}): {clause}")


def _selftest(ctx, events, rejected):
    """the judge must reject planted corruptions at exactly the corrupted events (DESIGN 3.5)"""
    import copy

    good = [e for e in events if e['out'] == 'ok' and e['tid'] not in rejected
            and sum(1 for b in e['bins'] if len(b['x']) >= 2) >= 1
            and sum(1 for b in e['bins'] if len(b['x']) >= 1) >= 2]
    if len(good) < 8:
        if rejected:
            ctx.extra['trace_selftest'] = 'skipped: not enough accepted events'
            return
        raise MachineryError('trace self-test: not enough non-trivial accepted events')
    sl = copy.deepcopy(good[::max(1, len(good) // 60)][:60])
    expect = {}

    def after(clause, e):       # Trace_EventMode names the history of a repeated call in the clause
        return clause if e['hist'] == 'first' else f"{clause}_{e['hist']}"

    def nonempty(e, n=1):
        return [i for i, b in enumerate(e['bins']) if len(b['x']) >= n]

    def disjoint(a, b):             # candidate-id sets the judge can tell apart (ties share ids: item 11)
        return not any(x in b for x in a)

    # two events of one bin swapped in the result: only where the two have different dense values
    swap = [(k, i) for k, e in enumerate(sl) if k == 0 or k > 5 for i in nonempty(e, 2)
            if disjoint(e['bins'][i]['r'][0], e['bins'][i]['r'][1])]
    used = set(range(1, 6))
    if swap:
        k, i = swap[0]
        e = sl[k]
        used.add(k)
        e['bins'][i]['r'][0], e['bins'][i]['r'][1] = e['bins'][i]['r'][1], e['bins'][i]['r'][0]
        expect[e['tid']] = after('event_value_differs_from_dense', e)
    e = sl[1]                       # an event moved to another bin
    i, j = nonempty(e)[:2]
    for col in ('r', 'w', 'v', 'x'):
        e['bins'][j][col].append(e['bins'][i][col].pop())
    expect[e['tid']] = after('bin_membership_count', e)
    e = sl[2]                       # weights reordered
    i = nonempty(e, 2)[0]
    e['bins'][i]['w'] = e['bins'][i]['w'][::-1]
    expect[e['tid']] = after('weights', e)
    e = sl[3]                       # order of a bin reversed consistently
    i = nonempty(e, 2)[0]
    for col in ('r', 'w', 'v', 'x'):
        e['bins'][i][col] = e['bins'][i][col][::-1]
    expect[e['tid']] = after('event_order', e)
    e = sl[4]
    e['same']['input'] = False
    expect[e['tid']] = after('input_modified', e)
    e = sl[5]
    e['same']['masks'] = False
    expect[e['tid']] = after('masks_changed', e)
    pt = [x for k, x in enumerate(sl) if k > 5 and k not in used and x['kind'] == 'pt' and x['R'] >= 2
          and any(disjoint(a, b) for a, b in zip(x['edges'][0], x['edges'][1], strict=False))]
    if pt:                          # edges of two pixels exchanged
        e = pt[0]
        e['edges'][0], e['edges'][1] = e['edges'][1], e['edges'][0]
        expect[e['tid']] = after('edge_value_differs_from_dense', e)
    tf = ctx.tmp / 'c06-selftest.ndjson'
    write_ndjson(tf, sl)
    tr = L.spaced_tlc(ctx, 'conv/Trace_EventMode.tla', workers=1, env={'TRACE_FILE': str(tf)}, timeout=600, count=False)
    require_ok(ctx, tr, 'Trace_EventMode self-test')
    got = {tid: clause for _, _line, tid, clause in tr.tagged('REJECT')}
    if got != expect:
        if rejected:
            ctx.extra['trace_selftest'] = 'inconclusive on a tree with violations'
            return
        raise MachineryError(f'trace self-test: judge verdicts {got} differ from the planted corruptions {expect}')
    ctx.extra['trace_selftest'] = f'{len(expect)} corrupted events rejected, {len(sl) - len(expect)} accepted'


def run(ctx):
    ctx.rule = RULE
    ctx.assume('the dense reference is the implementation\'s own dense conversion (scippneutron.convert on a dense '
               '(pixel x slot) array with the same geometry); its correctness is C01/C05')
    ctx.assume('exact equality with NaN == NaN and -0.0 == 0.0; unit and dtype of the event coordinate must equal '
               'those of the dense result')
    ctx.assume('operand dtypes the dense conversion itself refuses (scipp DTypeError, e.g. int32 tof -> energy) '
               'are outside the quantifier ("supported dtypes")')
    ctx.assume('events that belong to no bin (unreferenced slots of the buffer) are not events of the data; the '
               'layout of the output buffer is free')
    ctx.assume('a 2-d pixel grid whose data and per-pixel geometry are stored with different dimension orders (e.g. '
               'after da.transpose()) is refused by scipp binned arithmetic with a VariableError although the dense '
               'conversion works: a refusal, not a wrong answer - such layouts are not generated; a [spectrum, origin] '
               'grid stored as [origin, spectrum] converts and is judged')
    ctx.assume('history: a call on an object that was converted before, or whose result is looked at after another '
               'call, must satisfy the property like any other call (the property quantifies over inputs only)')

    # ---- 1. design: TLC exhaustive (also the source of the M1 layouts) + negative controls
    errs = []
    negs = _run_negs(ctx, errs)
    cfg = 'MC_EventMode_thorough.cfg' if ctx.thorough else 'MC_EventMode.cfg'
    res = L.spaced_tlc(ctx, 'conv/MC_EventMode.tla', cfg, workers=1, timeout=1500)
    require_ok(ctx, res, 'EventMode model')
    ctx.exhaustive = True
    layouts = {}
    for p in res.tagged('CASE'):
        _, kind, R, C, N, bg, en = p
        layouts[(kind, R, C, N, tuple(bg), tuple(en))] = {'kind': kind, 'R': R, 'C': C, 'N': N,
                                                         'bg': list(bg), 'en': list(en)}
    for t in negs:
        t.join()
    if errs:
        raise errs[0]
    lays = [layouts[k] for k in sorted(layouts)]
    if len(lays) < 500:
        raise MachineryError(f'only {len(lays)} layouts parsed from the TLC run')
    ctx.extra['layouts_enumerated_by_tlc'] = len(lays)
    rng = ctx.rng
    if not ctx.thorough:
        small = [x for x in lays if x['R'] * x['C'] <= 2]
        big = [x for x in lays if x['R'] * x['C'] > 2]
        # the layouts whose buffer is contiguous in column-major order (what a transposed array looks like) are
        # rare in a uniform sample and are the ones a positional fast path gets wrong: keep all of them
        colmajor = [x for x in big if x['kind'] == 'pt' and L._column_major_contiguous(x)]
        rest = [x for x in big if not (x['kind'] == 'pt' and L._column_major_contiguous(x))]
        colmajor = rng.sample(colmajor, min(len(colmajor), 200))
        lays = small + colmajor + rng.sample(rest, min(len(rest), 2600 - min(len(small), 600) - len(colmajor)))
        rng.shuffle(lays)
    else:
        rng.shuffle(lays)   # so that the rotation of variants is not correlated with the enumeration order
    n_model = len(lays)
    lays += [_random_layout(rng) for _ in range(3000 if ctx.thorough else 400)]

    nv, nd = len(L.EVENT_VARIANTS), len(L.EVENT_DTYPES)
    off = ctx.seed % (nv * nd * len(L.GEOM_MODES))
    cases = []
    for i, lay in enumerate(lays):
        j = i + off
        var, dtype = list(L.EVENT_VARIANTS[j % nv]), L.EVENT_DTYPES[(j // nv) % nd]
        geom = L.GEOM_MODES[(j // (nv * nd)) % len(L.GEOM_MODES)]
        # hardening options (units per operand, dtypes of geometry / weights / edges, views, transposed
        # storage, 2-d edges, 0-d, Dataset, call history); every fourth case keeps the plain form
        opts = L.event_opts(rng, lay, var, dtype, geom) if i % 4 else None
        cases.append({'tid': i + 1, 'lay': lay, 'var': var, 'dtype': dtype, 'geom': geom, 'opts': opts})

    # ---- 2./3. run the real conversions, record, let TLC judge
    nproc = _nproc()
    chunk = 150
    jobs = [(cases[i:i + chunk], ctx.seed) for i in range(0, len(cases), chunk)]
    t0 = time.time()
    if nproc > 1:
        with mp.get_context('spawn').Pool(nproc) as pool:
            results = [r for part in pool.imap(L.run_event_cases, jobs, chunksize=1) for r in part]
    else:
        results = [r for j in jobs for r in L.run_event_cases(j)]
    ctx.extra['convert_wall_s'] = round(time.time() - t0, 1)
    events, metas = [], []
    unsupported = {}
    combos = set()
    for (ev, meta), c in zip(results, cases):
        if 'harness_error' in ev:
            raise MachineryError(f'harness error on case {c}: {ev["harness_error"]}')
        events.append(ev)
        metas.append(meta)
        if ev['out'] == 'unsupported':
            k = f"{meta['variant']} / {meta['dtype']}"
            unsupported[k] = unsupported.get(k, 0) + 1
        nonempty = sum(1 for b in ev['bins'] if b['x'])
        nt = ev['out'] == 'ok' and nonempty >= 2
        if ev['out'] == 'ok':
            combos.add((meta['variant'], meta['dtype'], meta['geom'], meta['kind']))
        ctx.case(nontrivial_id=(c['tid'],) if nt else None)
    ctx.extra['cases_from_model'] = n_model
    ctx.extra['cases_random'] = len(cases) - n_model
    ctx.extra['unsupported_by_dense_conversion'] = unsupported
    ctx.extra['distinct_variant_dtype_geometry_grid_combinations_converted'] = len(combos)
    if sum(unsupported.values()) > len(cases) // 5:
        raise MachineryError(f'too many unsupported cases: {unsupported}')
    for e, m in list(zip(events, metas))[:2]:
        ctx.sample({'event': e, 'meta': m})

    # ---- 3b. replay pass (HARDENING item 6): a sample of the cases again at the end of the run, in this
    # process, in reverse order and without the history calls; same verdicts, same projected result
    n_first = len(cases)
    pick = sorted(rng.sample(range(n_first), min(n_first, 600 if ctx.thorough else 150)), reverse=True)
    replay = [dict(cases[i], tid=n_first + k + 1, hist='replay') for k, i in enumerate(pick)]
    differs = 0
    for (ev, meta), c, i in zip(L.run_event_cases((replay, ctx.seed)), replay, pick):
        if 'harness_error' in ev:
            raise MachineryError(f'harness error on replay of case {c}: {ev["harness_error"]}')
        events.append(ev)
        metas.append(meta)
        cases.append(c)
        ctx.case(nontrivial_id=None)
        a = {k: v for k, v in events[i].items() if k not in ('tid', 'hist')}
        b = {k: v for k, v in ev.items() if k not in ('tid', 'hist')}
        if a != b:
            differs += 1
            ctx.violation(_key(meta, 'the result depends on the call history (replay at the end of the run differs)'),
                          {'case': c, 'first': events[i], 'replay': ev, 'seed': ctx.seed})
    ctx.extra['replayed_in_another_order'] = len(replay)

    per = 4000
    parts = [events[i:i + per] for i in range(0, len(events), per)]
    verdicts = [None] * len(parts)
    counts = [(0, 0)] * len(parts)
    terrs = []
    sem = threading.Semaphore(min(nproc, 8))

    def validate(i):
        with sem:
            try:
                tf = ctx.tmp / f'c06-{i}.ndjson'
                write_ndjson(tf, parts[i])
                tr = L.spaced_tlc(ctx, 'conv/Trace_EventMode.tla', workers=1, env={'TRACE_FILE': str(tf)}, timeout=3000,
                             count=False)
                require_ok(ctx, tr, 'Trace_EventMode')
                done = tr.tagged('DONE')
                if not done or done[0][1] != len(parts[i]):
                    raise MachineryError(f'trace validation incomplete: {done} vs {len(parts[i])}')
                verdicts[i] = tr.tagged('REJECT')
                counts[i] = (tr.generated, tr.distinct)
                tf.unlink()
            except Exception as e:  # noqa: BLE001
                terrs.append(e if isinstance(e, MachineryError) else MachineryError(repr(e)))

    ths = [threading.Thread(target=validate, args=(i,)) for i in range(len(parts))]
    for t in ths:
        t.start()
    for t in ths:
        t.join()
    if terrs:
        raise terrs[0]
    for gen, dist in counts:
        ctx.states += gen
        ctx.distinct_states += dist
        ctx.transitions += max(gen - 1, 0)
    ctx.traces(len(events))
    rejected = set()
    for rej in verdicts:
        for _, _line, tid, clause in rej:
            rejected.add(tid)
            ev, meta, c = events[tid - 1], metas[tid - 1], cases[tid - 1]
            if clause.startswith('layout_not_well_formed'):
                raise MachineryError(f'harness produced an ill-formed layout: {c}')
            ctx.violation(_key(meta, clause), {
                'case': c, 'clause': clause, 'meta': meta, 'event': ev, 'seed': ctx.seed,
                'reproduce': 'harness.lib_convert.run_event_case(case, seed)'})
    _gravity_event_block(ctx)
    try:
        _selftest(ctx, events, rejected)
    except MachineryError:
        if not (rejected or ctx.violations):
            raise
        ctx.extra['trace_selftest'] = 'inconclusive on a tree with violations'
    except Exception as e:  # noqa: BLE001  (the self-test must never mask verdicts, item 11)
        if not (rejected or ctx.violations):
            raise MachineryError(f'trace self-test crashed: {e!r}') from e
        ctx.extra['trace_selftest'] = 'inconclusive on a tree with violations'
    if not any(e['out'] == 'ok' for e in events):
        raise MachineryError('vacuous run: no conversion returned')


def _gravity_event_block(ctx):
    """Event mode of the gravity kernels of conversion/beamline.py (scattering_angles_with_gravity,
    scattering_angle_in_yz_plane), which take the event coordinate `wavelength` as an operand: every event gets
    exactly the value the dense conversion gives for its wavelength and its pixel's beams, the bin-edge
    coordinate is converted with the same function, and the input (also when its wavelength is stored in the
    very unit the kernel works in: metres) is what it was.  Layouts: 2-d grids pixel x wavelength bin with
    empty / uneven bins and unreferenced slots."""
    import numpy as np
    import scipp as sc
    from scippneutron.conversion.beamline import scattering_angle_in_yz_plane, scattering_angles_with_gravity

    rng = np.random.default_rng(ctx.seed + 606)      # own stream: the driver's rng sequence stays as it was
    n_cases = 120 if ctx.thorough else 36
    done = 0
    for c in range(n_cases):
        wl_unit = ('m', 'angstrom', 'nm', 'mm', 'm', 'um')[c % 6]
        len_unit = ('m', 'mm', 'm', 'cm')[(c // 2) % 4]
        dt = 'float32' if c % 5 == 3 else 'float64'
        kernel = 'yz' if c % 3 == 2 else 'with_gravity'
        npix, nb = int(rng.integers(1, 5)), int(rng.integers(1, 4))
        sizes = rng.integers(0, 5, size=(npix, nb))
        if c % 4 == 0:
            sizes[rng.integers(0, npix), :] = 0
        gap = int(rng.integers(0, 3))                               # unreferenced slots in front
        n_ev = gap + int(sizes.sum()) + int(rng.integers(0, 2))
        end = (gap + np.cumsum(sizes.reshape(-1))).reshape(npix, nb)
        begin = end - sizes
        wl_m = rng.uniform(0.5e-10, 12e-10, n_ev)
        wav = sc.array(dims=['event'], values=wl_m, unit='m').to(unit=wl_unit).to(dtype=dt)
        buf = sc.DataArray(
            sc.array(dims=['event'], values=rng.uniform(0.5, 2.0, n_ev), variances=rng.uniform(0.1, 0.3, n_ev), unit='counts'),
            coords={'wavelength': wav, 'pulse': sc.arange('event', n_ev, unit=None)})
        b2 = rng.uniform(-1.0, 1.0, (npix, 3)) * [0.6, 0.6, 0.0] + [0.0, 0.0, 1.0]
        b2 *= rng.uniform(2.0, 6.0, (npix, 1))
        scat = sc.vectors(dims=['spectrum'], values=b2, unit='m').to(unit=len_unit)
        inc = sc.vector([0.0, 0.0, float(rng.uniform(5, 30))], unit='m').to(unit=len_unit)
        grav = sc.vector([0.0, -9.80665, 0.0], unit='m/s^2')
        edges = sc.array(dims=['wavelength'], values=np.linspace(0.4e-10, 13e-10, nb + 1), unit='m').to(unit=wl_unit).to(dtype=dt)
        geo = {'incident_beam': inc, 'gravity': grav}
        da = sc.DataArray(
            sc.bins(data=buf, dim='event', begin=sc.array(dims=['spectrum', 'wavelength'], values=begin, unit=None, dtype='int64'),
                    end=sc.array(dims=['spectrum', 'wavelength'], values=end, unit=None, dtype='int64')),
            coords={'wavelength': edges, 'scattered_beam': scat, **geo,
                    'temperature': sc.array(dims=['spectrum'], values=rng.uniform(270, 290, npix), unit='K')},
            masks={'bad': sc.array(dims=['spectrum'], values=rng.random(npix) < 0.3)})
        if kernel == 'yz':
            graph, targets = {'theta': scattering_angle_in_yz_plane}, ['theta']
        else:
            graph, targets = {('two_theta', 'phi'): scattering_angles_with_gravity}, ['two_theta', 'phi']
        tag = f'gravity kernel {kernel} in event mode'
        detail = {'wavelength_unit': wl_unit, 'length_unit': len_unit, 'dtype': dt, 'sizes': sizes.tolist(), 'gap': gap, 'case': c}
        snap = da.copy(deep=True)
        # the dense references first (so that a kernel that spoils its operands cannot spoil them afterwards)
        order = [k for i in range(npix) for j in range(nb) for k in range(begin[i, j], end[i, j])]
        pix_of = [i for i in range(npix) for j in range(nb) for _ in range(begin[i, j], end[i, j])]
        wl_in_order = np.asarray(wav.values)[order] if order else np.zeros(0, dtype=dt)

        def bins_of(x):
            d0, d1 = x.dims        # transform_coords may rename the bin dimension (wavelength -> theta)
            return [x[d0, i][d1, j].value for i in range(npix) for j in range(nb)]

        try:
            per_event = sc.DataArray(
                sc.zeros(dims=['event'], shape=[len(order)]),
                coords={'wavelength': sc.array(dims=['event'], values=wl_in_order, unit=wl_unit, dtype=dt),
                        'scattered_beam': sc.vectors(dims=['event'], values=np.asarray(scat.values)[pix_of].reshape(-1, 3), unit=len_unit),
                        'incident_beam': inc.copy(), 'gravity': grav.copy()}).transform_coords(targets, graph=graph)
            grid = sc.DataArray(
                sc.zeros(dims=['spectrum', 'wavelength'], shape=[npix, nb]),
                coords={'wavelength': edges.copy(), 'scattered_beam': scat.copy(), 'incident_beam': inc.copy(),
                        'gravity': grav.copy()}).transform_coords(targets, graph=graph)
            out = da.transform_coords(targets, graph=graph)
        except Exception as e:  # noqa: BLE001  (a refusal is an observation, not judged here)
            ctx.extra.setdefault('gravity_event_refusals', []).append(f'{type(e).__name__}: {str(e)[:120]}')
            continue
        done += 1
        ctx.case(nontrivial_id=('gravity-event', kernel, wl_unit, len_unit, dt, npix, nb))
        if not sc.identical(da, snap):
            ctx.violation(f'{tag}: input_modified', detail)
        obins, ibins = bins_of(out), bins_of(snap)
        sizes_ok = [len(o.data.values) for o in obins] == [int(x) for x in sizes.reshape(-1)]
        if not sizes_ok:
            ctx.violation(f'{tag}: bin_membership_changed', detail)
            continue
        offs = np.concatenate([[0], np.cumsum(sizes.reshape(-1))])
        for t in targets:
            try:
                want = per_event.coords[t]
                ok = all(o.coords[t].unit == want.unit and o.coords[t].dtype == want.dtype
                         and np.array_equal(o.coords[t].values, want.values[offs[k]:offs[k + 1]], equal_nan=True)
                         for k, o in enumerate(obins))
            except Exception:  # noqa: BLE001
                ok = False
            if not ok:
                ctx.violation(f'{tag}: event_value_differs_from_the_dense_conversion ({t})', detail)
            try:
                e_got, e_want = out.coords[t], grid.coords[t]
                ok = (e_got.unit == e_want.unit and set(e_got.dims) == set(e_want.dims)
                      and np.array_equal(e_got.transpose(e_want.dims).values, e_want.values, equal_nan=True))
            except Exception:  # noqa: BLE001
                ok = False
            if not ok:
                ctx.violation(f'{tag}: bin_edge_coordinate_not_converted_like_dense_data ({t})', detail)
        if not all(sc.identical(o.data, i_.data) for o, i_ in zip(obins, ibins, strict=True)):
            ctx.violation(f'{tag}: event_weights_changed', detail)
        if not all(sc.identical(o.coords['pulse'], i_.coords['pulse']) for o, i_ in zip(obins, ibins, strict=True)):
            ctx.violation(f'{tag}: unrelated_event_coordinate_changed', detail)
        if not all('wavelength' not in o.coords or sc.identical(o.coords['wavelength'], i_.coords['wavelength'])
                   for o, i_ in zip(obins, ibins, strict=True)):
            ctx.violation(f'{tag}: event_wavelength_of_the_result_changed', detail)
        if not (sc.identical(out.masks['bad'], snap.masks['bad']) and sc.identical(out.coords['temperature'], snap.coords['temperature'])):
            ctx.violation(f'{tag}: mask_or_unrelated_coordinate_changed', detail)
    ctx.extra['gravity_event_cases'] = done
    if done < n_cases // 2:
        raise MachineryError(f'gravity kernels in event mode: only {done} of {n_cases} cases converted')


META = {
    'design_ref': 'DESIGN.md §5 C06',
    'technique': 'TLA+ state machine of event-mode conversion over binned layouts (value-ids) model-checked by TLC; '
                 'every TLC-enumerated layout replayed into real binned DataArrays; results mapped back to ids by '
                 'exact equality against the implementation\'s dense conversion and judged by a TLC trace spec',
    'text': 'TLC enumerates all binned layouts within the bounds (empty, uneven, out-of-order bins, unreferenced '
            'slots, 1-d and 2-d grids) and proves on the model that per-event results, membership, order, weights, '
            'edges and the input are as the property demands; each layout is replayed into scippneutron.convert with '
            'rotating targets (elastic and inelastic), event dtypes and geometry representations; per-event values are '
            'mapped to <<pixel, slot>> ids through the dense conversion of the (pixel x slot) table and TLC judges the '
            'id structure, with snapshot booleans for masks, unrelated coordinates and the input.',
    'note': 'Trusted: TLC, scipp binned arithmetic as the carrier, numpy equality; the dense kernels themselves are '
            'checked by C01/C05. The id mapping accepts an event if the expected id is among the ids with an identical '
            'dense value (ties are possible only by numerical coincidence).',
}
