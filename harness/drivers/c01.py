"""C01 — elastic TOF kinematics reproduce the de Broglie / Bragg definitions.

Spec: spec/conv/Kinematics.tla (state machine walking the conversion graph), KinematicsDefs.tla
(physics, documented kernels, graph tables, output units, dimension table), KinRat.tla (exact
rationals), Trace_Kinematics.tla (judge of recorded executions).

1. TLC, exhaustive: for every neutron (t, L, sin theta) of the rational grid, every start coordinate
   and every walk of <= 4 conversions through the transcribed graph, the value held equals the
   physical definition (RouteAgreement), returns to a coordinate return its value (RoundTrip),
   Q d = 2 pi (QdTwoPi); the angle operand may be overwritten in place once (Retarget) and a new walk
   started from the coordinate held - same invariants.  Negative controls: factor 1/2 dropped in
   E(lambda); 2 pi for 4 pi; the sine of the angle remembered from the first use (stale_angle).
2. spec -> code (M1): TLC prints every maximal walk with the exact rational value after each step.
   The driver replays each walk shape into the *real* kernels, fetched through the real graph
   tables elastic(origin)[target], feeding each kernel the *real* output of the previous one
   (accumulated walk), for blocks of grid neutrons laid out as scalar / 1-d / 2-d broadcast /
   per-pixel operands, decade scalings over 1e-9..1e9 SI, unit choices per argument, float64 /
   float32 data and auxiliary operands.
   Hardening round: integer-typed data / auxiliary operands (int64, int32; values whose squares are
   representable; a scipp DTypeError for a call with an integer operand is "not supported"), small
   scattering angles (sin theta = 1e-3, 1e-6 are grid points of the TLC model), the same table laid
   out differently in memory (dims listed in the other order, transposed view, window of a larger
   table), event (binned) data operands, single-element 1-d operands, auxiliary operand *objects*
   that live across calls and are overwritten in place, and at the end of the run a sample of the
   replays done so far is replayed and judged once more in another order.
3. code -> spec (M2): every real kernel call is one NDJSON event; TLC (Trace_Kinematics) judges the
   discrete facts (kernel wired to that edge, walk continuity, kernel signature, output unit,
   precision class, dims flags, closeness / round-trip / Q d flags, route-agreement flags, and the
   real elastic() tables against the specification's tables).

Numeric closeness cannot be decided by TLC: the specification supplies the exact rational r of each
quantity in natural units; the physical value is  r * Lambda^a * H^b * MN^c * pi^d * (s_eff/s)^g  with
the exponent table PhysDim/SinExp printed by the specification, H and MN the floats scipp exposes
as exact rationals, Lambda the free wavelength scale fixed by the one input float handed to the
code, and s_eff = sin of the angle float handed to the code; it is evaluated with 60-digit mpmath
and compared with the float the code returned (relative error <= 1e-11 double / 1e-5 single: the
property's numbers).  The code under test is never used as an oracle.
"""

from __future__ import annotations

import inspect
import os
from fractions import Fraction

import mpmath
import numpy as np

from .. import lib_conv as lc
from ..core import MachineryError
from ..refmap import H, MN, check_constants, mpf
from ..tlc import require_ok

TOL = {'float64': 1e-11, 'float32': 1e-5}   # the property's numbers
F32_LO, F32_HI = 1e-18, 1e18                 # single precision: values whose squares are normal floats

KIND_UNITS = {
    'tof': lc.TIME_UNITS,
    'wavelength': lc.LENGTH_UNITS,
    'dspacing': lc.LENGTH_UNITS,
    'energy': lc.ENERGY_UNITS,
    'Q': tuple('1/' + u for u in lc.LENGTH_UNITS),
}
RULE = ('walk shape (start coordinate + sequence of graph edges, enumerated by TLC) x operand layout '
        '{scalar, 1-d, 2-d broadcast, per-pixel (also dims in the other order / transposed view / window of a '
        'larger table), event data} x data dtype x auxiliary dtype (float64, float32, int64, int32) x unit per '
        'operand x scaling; every grid neutron of the TLC model occurs as an element; a sample replayed again at '
        'the end in another order.  non-trivial = a replay whose every kernel call returned, distinct by '
        '(walk shape, layout, dtypes, units, scalings)')
SI_LO, SI_HI = 1e-9, 1e9                     # the quantifier's range (SI), applied to integer operands


# ------------------------------------------------------------------------------------ spec data
class SpecData:
    def __init__(self, printed):
        dim = [p for p in printed if isinstance(p, list) and p and p[0] == 'DIM']
        if not dim:
            raise MachineryError('specification did not print its dimension table')
        self.physdim = {k: tuple(v) for k, v in dim[0][1].items()}
        self.sinexp = dict(dim[0][2])
        # walk shape -> {(t, L, sn, sd): (start value, [value after each step])}
        self.walks: dict = {}
        for p in printed:
            if not (isinstance(p, list) and p and p[0] == 'WALK'):
                continue
            _, t, L, s, start, v0, route = p
            sig = (start, tuple((r['o'], r['ker'], r['target']) for r in route))
            self.walks.setdefault(sig, {})[(t, L, s[0], s[1])] = (
                Fraction(*v0), [Fraction(*r['val']) for r in route])
        if not self.walks:
            raise MachineryError('specification emitted no walks')
        self.grid = sorted(next(iter(self.walks.values())).keys())
        for sig, tab in self.walks.items():
            if sorted(tab) != self.grid:
                raise MachineryError(f'walk {sig} not emitted for every grid neutron')

    def const(self, kind):
        a, b, c, d = self.physdim[kind]
        return mpf(H) ** b * mpf(MN) ** c * mpmath.pi ** d


# ------------------------------------------------------------------------------------ real graph
def real_edge(o, target):
    from scippneutron.conversion.graph import tof as gtof

    g = gtof.elastic(o)
    return g.get(target)


def graph_events():
    from scippneutron.conversion.graph import tof as gtof

    evs = []
    for o in ('energy', 'tof', 'Q', 'wavelength'):
        g = gtof.elastic(o)
        edges = [[k if isinstance(k, str) else ','.join(k), getattr(f, '__name__', repr(f))]
                 for k, f in g.items()]
        evs.append({'ev': 'graph', 'tid': -1, 'origin': o, 'edges': edges})
    return evs


# ------------------------------------------------------------------------------------ a block
class Skip(Exception):
    """The drawn scenario is outside the quantifier / the stated assumptions: not evaluated."""


def _int_window(rng, dtype, unit_si: float, spread: float):
    """A value for the smallest element of an integer operand given in a unit of SI factor `unit_si`:
    >= 1, squares representable, SI value inside the quantifier's 1e-9..1e9."""
    lo = max(1.0, SI_LO / unit_si)
    hi = min(float(lc.INT_LIMIT[dtype]), SI_HI / unit_si) / spread
    if lo * 1.5 > hi:
        raise Skip('no integer of this unit inside the range')
    return 10 ** rng.uniform(np.log10(lo * 1.5), np.log10(hi))


class Block:
    """A physical scenario: P pixels x X data points of grid neutrons and the operands built from them."""

    def __init__(self, spec, rng, start, layout, xs, ps, dt_data, dt_aux, units, decades, variant='',
                 pool=None):
        self.spec, self.start, self.layout, self.variant = spec, start, layout, variant
        self.rng, self.pool = rng, pool
        self.xs, self.ps = xs, ps            # xs: [(t, L|None)], ps: [(L|None, (sn, sd))]
        self.dt_data, self.dt_aux, self.units, self.decades = dt_data, dt_aux, units, dict(decades)
        P, X = len(ps), len(xs)
        self.P, self.X = P, X
        self.gp = [[(xs[x][0], xs[x][1] if xs[x][1] is not None else ps[p][0], ps[p][1][0], ps[p][1][1])
                    for x in range(X)] for p in range(P)]
        if layout in ('perpixel', 'binned'):
            # every pixel its own time axis
            self.gp = [[(xs[(x + p) % X][0],) + self.gp[p][x][1:] for x in range(X)] for p in range(P)]
        self.pix_dims = [] if layout in ('scalar', '1d') else ['spectrum']
        # auxiliary operands of different shapes in one call: one flight path for all pixels (handed over as a 0-d
        # variable) next to a per-pixel scattering angle ("scalar / 1-d / 2-d broadcast operand shapes")
        self.shared_L = bool(self.pix_dims) and rng.random() < 0.15
        if self.shared_L:
            L0 = self.gp[0][0][1]
            self.gp = [[(g[0], L0, g[2], g[3]) for g in row] for row in self.gp]
        self.ok = True
        try:
            self._aux()
        except Skip:
            self.ok = False

    @property
    def layout_name(self):
        return self.layout + ('/' + self.variant if self.variant else '')

    # auxiliary operands (per pixel): Ltotal, two_theta
    def _aux(self):
        u_L, u_th = self.units['Ltotal'], self.units['two_theta']
        Lg = [self.gp[p][0][1] for p in range(self.P)]
        if lc.is_int(self.dt_aux):
            v = _int_window(self.rng, self.dt_aux, float(lc.si(u_L)), max(Lg) / min(Lg))
            self.decades['L'] = float(np.log10(v / min(Lg) * float(lc.si(u_L))))
        sL = 10.0 ** self.decades['L']
        Lnom = [float(L) * sL / float(lc.si(u_L)) for L in Lg]
        self.L_vals = lc.cast_values(Lnom, self.dt_aux)
        self.L_SI = [mpf(lc.exact(v) * lc.si(u_L)) for v in self.L_vals]
        th = []
        tiny = self.rng.choice([2e-8, 1e-9, 3e-11, 1e-13]) if (not lc.is_int(self.dt_aux) and self.rng.random() < 0.12) else 0
        tiny_off = self.rng.randrange(2)
        for p in range(self.P):
            sn, sd = self.gp[p][0][2], self.gp[p][0][3]
            tt = 2 * mpmath.asin(mpf(Fraction(sn, sd)))
            if tiny and (p + tiny_off) % 2 == 0:
                # the quantifier is "all scattering angles in (0, pi]": angles far below the grid's smallest
                # (2e-6 rad), down to 1e-13 rad; the expected value follows through (s_eff / s)^g like every
                # other rounding of the angle (d up to 1e13 angstrom, Q down to 1e-13 / angstrom: ordinary doubles)
                tt = mpf(tiny)
            th.append(float(tt if u_th == 'rad' else tt * 180 / mpmath.pi))
        self.th_vals = lc.cast_values(th, self.dt_aux)
        if lc.is_int(self.dt_aux):
            # integer angles: whole radians 1..3 / whole degrees 1..180, all inside (0, pi]
            self.th_vals = np.clip(self.th_vals, 1, 3 if u_th == 'rad' else 180)
        # s_eff = sin of half the angle float the code sees; two_theta must stay in (0, pi]
        self.s_eff = []
        for p, v in enumerate(self.th_vals):
            a = lc.angle_rad(v, u_th)
            if a > mpmath.pi:      # rounding pushed pi upwards: use the float just below
                v = np.nextafter(v, v.dtype.type(0))
                self.th_vals[p] = v
                a = lc.angle_rad(v, u_th)
            if not a > 0:
                raise Skip('angle rounded to zero')
            self.s_eff.append(mpmath.sin(a / 2))
        if self.dt_aux == 'float32' and not all(F32_LO <= abs(float(v)) <= F32_HI for v in self.L_vals):
            self.ok = False

    def aux_var(self, name):
        vals, unit = (self.L_vals, self.units['Ltotal']) if name == 'Ltotal' else (
            self.th_vals, self.units['two_theta'])
        v, dims = (vals[0], []) if not self.pix_dims or (name == 'Ltotal' and self.shared_L) else (vals, ['spectrum'])
        if self.pool is not None:
            return self.pool.get(name, v, dims, unit, self.dt_aux)
        return lc.var(v, dims, unit, self.dt_aux)

    def srat(self, p, g):
        """(s_eff / s)^g as mpf."""
        if g == 0:
            return mpmath.mpf(1)
        sn, sd = self.gp[p][0][2], self.gp[p][0][3]
        return (self.s_eff[p] / mpf(Fraction(sn, sd))) ** g

    # the data operand of the start coordinate and the per-element scale Lambda
    def start_operand(self, tab):
        spec, start = self.spec, self.start
        u = self.units['start']
        P, X = self.P, self.X
        usi = float(lc.si(u))
        base = np.empty((P, X))           # value in unit u at scale 1
        if start == 'tof':
            expo, dec = 1, 't'
            for p in range(P):
                for x in range(X):
                    base[p, x] = float(self.gp[p][x][0]) / usi
        else:
            expo, dec = spec.physdim[start][0], 'lam'
            c0 = spec.const(start)
            for p in range(P):
                for x in range(X):
                    v0 = mpf(tab[self.gp[p][x]][0]) * self.srat(p, spec.sinexp[start])
                    base[p, x] = float(v0 * c0 / mpf(lc.si(u)))
        if lc.is_int(self.dt_data):
            v = _int_window(self.rng, self.dt_data, usi, float(base.max() / base.min()))
            self.decades[dec] = float(np.log10(v / base.min()) / expo)
        nominal = base * (10.0 ** self.decades[dec]) ** expo
        vals = lc.cast_values(nominal, self.dt_data)
        if lc.is_int(self.dt_data) and (vals.min() < 1 or vals.max() > lc.INT_LIMIT[self.dt_data]):
            raise Skip('integer data outside the range')
        if self.layout in ('scalar',):
            data = lc.var(vals[0, 0], [], u, self.dt_data)
        elif self.layout == '1d':
            data = lc.var(vals[0], ['x'], u, self.dt_data)
        elif self.layout == 'bcast':
            if not all(np.array_equal(vals[0], vals[p]) for p in range(P)):
                raise MachineryError('broadcast layout with pixel-dependent data')
            data = lc.var(vals[0, 0], [], u, self.dt_data) if self.variant == 'scalar-data' else lc.var(
                vals[0], ['x'], u, self.dt_data)
        elif self.layout == 'binned':
            # every second event table has events outside the bins (before, between and after them)
            gaps = [self.rng.randrange(3) for _ in range(P + 1)] if self.variant == 'gaps' else None
            data = lc.binned_var(vals, u, self.dt_data, gaps)
        elif self.variant:
            data = lc.strided_view(vals, ['spectrum', 'x'], u, self.dt_data, self.variant)
        else:
            data = lc.var(vals, ['spectrum', 'x'], u, self.dt_data)
        # per-element Lambda from the numbers actually handed over
        self.lam = [[None] * X for _ in range(P)]
        for p in range(P):
            for x in range(X):
                act = mpf(lc.exact(vals[p, x]) * lc.si(u))
                t, L = self.gp[p][x][0], self.gp[p][x][1]
                if start == 'tof':
                    self.lam[p][x] = mpf(H) / mpf(MN) * act / self.L_SI[p] * L / t
                else:
                    a = spec.physdim[start][0]
                    v0 = mpf(tab[self.gp[p][x]][0]) * self.srat(p, spec.sinexp[start])
                    self.lam[p][x] = (act / (v0 * spec.const(start))) ** (mpmath.mpf(1) / a)
        self.start_SI = [[mpf(lc.exact(vals[p, x]) * lc.si(u)) for x in range(X)] for p in range(P)]
        return data, vals

    def expected_SI(self, tab, step, kind):
        spec = self.spec
        a = spec.physdim[kind][0]
        c = spec.const(kind)
        g = spec.sinexp[kind]
        return [[mpf(tab[self.gp[p][x]][1][step]) * self.srat(p, g) * self.lam[p][x] ** a * c
                 for x in range(self.X)] for p in range(self.P)]

    def as_PX(self, res):
        """Result values as a (P, X) array (broadcast), or None if dims / layout are not as expected."""
        try:
            if lc.is_binned(res):
                if list(res.dims) != ['spectrum'] or res.sizes['spectrum'] != self.P:
                    return None
                rows = lc.bin_rows(res)
                if any(len(r) != self.X for r in rows):
                    return None
                return np.asarray(rows)
            dims = list(res.dims)
            sizes = dict(res.sizes)
            for d in dims:
                if d not in ('spectrum', 'x'):
                    return None
            if sizes.get('spectrum', self.P) != self.P or sizes.get('x', self.X) != self.X:
                return None
            v = res.values
            if dims == ['x', 'spectrum']:
                v = np.asarray(v).T
            elif dims == ['x']:
                v = np.asarray(v)[None, :]
            elif dims == ['spectrum']:
                v = np.asarray(v)[:, None]
            return np.broadcast_to(np.asarray(v), (self.P, self.X))
        except Exception:  # noqa: BLE001   (a malformed result is reported through the dims clause)
            return None


def _in_f32_range(arr):
    a = np.abs(np.asarray(arr, dtype='float64'))
    return bool(np.all((a >= F32_LO) & (a <= F32_HI)))


def _relerr(got, want):
    try:
        if not np.isfinite(got):
            return float('inf')
        return float(abs((mpmath.mpf(float(got)) - want) / want))
    except Exception:  # noqa: BLE001   (non-numeric element)
        return float('inf')


# ------------------------------------------------------------------------------------ one call
def call_edge(o, target, kind_in, data, blk):
    """Call the kernel the *real* graph `o` wires to `target`.  Returns (event fields, result, dims)."""
    import scipp as sc

    f = real_edge(o, target)
    dt_in = lc.elem_dtype_name(data)
    ev = {'o': o, 'target': target, 'kind_in': kind_in, 'kernel': '', 'status': 'ok', 'params': [],
          'unit_in': lc.elem_unit_name(data), 'unit_out': '', 'dt_in': dt_in,
          'dt_out': '', 'dims_ok': True, 'finite': True, 'close': True, 'rt_ok': True, 'qd_ok': True,
          'layout': blk.layout_name, 'has_int': lc.is_int(dt_in), 'binned_in': lc.is_binned(data),
          'binned_out': lc.is_binned(data), 'again': False}
    if f is None:
        ev['status'] = 'missing'
        return ev, None, set()
    ev['kernel'] = getattr(f, '__name__', repr(f))
    try:
        params = list(inspect.signature(f).parameters)
    except (TypeError, ValueError):
        params = []
    ev['params'] = params
    kw = {}
    dims = set(data.dims)
    for p in params:
        if p == kind_in:
            kw[p] = data
        elif p in ('Ltotal', 'two_theta'):
            kw[p] = blk.aux_var(p)
            dims |= set(kw[p].dims)
            ev['has_int'] = ev['has_int'] or lc.is_int(blk.dt_aux)
        else:
            ev['status'] = 'ok'     # signature clause of the trace spec reports it
            return ev, None, dims
    if kind_in not in kw:
        return ev, None, dims
    snapshot = {k: v.copy() for k, v in kw.items()}
    try:
        res = f(**kw)
    except sc.DTypeError as e:
        ev['status'] = 'unsupported'
        ev['exc'] = repr(e)[:200]
        return ev, None, dims
    except Exception as e:  # noqa: BLE001
        ev['status'] = 'raised'
        ev['exc'] = repr(e)[:200]
        return ev, None, dims
    if not isinstance(res, sc.Variable):
        ev['status'] = 'raised'
        ev['exc'] = f'result is a {type(res).__name__}, not a Variable'
        return ev, None, dims
    for k, v in kw.items():
        if not sc.identical(v, snapshot[k]):
            ev['status'] = 'raised'
            ev['exc'] = f'operand {k} modified'
    ev['binned_out'] = lc.is_binned(res)
    try:
        ev['unit_out'] = lc.elem_unit_name(res)
        ev['dt_out'] = lc.elem_dtype_name(res)
    except Exception as e:  # noqa: BLE001
        ev['status'] = 'raised'
        ev['exc'] = f'malformed result: {e!r}'[:200]
        return ev, None, dims
    return ev, res, dims


# ------------------------------------------------------------------------------------ replay
def replay(ctx, spec, sig, blk, tid, events, details, reexpress_p, again=False):
    """Replay one walk shape on one block through the real kernels; one event per call."""
    start, route = sig
    tab = spec.walks[sig]
    rng = ctx.rng
    try:
        data, vals = blk.start_operand(tab)
    except Skip:
        return 'skipped'
    if blk.dt_data == 'float32' and not _in_f32_range(vals):
        return 'skipped'
    seen = {start: blk.start_SI}
    kind = start
    complete = True
    for step, (o, ker, target) in enumerate(route):
        want = blk.expected_SI(tab, step, target)
        dt_now = lc.elem_dtype_name(data)
        out_unit_nominal = 'angstrom' if target in ('wavelength', 'dspacing') else (
            'meV' if target == 'energy' else '1/' + lc.elem_unit_name(data))
        dt_expect = 'float32' if dt_now == 'float32' else 'float64'
        # precision class of the comparison: single as soon as any operand of the scenario is single
        # (the property promises 1e-11 "in double", i.e. for double operands); integers count as double
        prec = 'float32' if 'float32' in (blk.dt_data, blk.dt_aux, dt_expect) else 'float64'
        if dt_expect == 'float32':
            f = lc.UNITS.get(out_unit_nominal)
            wv = [float(w / mpf(f[1])) for row in want for w in row] if f else [1.0]
            if not (_in_f32_range(wv) and _in_f32_range(lc.flat_values(data))):
                return 'skipped' if step == 0 else 'truncated'
        ev, res, dims = call_edge(o, target, kind, data, blk)
        ev.update(ev='call', tid=tid, step=step, again=bool(again))
        det = {'walk': [start] + [r[2] for r in route], 'step': step, 'layout': blk.layout_name,
               'units': dict(blk.units), 'decades': dict(blk.decades), 'dt_data': blk.dt_data,
               'dt_aux': blk.dt_aux, 'unit_in': ev['unit_in'], 'pooled_aux_objects': blk.pool is not None}
        events.append(ev)
        details.append(det)
        if res is None:
            complete = False
            break
        tol = TOL[prec]
        arr = blk.as_PX(res)
        ev['dims_ok'] = arr is not None and set(res.dims) == dims
        fo = lc.UNITS.get(ev['unit_out'])
        if arr is None or fo is None:
            # dims / unit clauses of the trace spec report it; values cannot be compared
            complete = False
            break
        try:
            arr = np.asarray(arr, dtype='float64')
        except Exception:  # noqa: BLE001
            ev['finite'] = False
            complete = False
            break
        ev['finite'] = bool(np.all(np.isfinite(arr)))
        fo_m = mpf(fo[1])
        worst = (0.0, None)
        for p in range(blk.P):
            for x in range(blk.X):
                r = _relerr(arr[p, x], want[p][x] / fo_m)
                if r > worst[0]:
                    worst = (r, (p, x))
        ev['close'] = worst[0] <= tol
        det['worst_relerr'] = worst[0]
        if worst[1] is not None and worst[0] > tol:
            p, x = worst[1]
            det['element'] = {'neutron(t,L,sin)': blk.gp[p][x], 'got': float(arr[p, x]),
                              'want': mpmath.nstr(want[p][x] / fo_m, 20), 'unit': ev['unit_out']}
        if not (ev['finite'] and ev['close'] and ev['dims_ok']):
            # the walk stops at the first failing call, so that only the kernel at fault is reported
            # (all earlier calls were within the bound)
            complete = False
            break
        got_SI = [[mpmath.mpf(float(arr[p, x])) * fo_m for x in range(blk.X)] for p in range(blk.P)]
        # round trip: same coordinate seen before in this walk
        if target in seen:
            prev = seen[target]
            rt = max(float(abs((got_SI[p][x] - prev[p][x]) / prev[p][x]))
                     for p in range(blk.P) for x in range(blk.X))
            ev['rt_ok'] = rt <= 2 * tol
            det['round_trip_relerr'] = rt
        other = 'dspacing' if target == 'Q' else ('Q' if target == 'dspacing' else None)
        if other and other in seen:
            prev = seen[other]
            qd = max(float(abs(got_SI[p][x] * prev[p][x] / (2 * mpmath.pi) - 1))
                     for p in range(blk.P) for x in range(blk.X))
            ev['qd_ok'] = qd <= 2 * tol
            det['Qd_relerr'] = qd
        seen[target] = got_SI
        if not (ev['rt_ok'] and ev['qd_ok']):
            complete = False
            break
        # next data operand: the real output, sometimes re-expressed in another unit of its kind
        data = res
        kind = target
        if rng.random() < reexpress_p and target != 'dspacing' and not lc.is_binned(res):
            nu = rng.choice(KIND_UNITS[target])
            try:
                cand = res.to(unit=lc.scu(nu), copy=True)
            except Exception as e:  # noqa: BLE001
                raise MachineryError(f'scipp cannot convert {res.unit} to {nu}: {e}') from e
            if dt_expect != 'float32' or _in_f32_range(cand.values):
                data = cand
    return 'ok' if complete else 'incomplete'


# ------------------------------------------------------------------------------------ agreement
AGREE_ROUTES = {
    'tof': {
        'energy': [[('tof', 'energy')], [('tof', 'wavelength'), ('wavelength', 'energy')]],
        'wavelength': [[('tof', 'wavelength')], [('tof', 'energy'), ('energy', 'wavelength')],
                       [('tof', 'wavelength'), ('tof', 'Q'), ('Q', 'wavelength')]],
        'dspacing': [[('tof', 'dspacing')], [('tof', 'wavelength'), ('wavelength', 'dspacing')],
                     [('tof', 'energy'), ('energy', 'dspacing')],
                     [('tof', 'energy'), ('energy', 'wavelength'), ('wavelength', 'dspacing')]],
        'Q': [[('tof', 'wavelength'), ('tof', 'Q')],
              [('tof', 'energy'), ('energy', 'wavelength'), ('wavelength', 'Q')]],
    },
    'wavelength': {
        'dspacing': [[('wavelength', 'dspacing')], [('wavelength', 'energy'), ('energy', 'dspacing')]],
        'energy': [[('wavelength', 'energy')],
                   [('wavelength', 'Q'), ('Q', 'wavelength'), ('wavelength', 'energy')]],
    },
    'energy': {
        'dspacing': [[('energy', 'dspacing')], [('energy', 'wavelength'), ('wavelength', 'dspacing')]],
    },
}


def agreement(ctx, spec, blk, tid, events, details):
    """Evaluate different routes of the graph to one quantity with the real kernels, compare got vs got."""
    start = blk.start
    sig0 = next(s for s in spec.walks if s[0] == start)
    try:
        data0, vals = blk.start_operand(spec.walks[sig0])
    except Skip:
        return
    if blk.dt_data == 'float32' and not _in_f32_range(vals):
        return
    tol = TOL['float32' if 'float32' in (blk.dt_data, blk.dt_aux) else 'float64']
    for target, routes in AGREE_ROUTES[start].items():
        outs = []
        for r in routes:
            data, kind, ok = data0, start, True
            for o, tg in r:
                if lc.elem_dtype_name(data) == 'float32' and not _in_f32_range(lc.flat_values(data)):
                    ok = False
                    break
                ev, res, _ = call_edge(o, tg, kind, data, blk)
                if res is None:
                    ok = False
                    break
                data, kind = res, tg
            outs.append(data if ok else None)
        if any(o is None for o in outs):
            continue
        arrs = []
        for o in outs:
            a = blk.as_PX(o)
            f = lc.UNITS.get(lc.elem_unit_name(o))
            try:
                arrs.append(None if a is None or f is None else np.asarray(a, dtype='float64') * float(f[1]))
            except Exception:  # noqa: BLE001
                arrs.append(None)
        if any(a is None for a in arrs):
            agree, worst = False, float('inf')
        else:
            worst = 0.0
            for a in arrs[1:]:
                with np.errstate(all='ignore'):
                    d = np.abs(a - arrs[0]) / np.abs(arrs[0])
                worst = max(worst, float(np.max(d)) if np.all(np.isfinite(d)) else float('inf'))
            agree = worst <= 2 * tol
        events.append({'ev': 'agree', 'tid': tid, 'from': start, 'target': target,
                       'routes': [[list(e) for e in r] for r in routes], 'agree': bool(agree)})
        details.append({'layout': blk.layout_name, 'units': dict(blk.units), 'decades': dict(blk.decades),
                        'dt_data': blk.dt_data, 'dt_aux': blk.dt_aux, 'worst_rel_difference': worst})
        ctx.case(nontrivial_id=('agree', start, target, blk.layout_name, blk.dt_data, blk.dt_aux,
                                tuple(sorted(blk.units.items()))))


# ------------------------------------------------------------------------------------ variants
INT_UNITS = {   # units in which integers are natural (an integer number of seconds or kilometres is not)
    'tof': ('ns', 'us', 'ms'), 'Ltotal': ('mm', 'cm', 'm', 'um'), 'wavelength': ('angstrom', 'nm', 'um', 'mm'),
    'energy': ('J', 'keV', 'eV'), 'Q': ('1/m', '1/cm', '1/mm', '1/um', '1/nm'),
}


def make_block(ctx, spec, start, layout, dt_data, dt_aux, covered, pool=None):
    rng = ctx.rng
    grid = spec.grid
    Ts = sorted({g[0] for g in grid})
    Ls = sorted({g[1] for g in grid})
    Ss = sorted({(g[2], g[3]) for g in grid})
    variant = ''
    if layout == 'perpixel':
        variant = rng.choice(['', '', 'T', 'view', 'slice'])
    if layout == 'binned':
        variant = rng.choice(['', 'gaps'])
    if layout == 'bcast' and start == 'tof' and rng.random() < 0.25:
        variant = 'scalar-data'          # one 0-d time, per-pixel auxiliary operands
    nx = {'scalar': 1, '1d': rng.choice([1, min(4, len(Ts))]), 'bcast': 1 if variant else min(4, len(Ts)),
          'perpixel': min(3, len(Ts)), 'binned': min(3, len(Ts))}[layout]
    npix = {'scalar': 1, '1d': 1, 'bcast': min(5, len(Ls) * len(Ss)), 'perpixel': 3, 'binned': 4}[layout]
    if layout == 'perpixel' and variant:
        npix = 2                     # P != X, so that a transposed table cannot pass for the table
    tsel = rng.sample(Ts, nx)
    pix = rng.sample([(L, s) for L in Ls for s in Ss], npix)
    if layout == 'bcast' and start == 'Q':
        layout = 'perpixel'
    if layout == 'bcast' and start != 'tof':
        xs = [(t, rng.choice(Ls)) for t in tsel]
        ps = [(None, s) for (_, s) in pix]
    else:
        xs = [(t, None) for t in tsel]
        ps = list(pix)
    units = {'Ltotal': rng.choice(INT_UNITS['Ltotal'] if lc.is_int(dt_aux) else lc.LENGTH_UNITS),
             'two_theta': rng.choice(lc.ANGLE_UNITS),
             'start': rng.choice(INT_UNITS[start] if lc.is_int(dt_data) else KIND_UNITS[start])}
    if dt_data == 'float32' or dt_aux == 'float32':
        dec = {'t': rng.randrange(-6, 3), 'L': rng.randrange(-3, 4), 'lam': rng.randrange(-11, -6)}
    else:
        dec = {'t': rng.randrange(-9, 8), 'L': rng.randrange(-9, 8), 'lam': rng.randrange(-9, 8)}
        if start in ('energy', 'Q'):
            # keep the start quantity itself inside 1e-9..1e9 SI: E = H^2/(MN Lambda^2) * r, Q = pi r / Lambda
            dec['lam'] = rng.randrange(-24, -15) if start == 'energy' else rng.randrange(-7, 8)
    blk = Block(spec, rng, start, layout, xs, ps, dt_data, dt_aux, units, dec, variant, pool)
    for row in blk.gp:
        covered.update(row)
    return blk


# single precision first: the first use of a unit by a walk shape is then usually a single-precision one (a constant
# remembered with its first caller's precision shows in the double-precision replays that follow)
FLOAT_COMBOS = (('float32', 'float32'), ('float64', 'float64'), ('float64', 'float32'), ('float32', 'float64'))
INT_COMBOS = (('int64', 'float64'), ('float64', 'int64'), ('int64', 'int64'), ('float32', 'int64'),
              ('int32', 'float64'), ('float64', 'int32'))


def run(ctx):
    ctx.rule = RULE
    check_constants()
    ctx.assume('h and m_n are the floats scipp.constants exposes, taken as exact rationals; unit factors '
               'are the exact SI definitions (eV = 1.602176634e-19 J, angstrom = 1e-10 m)')
    ctx.assume('single precision: only scenarios whose operand and result values v (in their units) satisfy '
               '1e-18 <= |v| <= 1e18, so that the squares the formulas need are normal float32 numbers')
    ctx.assume('the angle handed to the code is the float nearest to 2 asin(s); the reference uses the sine of '
               'that float (mpmath), the specification supplies the rest of the term exactly')
    ctx.assume('integer-typed operands (int64 / int32): values >= 1 whose squares are representable (<= 2e9 / '
               '<= 30000) and whose SI value lies in 1e-9..1e9; results are held to the double-precision bound; a '
               'scipp DTypeError for a call with an integer operand is recorded as "not supported"')
    ctx.assume('event data: the data operand is a binned variable over the pixels, auxiliary operands per pixel')
    workers = int(os.environ.get('VERIF_TLC_WORKERS', 16))   # other builders share the machine
    # ---- 1. design: exhaustive model checking + negative controls
    cfg = 'MC_Kinematics_thorough.cfg' if ctx.thorough else 'MC_Kinematics.cfg'
    res = ctx.tlc('conv/MC_Kinematics.tla', cfg, workers=workers, timeout=1200)
    require_ok(ctx, res, 'Kinematics model')
    ctx.tlc('conv/MC_Kinematics.tla', 'Neg_Kinematics.cfg', workers=4, expect_error=True, timeout=300)
    ctx.tlc('conv/MC_Kinematics.tla', 'Neg_Kinematics_q.cfg', workers=4, expect_error=True, timeout=300)
    ctx.tlc('conv/MC_Kinematics.tla', 'Neg_Kinematics_stale_angle.cfg', workers=4, expect_error=True, timeout=300)

    # ---- 2. the specification's walks with exact values (workers=1: PrintT output is sequential)
    ecfg = 'Emit_Kinematics_thorough.cfg' if ctx.thorough else 'Emit_Kinematics.cfg'
    em = ctx.tlc('conv/MC_Kinematics.tla', ecfg, workers=1, timeout=1200, count=False)
    require_ok(ctx, em, 'Kinematics walk emission')
    spec = SpecData(em.printed)
    ctx.extra['walk_shapes'] = len(spec.walks)
    ctx.extra['grid_neutrons'] = len(spec.grid)
    ctx.extra['spec_walks_emitted'] = sum(len(v) for v in spec.walks.values())
    ctx.extra['smallest_sin_theta_on_grid'] = str(min(Fraction(g[2], g[3]) for g in spec.grid))

    # ---- 3. replay + record
    events = graph_events()
    details = [{} for _ in events]
    tid = 0
    covered: set = set()
    pool = lc.OperandPool()
    layouts = ('scalar', '1d', 'bcast', 'perpixel')
    ndraw = 24 if ctx.thorough else 3
    nint = 6 if ctx.thorough else 1
    stats = {'ok': 0, 'skipped': 0, 'truncated': 0, 'incomplete': 0}
    by_class: dict = {}
    done = []
    sigs = sorted(spec.walks)
    plan = []
    for sig in sigs:
        for layout in layouts + ('binned',):
            for dts in FLOAT_COMBOS:
                plan.append((sig, layout, dts, ndraw if layout != 'binned' else max(1, ndraw * 2 // 3)))
            for dts in INT_COMBOS:
                plan.append((sig, layout, dts, nint))
    for sig, layout, (dt_data, dt_aux), n in plan:
        for _ in range(n):
            # every second block takes its auxiliary operands from objects that live across calls
            blk = make_block(ctx, spec, sig[0], layout, dt_data, dt_aux, covered,
                             pool if ctx.rng.random() < 0.5 else None)
            if not blk.ok:
                stats['skipped'] += 1
                continue
            n0 = len(events)
            out = replay(ctx, spec, sig, blk, tid, events, details, reexpress_p=0.35)
            stats[out] += 1
            if out != 'skipped':
                cls = (blk.layout_name, dt_data, dt_aux)
                by_class[cls] = by_class.get(cls, 0) + (out == 'ok')
                ctx.case(nontrivial_id=(sig, blk.layout_name, dt_data, dt_aux, tuple(sorted(blk.units.items())),
                                        tuple(sorted(blk.decades.items()))) if out == 'ok' else None)
                if out == 'ok':
                    done.append((sig, blk))
                if tid < 2:
                    ctx.sample({'walk': [sig[0]] + [r[2] for r in sig[1]], 'layout': blk.layout_name,
                                'neutrons': blk.gp, 'units': blk.units, 'decades': blk.decades,
                                'events': events[n0:]})
            tid += 1
    # route agreement, got vs got
    nag = 40 if ctx.thorough else 10
    for start in AGREE_ROUTES:
        for layout in layouts + ('binned',):
            for dt_data, dt_aux in FLOAT_COMBOS:
                for _ in range(nag if layout not in ('scalar', 'binned') else max(2, nag // 4)):
                    blk = make_block(ctx, spec, start, layout, dt_data, dt_aux, covered)
                    if blk.ok:
                        agreement(ctx, spec, blk, tid, events, details)
                    tid += 1
    # second use: a sample of the replays done so far, once more, in another order (double-precision and
    # integer scenarios first: they are the ones a remembered single-precision constant would spoil)
    ctx.rng.shuffle(done)
    done.sort(key=lambda sb: 'float32' in (sb[1].dt_data, sb[1].dt_aux))
    nagain = 1500 if ctx.thorough else 350
    again = {'ok': 0, 'skipped': 0, 'truncated': 0, 'incomplete': 0}
    for sig, blk in done[:nagain]:
        out = replay(ctx, spec, sig, blk, tid, events, details, reexpress_p=0.35, again=True)
        again[out] += 1
        ctx.case()
        tid += 1
    ctx.extra['replays'] = stats
    ctx.extra['replayed_again_at_the_end'] = again
    ctx.extra['complete_replays_by_layout_and_dtypes'] = {'/'.join(k): v for k, v in sorted(by_class.items())}
    ctx.extra['calls_with_reused_operand_objects'] = pool.reused
    ctx.extra['grid_neutrons_used_as_elements'] = len(covered)
    ctx.extra['kernel_call_events'] = sum(1 for e in events if e['ev'] == 'call')
    ctx.extra['calls_not_supported_for_integer_operands'] = sum(
        1 for e in events if e.get('status') == 'unsupported')
    ctx.extra['tolerances'] = TOL
    mx = {'float64': 0.0, 'float32': 0.0}
    for d in details:
        if 'worst_relerr' in d:
            k = 'float32' if 'float32' in (d['dt_data'], d['dt_aux']) else 'float64'
            mx[k] = max(mx[k], d['worst_relerr'])
    ctx.extra['max_relative_error_observed'] = mx
    if len(covered) < len(spec.grid):
        ctx.extra['warning'] = f'only {len(covered)} of {len(spec.grid)} grid neutrons were used'

    # ---- 4. TLC judges every event
    nviol = 0
    for line, _tid, clause in lc.run_trace(ctx, 'conv/Trace_Kinematics.tla', events, 'Trace_Kinematics'):
        ev, det = events[line - 1], details[line - 1]
        if ev['ev'] == 'graph':
            key = f'graph table elastic({ev["origin"]!r}): {clause}'
        elif ev['ev'] == 'agree':
            key = f'routes from {ev["from"]} to {ev["target"]}: {clause} (data {det.get("dt_data")})'
        else:
            who = ev['kernel'] or f'{ev["o"]}->{ev["target"]}'
            what = f'data {ev["dt_in"]}'
            if ev['binned_in']:
                what += ', event layout'
            if ev['has_int'] and not lc.is_int(ev['dt_in']):
                what += ', integer auxiliary operand'
            key = f'{who}: {clause} ({what})'
            if ev['again'] and not any(k.startswith(key) for k, _ in ctx.violations):
                key += ' [only when replayed at the end of the run]'
        ctx.violation(key, {'event': ev, 'context': det})
        nviol += 1
    # vacuity is judged last and only on a tree without violations: a broken implementation must end as a
    # violation (exit 1), not as a machinery failure
    if nviol == 0:
        if stats['ok'] < 10:
            raise MachineryError(f'vacuous run: {stats}')
        for cls in [(lay, 'float64', 'float64') for lay in ('scalar', '1d', 'bcast', 'perpixel', 'binned')] + [
                ('perpixel', 'int64', 'float64'), ('1d', 'float64', 'int64')]:
            if not any(k[0].split('/')[0] == cls[0] and k[1:] == cls[1:] and v for k, v in by_class.items()):
                raise MachineryError(f'vacuous run: no complete replay of class {cls}')
    # growth module (DESIGN §8): time-distance diagram + beamline component accessors; findings are not C01 violations
    from .. import lib_growth_diagram
    ctx.run_growth(lib_growth_diagram.run, 'lib_growth_diagram')


META = {
    'design_ref': 'DESIGN.md §5 C01',
    'technique': 'TLA+ state machine walking the transcribed conversion graph in exact rational arithmetic, '
                 'model-checked by TLC; TLC-enumerated walks replayed into the real kernels (fetched through '
                 'the real graph tables); every real call recorded and judged by a TLC trace specification',
    'text': 'TLC proves route agreement, round trips and Q d = 2 pi for every walk of <= 4 conversions on the '
            'rational grid (scattering angles from 2e-6 rad to pi). Each walk shape is then replayed through the '
            'real kernels with accumulated real outputs over scalings 1e-9..1e9, all unit choices, float64 / '
            'float32 / int64 / int32 data and auxiliary operands and scalar / 1-d / broadcast / per-pixel (also '
            'transposed and strided) / event layouts, with operand objects reused across calls; results are '
            'compared with the specification\'s exact rational times exact constants (60-digit mpmath) at '
            '1e-11 / 1e-5, and TLC judges kernel wiring, units, precision class, dims, layout and all closeness '
            'flags of every recorded call; a sample is replayed again at the end in another order.',
    'note': 'Trusted: TLC, scipp (operand construction, unit equality), mpmath. Numeric closeness is decided by '
            'the harness on the enumerated points, not by TLC. float32 scenarios are limited to values whose '
            'squares are normal float32 numbers; integer operands to values whose squares are representable.',
}
