----------------------------- MODULE PeakModels -----------------------------
(* Peak and background models (scippneutron.peaks.model) as small state machines over the  *)
(* definitions of PeakModelsDefs.  A behaviour belongs to one part (variable `part`).      *)
(*                                                                                          *)
(*  names   : a model expression is built step by step: a leaf is created, re-prefixed      *)
(*            (with_prefix), combined with another leaf on either side (left + right, or    *)
(*            CompositeModel(left, right, prefix)); a combination with a common parameter   *)
(*            name is refused and leaves the expression as it was.                          *)
(*  horner  : the polynomial is evaluated as the implementation does (val = a_n;            *)
(*            val = val*x + a_i for i = n-1 .. 0), one coefficient per step.                *)
(*  lorentz : walk away from the centre of a Lorentzian one grid step at a time.            *)
(*  units   : unit of the result for every assignment of units to the parameters.           *)
(*                                                                                          *)
(*  typed   : (hardening round) the polynomial again, now with element types attached to x  *)
(*            and to every coefficient.  An evaluation step may be refused as "unsupported" *)
(*            only when an integer-typed operand is involved (an in-place update cannot     *)
(*            widen an integer accumulator; weakest reading, as for C07); whatever is        *)
(*            returned is sum a_i x^i and no floating-point operand ends up in an integer   *)
(*            accumulator.                                                                  *)
(*  reuse   : (hardening round) the caller's parameter objects are evaluated again and       *)
(*            again (any model kind, fwhm in between): an evaluation reads them and never   *)
(*            writes them, so every evaluation of the same kind returns the same value.     *)
(*                                                                                          *)
(* Bug (negative controls): "no_clash_check" (composition never refused), "subset_ok"       *)
(* (a call is accepted when no parameter is missing, unknown ones are ignored),             *)
(* "no_shift" (Horner step forgets to multiply by x), "fwhm_sigma" (reported FWHM = scale),  *)
(* "narrow_accumulator" (the accumulator keeps its element type whatever is added to it),    *)
(* "scale_in_place" (the pseudo-Voigt rescales the caller's scale object in place).          *)
EXTENDS PeakModelsDefs, TLC

CONSTANTS Parts, Bug,
          Letters, MaxPrefixLen, MaxLeaves, PolyDegs, UnknownNames,     \* names
          Coefs, Xs, MaxDeg,                                            \* horner
          Amps, Locs, Scales, MaxOffset,                                \* lorentz
          UnitExps,                                                     \* units
          TCoefs, TMaxDeg                                               \* typed

VARIABLES part, m, refused, hz, lz, uz, tz, rz
vars == <<part, m, refused, hz, lz, uz, tz, rz>>
Idle == "idle"

-----------------------------------------------------------------------------
(* names *)
Prefixes == UNION {[1..k -> Letters] : k \in 0..MaxPrefixLen}

Leaves == {[kind |-> "poly", deg |-> d, prefix |-> p] : d \in PolyDegs, p \in Prefixes}
          \cup {[kind |-> k, deg |-> 0, prefix |-> p] : k \in {"gauss", "lorentz", "pvoigt"}, p \in Prefixes}

Comp(left, right, p) == [kind |-> "comp", deg |-> 0, prefix |-> p, left |-> left, right |-> right]

InitN == m \in Leaves /\ refused = FALSE

Reprefix(p) == m' = WithPrefix(m, p) /\ refused' = FALSE

Combine(leaf, onRight, p) ==
    LET l == IF onRight THEN m ELSE leaf
        r == IF onRight THEN leaf ELSE m
    IN /\ NLeaves(m) < MaxLeaves
       /\ IF ComposeOutcome(l, r) = "ok" \/ Bug = "no_clash_check"
          THEN m' = Comp(l, r, p) /\ refused' = FALSE
          ELSE m' = m /\ refused' = TRUE

NextN == /\ part = "names"
         /\ \/ \E p \in Prefixes : Reprefix(p)
            \/ \E leaf \in Leaves, side \in BOOLEAN, p \in Prefixes : Combine(leaf, side, p)
         /\ UNCHANGED <<part, hz, lz, uz, tz, rz>>

IsN == part = "names"

(* the implementation's acceptance test of a call *)
ImplAccepts(keys) == IF Bug = "subset_ok" THEN Names(m) \subseteq keys ELSE keys = Names(m)

(* key sets tried: exact, one missing, one unknown added, same names under another prefix,  *)
(* unprefixed names                                                                         *)
Probes ==
    {Names(m), Base(m)}
    \cup {Names(m) \ {k} : k \in Names(m)}
    \cup {Names(m) \cup {u} : u \in UnknownNames}
    \cup {{q \o n : n \in Base(m)} : q \in Prefixes}

ModelWellFormed == IsN => WellFormed(m)
NamesInjective == IsN => Cardinality(Names(m)) = Cardinality(Base(m))
StripRecoversBase == IsN => {Strip(k, m.prefix) : k \in Names(m)} = Base(m)
AllNamesCarryPrefix == IsN => \A k \in Names(m) : HasPrefix(k, m.prefix)
CompositeIsDisjointUnion ==
    (IsN /\ m.kind = "comp") => /\ Base(m) = Names(m.left) \cup Names(m.right)
                                /\ Names(m.left) \cap Names(m.right) = {}
CallAcceptedIffExact == IsN => \A keys \in Probes : ImplAccepts(keys) = (CallOutcome(m, keys) = "ok")
(* every supplied value reaches exactly the leaf parameter it is meant for *)
RoutingIsDeclared == IsN => RouteOp(m, Identity(Names(m))) = RouteDecl(m, <<>>)
(* the prefix is a pure renaming: with another prefix the same leaves receive the values    *)
(* supplied under the correspondingly renamed keys                                          *)
PrefixIsRenaming ==
    IsN => \A p \in Prefixes :
        LET m2 == WithPrefix(m, p)
            a == RouteOp(m, Identity(Names(m)))
            b == RouteOp(m2, Identity(Names(m2)))
        IN /\ Len(a) = Len(b)
           /\ \A i \in 1..Len(a) :
                 /\ a[i].kind = b[i].kind /\ a[i].deg = b[i].deg
                 /\ \A n \in DOMAIN a[i].args : Strip(a[i].args[n], m.prefix) = Strip(b[i].args[n], p)
RefusalLeavesModel == [][(part = "names" /\ refused') => m' = m]_vars

-----------------------------------------------------------------------------
(* horner: low = coefficients lowest degree first; a new *lower* coefficient is prepended   *)
InitH == hz \in {[low |-> <<c>>, acc |-> [x \in Xs |-> c]] : c \in Coefs}

HornerStep(c) ==
    /\ Len(hz.low) <= MaxDeg
    /\ hz' = [low |-> <<c>> \o hz.low,
              acc |-> [x \in Xs |-> IF Bug = "no_shift" THEN hz.acc[x] + c ELSE hz.acc[x] * x + c]]

NextH == part = "horner" /\ (\E c \in Coefs : HornerStep(c)) /\ UNCHANGED <<part, m, refused, lz, uz, tz, rz>>

HornerIsSum == part = "horner" => \A x \in Xs : hz.acc[x] = PolyValue(hz.low, x)
HornerIsHornerForm == part = "horner" => \A x \in Xs : hz.acc[x] = HornerValue(hz.low, x)

-----------------------------------------------------------------------------
(* lorentz *)
InitL == lz \in {[A |-> A, mu |-> mu, s |-> s, d |-> 0] : A \in Amps, mu \in Locs, s \in Scales}
StepL == lz.d < MaxOffset /\ lz' = [lz EXCEPT !.d = lz.d + 1]
NextL == part = "lorentz" /\ StepL /\ UNCHANGED <<part, m, refused, hz, uz, tz, rz>>

LCoef(x) == LorentzCoef(lz.A, lz.mu, lz.s, x)
ReportedFwhm == IF Bug = "fwhm_sigma" THEN lz.s ELSE LorentzFwhm(lz.s)

LorentzSymmetric == part = "lorentz" => RatEq(LCoef(lz.mu + lz.d), LCoef(lz.mu - lz.d))
(* half of the peak value exactly at loc +/- FWHM/2 (checked where 2d = FWHM) ...           *)
LorentzHalfMaximum ==
    (part = "lorentz" /\ 2 * lz.d = ReportedFwhm) =>
        /\ RatEq(LCoef(lz.mu + lz.d), RatHalf(LCoef(lz.mu)))
        /\ RatEq(LCoef(lz.mu - lz.d), RatHalf(LCoef(lz.mu)))
(* ... and nowhere else: strictly decreasing in |x - loc|, so FWHM is the full width        *)
LorentzMonotone ==
    part = "lorentz" => RatLess(RatAbs(LCoef(lz.mu + lz.d + 1)), RatAbs(LCoef(lz.mu + lz.d)))
LorentzSignOfAmplitude ==
    part = "lorentz" => (LCoef(lz.mu + lz.d)[1] > 0) = (lz.A > 0)
(* Gaussian part in units of its half width: exactly one half at t = +-k, symmetric         *)
GaussHalfMaximum ==
    part = "lorentz" => \A k \in 1..3 : /\ RatEq(GaussExp2(k, k), <<-1, 1>>)
                                        /\ RatEq(GaussExp2(-k, k), <<-1, 1>>)
                                        /\ \A t \in 0..(k-1) : RatLess(<<-1, 1>>, GaussExp2(t, k))

-----------------------------------------------------------------------------
(* units *)
Units == {<<p, i, j>> : p \in {0, -3}, i \in UnitExps, j \in UnitExps}
UKinds == {"poly1", "poly2", "gauss", "lorentz", "pvoigt"}

InitU == uz \in {[kind |-> k, ux |-> ux, uy |-> uy, pu |-> Canonical(k, ux, uy), changed |-> 0] :
                   k \in UKinds, ux \in Units, uy \in Units}
(* change the unit of one parameter *)
Perturb(i, u) ==
    /\ uz.changed = 0 /\ i \in 1..NParams(uz.kind) /\ u # uz.pu[i]
    /\ uz' = [uz EXCEPT !.pu[i] = u, !.changed = i]
NextU == /\ part = "units" /\ (\E i \in 1..4, u \in Units : Perturb(i, u))
         /\ UNCHANGED <<part, m, refused, hz, lz, tz, rz>>

UnitsImplied == (part = "units" /\ uz.changed = 0) => ResultUnit(uz.kind, uz.pu, uz.ux) = UOk(uz.uy)
(* a parameter in another unit never goes unnoticed: refusal, or a different result unit    *)
WrongUnitNoticed == (part = "units" /\ uz.changed # 0) => ResultUnit(uz.kind, uz.pu, uz.ux) # UOk(uz.uy)

-----------------------------------------------------------------------------
(* typed: sum a_i x^i with typed operands.  acc = value per x, accd = element type of the   *)
(* accumulator, opd = element types of all operands met so far.                             *)
InitT == tz \in {[xd |-> xd, low |-> <<c>>, acc |-> [x \in Xs |-> c], accd |-> cd, opd |-> {cd},
                  refused |-> FALSE] : xd \in DTypes, c \in TCoefs, cd \in DTypes}

TypedStep(c, cd) ==
    /\ ~tz.refused /\ Len(tz.low) <= TMaxDeg
    /\ LET fits == InPlaceFits(tz.accd, tz.xd) /\ InPlaceFits(tz.accd, cd)
           seen == tz.opd \cup {tz.xd, cd}
           go(d) == [tz EXCEPT !.low = <<c>> \o tz.low, !.acc = [x \in Xs |-> tz.acc[x] * x + c],
                               !.accd = d, !.opd = seen]
       IN \/ tz' = go(IF Bug = "narrow_accumulator" THEN tz.accd
                      ELSE JoinType(JoinType(tz.accd, tz.xd), cd))
          \* allowed: val *= x ; val += a_i on an integer buffer that would have to widen is refused
          \/ /\ ~fits /\ Bug # "narrow_accumulator"
             /\ tz' = [tz EXCEPT !.refused = TRUE, !.opd = seen]

NextT == /\ part = "typed" /\ (\E c \in TCoefs, cd \in DTypes : TypedStep(c, cd))
         /\ UNCHANGED <<part, m, refused, hz, lz, uz, rz>>

(* a refusal is "unsupported element types": only with an integer-typed operand involved *)
TypedRefusalNeedsIntegerOperand == (part = "typed" /\ tz.refused) => \E d \in tz.opd : IsIntType(d)
TypedValueIsSum == (part = "typed" /\ ~tz.refused) => \A x \in Xs : tz.acc[x] = PolyValue(tz.low, x)
(* a floating-point operand never ends up in an integer accumulator *)
TypedNothingNarrowed ==
    (part = "typed" /\ ~tz.refused) => ((\E d \in tz.opd : ~IsIntType(d)) => ~IsIntType(tz.accd))

-----------------------------------------------------------------------------
(* reuse: store = the values held by the caller's parameter objects.  An evaluation of      *)
(* kind k appends what the caller observes: the exact Lorentzian coefficients at the        *)
(* offsets 0..2 (the exact witness for every kind: all three peak models read amplitude,    *)
(* loc and scale) or, for "fwhm", the reported full width of a Lorentzian / pseudo-Voigt.   *)
RKinds == {"gauss", "lorentz", "pvoigt", "fwhm"}
InitR == rz \in {[store |-> [A |-> A, mu |-> mu, s |-> s], orig |-> [A |-> A, mu |-> mu, s |-> s],
                  seen |-> <<>>] : A \in Amps, mu \in Locs, s \in Scales}

Observe(k, st) ==
    IF k = "fwhm" THEN <<LorentzFwhm(st.s)>>
    ELSE [d \in 1..3 |-> LorentzCoef(st.A, st.mu, st.s, st.mu + d - 1)]

EvalStep(k) ==
    /\ Len(rz.seen) < 3
    /\ rz' = [rz EXCEPT !.seen = Append(rz.seen, <<k, Observe(k, rz.store)>>),
                        !.store = IF Bug = "scale_in_place" /\ k = "pvoigt"
                                  THEN [rz.store EXCEPT !.s = 2 * rz.store.s] ELSE rz.store]

NextR == /\ part = "reuse" /\ (\E k \in RKinds : EvalStep(k))
         /\ UNCHANGED <<part, m, refused, hz, lz, uz, tz>>

ArgumentsUnchanged == part = "reuse" => rz.store = rz.orig
(* the value of a model is a function of the values handed over, not of what was evaluated  *)
(* before: equal kinds observe equal values, and every observation is that of the original  *)
Repeatable ==
    part = "reuse" => \A i \in 1..Len(rz.seen) : rz.seen[i][2] = Observe(rz.seen[i][1], rz.orig)

-----------------------------------------------------------------------------
Init == /\ part \in Parts
        /\ IF part = "names" THEN InitN ELSE (m = Idle /\ refused = FALSE)
        /\ IF part = "horner" THEN InitH ELSE hz = Idle
        /\ IF part = "lorentz" THEN InitL ELSE lz = Idle
        /\ IF part = "units" THEN InitU ELSE uz = Idle
        /\ IF part = "typed" THEN InitT ELSE tz = Idle
        /\ IF part = "reuse" THEN InitR ELSE rz = Idle
Next == NextN \/ NextH \/ NextL \/ NextU \/ NextT \/ NextR
Spec == Init /\ [][Next]_vars
=============================================================================
