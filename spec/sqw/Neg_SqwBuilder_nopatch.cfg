SPECIFICATION Spec
CONSTANTS
  NPix = {10, 20}
  Chunks = {1, 10}
  Shapes <- MC_Shapes_quick
  RegSize <- MC_RegSize
  Bug = "nopatch"
INVARIANT TypeOK
INVARIANT HeaderFirst
INVARIANT Sequential
INVARIANT BlockAtDeclaredPosition
INVARIANT Tiling
INVARIANT EachBlockOnce
INVARIANT CanonicalOrder
INVARIANT PixBytes
INVARIANT KindsAndSizes
INVARIANT ByteOrderReopened
CHECK_DEADLOCK FALSE
