------------------------- MODULE Emit_ConvertGraph -------------------------
(* M1 (spec -> code): enumerates configurations of the property's space together with the   *)
(* exact expected abstract result (mode, graph tag, outcome class, computed set with the    *)
(* kernel that produces each node = the provenance tree) and writes one JSON record per     *)
(* configuration.  Stride = 1 enumerates the complete space; Stride > 1 a stratified        *)
(* sample: for every head (origin, target, scatter, aux) the masks of one residue class     *)
(* plus the masks in Always.                                                                 *)
EXTENDS ConvertGraphDefs, TLC, Json, IOUtils, SequencesExt

CONSTANTS Stride, Phase

Always == {0, 7, 2047}

OIdx(o) == CASE o = "tof" -> 0 [] o = "wavelength" -> 1 [] o = "energy" -> 2 [] o = "Q" -> 3
TSeq == SetToSeq(Targets)
TIdx(t) == CHOOSE i \in 1..Len(TSeq) : TSeq[i] = t

Sel(c) == \/ Stride = 1
          \/ c.m \in Always
          \/ (c.m + 5 * OIdx(c.o) + 11 * TIdx(c.t) + (IF c.s THEN 3 ELSE 0) + (IF c.x THEN 17 ELSE 0)) % Stride = Phase

Expect(c) ==
    LET tag == ReportedTag(c)
        out == Outcome(c)
    IN [ o |-> c.o, t |-> c.t, s |-> c.s, m |-> c.m, x |-> c.x,
         mode |-> DeducedMode(c), tag |-> tag, outcome |-> out,
         optional |-> RefusalOptional(c),
         prov |-> IF out = "ok" THEN Prov(Rules(tag), Present(c), c.t)
                  ELSE IF RefusalOptional(c) /\ Derivable(Rules("beamline"), Present(c), c.t)
                       THEN Prov(Rules("beamline"), Present(c), c.t)
                  ELSE [ n \in {} |-> "" ] ]

Cases == { c \in Configs : Sel(c) }

ASSUME ndJsonSerialize(IOEnv.OUT_FILE, SetToSeq({ Expect(c) : c \in Cases }))
ASSUME PrintT(<<"EMITTED", Cardinality(Cases)>>)

VARIABLE dummy
EInit == dummy = 0
ENext == UNCHANGED dummy
ESpec == EInit /\ [][ENext]_dummy
=============================================================================
