SPECIFICATION HSpec
CONSTANTS
  Reqs <- MC_Reqs
  MaxLen = 2
  Bug = "table_handed_out"
INVARIANT AnswerIsAFunctionOfTheArguments
INVARIANT TablesIntact
